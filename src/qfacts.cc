// qfacts — LibTooling fact extractor for the notqmail static checks.
//
// For every function defined in every translation unit given on the command line
// it emits the clang CFG (BuildOptions::setAllAlwaysAdd) in three-address form as
// JSON: one node per CFG element with resolved declarations, literal values,
// evaluated constants, types, source position and macro-expansion stack; blocks
// with terminators, labels (case ranges evaluated) and successor edges.  Per unit
// it also emits global variables with evaluated initialisers, object-like macros
// and noreturn declarations.  See /verif/DESIGN.md, Appendix A.
//
// usage: qfacts -o OUTDIR a.c b.c ... -- <compile flags>

#include "clang/AST/ASTConsumer.h"
#include "clang/AST/ASTContext.h"
#include "clang/AST/Attr.h"
#include "clang/AST/Decl.h"
#include "clang/AST/Expr.h"
#include "clang/AST/RecordLayout.h"
#include "clang/AST/Stmt.h"
#include "clang/Analysis/CFG.h"
#include "clang/Basic/SourceManager.h"
#include "clang/Frontend/CompilerInstance.h"
#include "clang/Frontend/FrontendAction.h"
#include "clang/Lex/Lexer.h"
#include "clang/Lex/MacroInfo.h"
#include "clang/Lex/PPCallbacks.h"
#include "clang/Lex/Preprocessor.h"
#include "clang/Tooling/CommonOptionsParser.h"
#include "clang/Tooling/Tooling.h"
#include "llvm/Support/CommandLine.h"
#include "llvm/Support/FileSystem.h"
#include "llvm/Support/JSON.h"
#include "llvm/Support/Path.h"
#include "llvm/Support/raw_ostream.h"

#include <map>
#include <set>
#include <string>
#include <vector>

using namespace clang;
using namespace llvm;

static cl::OptionCategory Cat("qfacts options");
static cl::opt<std::string> OutDir("o", cl::desc("output directory"), cl::Required,
                                   cl::cat(Cat));

// bytes -> JSON-safe UTF-8 string whose code points are the byte values
static std::string latin1(StringRef Bytes) {
  std::string R;
  for (unsigned char C : Bytes) {
    if (C < 0x80)
      R.push_back((char)C);
    else {
      R.push_back((char)(0xC0 | (C >> 6)));
      R.push_back((char)(0x80 | (C & 0x3F)));
    }
  }
  return R;
}

namespace {

struct UnitFacts {
  json::Object Macros;
  json::Array Globals;
  json::Array Functions;
  json::Object Decls; // function declarations: noreturn attr, defined?
  json::Object Records;
};

class MacroRecorder : public PPCallbacks {
public:
  MacroRecorder(Preprocessor &PP, UnitFacts &U) : PP(PP), U(U) {}
  void MacroDefined(const Token &Name, const MacroDirective *MD) override {
    const MacroInfo *MI = MD->getMacroInfo();
    SourceManager &SM = PP.getSourceManager();
    SourceLocation L = MI->getDefinitionLoc();
    if (L.isInvalid() || SM.isInSystemHeader(L) || SM.isWrittenInBuiltinFile(L) ||
        SM.isWrittenInCommandLineFile(L))
      return;
    if (MI->getNumTokens() > 24)
      return;
    std::string Body;
    for (const Token &T : MI->tokens()) {
      if (!Body.empty())
        Body.push_back(' ');
      Body += PP.getSpelling(T);
    }
    json::Object O;
    O["body"] = latin1(Body);
    O["fn"] = MI->isFunctionLike();
    if (MI->isFunctionLike()) {
      json::Array P;
      for (const IdentifierInfo *II : MI->params())
        P.push_back(II->getName().str());
      O["params"] = std::move(P);
    }
    PresumedLoc PL = SM.getPresumedLoc(L);
    if (PL.isValid())
      O["loc"] = (sys::path::filename(PL.getFilename()) + ":" + Twine(PL.getLine())).str();
    U.Macros[Name.getIdentifierInfo()->getName()] = std::move(O);
  }

private:
  Preprocessor &PP;
  UnitFacts &U;
};

class FnEmitter {
public:
  FnEmitter(ASTContext &Ctx, const FunctionDecl *FD)
      : Ctx(Ctx), SM(Ctx.getSourceManager()), FD(FD) {}

  json::Object run() {
    json::Object F;
    F["name"] = FD->getNameAsString();
    F["static"] = FD->getStorageClass() == SC_Static;
    F["inline"] = FD->isInlineSpecified();
    F["noreturn_attr"] = FD->isNoReturn() || FD->hasAttr<NoReturnAttr>() ||
                         FD->hasAttr<C11NoReturnAttr>();
    F["ret"] = FD->getReturnType().getAsString();
    putLoc(F, FD->getLocation());
    json::Array Params;
    for (const ParmVarDecl *P : FD->parameters()) {
      json::Object PO;
      PO["id"] = declId(P);
      PO["t"] = P->getType().getAsString();
      Params.push_back(std::move(PO));
    }
    F["params"] = std::move(Params);

    CFG::BuildOptions BO;
    BO.setAllAlwaysAdd();
    BO.PruneTriviallyFalseEdges = true;
    BO.AddEHEdges = false;
    std::unique_ptr<CFG> G = CFG::buildCFG(FD, FD->getBody(), &Ctx, BO);
    if (!G) {
      F["cfg_error"] = true;
      return F;
    }
    F["entry"] = (int64_t)G->getEntry().getBlockID();
    F["exit"] = (int64_t)G->getExit().getBlockID();

    // pass 1: number every CFG element
    std::vector<const CFGBlock *> Order;
    for (auto I = G->rbegin(), E = G->rend(); I != E; ++I)
      Order.push_back(*I);
    for (const CFGBlock *B : Order)
      for (const CFGElement &El : *B)
        if (auto CS = El.getAs<CFGStmt>()) {
          const Stmt *S = CS->getStmt();
          if (!Ids.count(S))
            Ids[S] = Next++;
        }
    // pass 2: emit
    json::Array Blocks;
    std::set<const Stmt *> Emitted;
    for (const CFGBlock *B : Order) {
      json::Object BOj;
      BOj["id"] = (int64_t)B->getBlockID();
      if (B->hasNoReturnElement())
        BOj["noreturn"] = true;
      json::Array Elems;
      Cur = &Elems;
      int Last = -1;
      for (const CFGElement &El : *B)
        if (auto CS = El.getAs<CFGStmt>()) {
          const Stmt *S = CS->getStmt();
          int Id;
          if (Emitted.count(S)) {
            Id = Next++; // same statement placed twice by the CFG builder
          } else {
            Id = Ids[S];
            Emitted.insert(S);
          }
          emitNode(S, Id);
          Last = Id;
        }
      BOj["elems"] = std::move(Elems);
      if (const Stmt *L = B->getLabel())
        BOj["label"] = label(L);
      if (const Stmt *T = B->getTerminatorStmt()) {
        json::Object TO;
        TO["k"] = termKind(T);
        if (B->succ_size() >= 2 && Last >= 0)
          TO["cond"] = Last;
        if (auto *GS = dyn_cast<GotoStmt>(T))
          TO["label"] = GS->getLabel()->getNameAsString();
        if (auto *LO = dyn_cast<BinaryOperator>(T)) {
          auto It = Ids.find(LO);       // present only when the operator is used as a value (join block)
          if (It != Ids.end())
            TO["op"] = It->second;
        }
        putLoc(TO, T->getBeginLoc());
        BOj["term"] = std::move(TO);
      }
      json::Array Succs;
      for (const CFGBlock::AdjacentBlock &AB : B->succs()) {
        json::Object SO;
        if (const CFGBlock *R = AB.getReachableBlock())
          SO["to"] = (int64_t)R->getBlockID();
        else if (const CFGBlock *UR = AB.getPossiblyUnreachableBlock()) {
          SO["to"] = nullptr;
          SO["ur"] = (int64_t)UR->getBlockID();
        } else
          SO["to"] = nullptr;
        Succs.push_back(std::move(SO));
      }
      BOj["succs"] = std::move(Succs);
      Blocks.push_back(std::move(BOj));
    }
    F["blocks"] = std::move(Blocks);
    json::Array Locals;
    for (auto &KV : LocalInfo)
      Locals.push_back(std::move(KV.second));
    F["locals"] = std::move(Locals);
    return F;
  }

  // also used for global initialisers
  static json::Value initValue(ASTContext &Ctx, const Expr *E) {
    if (!E)
      return nullptr;
    E = E->IgnoreParenCasts();
    if (auto *IL = dyn_cast<InitListExpr>(E)) {
      json::Array A;
      for (const Expr *Sub : IL->inits())
        A.push_back(initValue(Ctx, Sub));
      return json::Object{{"k", "list"}, {"v", std::move(A)}};
    }
    if (auto *SL = dyn_cast<clang::StringLiteral>(E))
      if (SL->getCharByteWidth() == 1)
        return json::Object{{"k", "str"}, {"v", latin1(SL->getBytes())}};
    if (auto *DR = dyn_cast<DeclRefExpr>(E)) {
      if (auto *FDl = dyn_cast<FunctionDecl>(DR->getDecl()))
        return json::Object{{"k", "fn"}, {"v", "F:" + FDl->getNameAsString()}};
      if (auto *VD = dyn_cast<VarDecl>(DR->getDecl()))
        if (!isa<EnumConstantDecl>(DR->getDecl()))
          return json::Object{{"k", "var"}, {"v", VD->getNameAsString()}};
    }
    if (auto *UO = dyn_cast<UnaryOperator>(E))
      if (UO->getOpcode() == UO_AddrOf)
        return json::Object{{"k", "addr"}, {"v", initValue(Ctx, UO->getSubExpr())}};
    Expr::EvalResult R;
    if (!E->isValueDependent() && E->getType()->isIntegralOrEnumerationType() &&
        E->EvaluateAsInt(R, Ctx, Expr::SE_NoSideEffects))
      return json::Object{{"k", "int"}, {"v", R.Val.getInt().getExtValue()}};
    return json::Object{{"k", "other"}};
  }

private:
  ASTContext &Ctx;
  SourceManager &SM;
  const FunctionDecl *FD;
  std::map<const Stmt *, int> Ids;
  std::map<const Decl *, std::string> LocalIds;
  std::map<std::string, json::Object> LocalInfo;
  int Next = 0;
  int NextLocal = 0;
  json::Array *Cur = nullptr;

  void putLoc(json::Object &O, SourceLocation L) {
    if (L.isInvalid())
      return;
    SourceLocation X = SM.getExpansionLoc(L);
    PresumedLoc PL = SM.getPresumedLoc(X);
    if (!PL.isValid())
      return;
    O["loc"] = json::Array{(int64_t)PL.getLine(), (int64_t)PL.getColumn()};
    if (SM.getFileID(X) != SM.getMainFileID())
      O["file"] = sys::path::filename(PL.getFilename()).str();
    if (L.isMacroID()) {
      json::Array M;
      SourceLocation Cursor = L;
      int Guard = 0;
      while (Cursor.isMacroID() && Guard++ < 16) {
        StringRef N = Lexer::getImmediateMacroName(Cursor, SM, Ctx.getLangOpts());
        if (!N.empty() && (M.empty() || *M.back().getAsString() != N))
          M.push_back(N.str());
        if (SM.isMacroArgExpansion(Cursor))
          Cursor = SM.getImmediateExpansionRange(Cursor).getBegin();
        else
          Cursor = SM.getImmediateMacroCallerLoc(Cursor);
      }
      if (!M.empty())
        O["mac"] = std::move(M);
    }
  }

  std::string declId(const Decl *D) {
    if (auto *F = dyn_cast<FunctionDecl>(D))
      return "F:" + F->getNameAsString();
    if (auto *EC = dyn_cast<EnumConstantDecl>(D))
      return "E:" + EC->getNameAsString();
    if (auto *V = dyn_cast<VarDecl>(D)) {
      if (V->isFileVarDecl()) {
        if (V->getStorageClass() == SC_Static ||
            V->getFormalLinkage() == InternalLinkage)
          return "S:" + V->getNameAsString();
        return "G:" + V->getNameAsString();
      }
      const Decl *Canon = V->getCanonicalDecl();
      auto It = LocalIds.find(Canon);
      if (It != LocalIds.end())
        return It->second;
      std::string Id;
      if (isa<ParmVarDecl>(V))
        Id = "P:" + V->getNameAsString();
      else if (V->isStaticLocal())
        Id = "SL:" + V->getNameAsString() + "#" + std::to_string(NextLocal++);
      else if (V->hasExternalStorage())
        Id = "G:" + V->getNameAsString();
      else
        Id = "L:" + V->getNameAsString() + "#" + std::to_string(NextLocal++);
      LocalIds[Canon] = Id;
      json::Object LI;
      LI["id"] = Id;
      LI["t"] = V->getType().getAsString();
      if (auto *CAT = Ctx.getAsConstantArrayType(V->getType())) {
        LI["arr"] = (int64_t)CAT->getSize().getZExtValue();
        LI["esz"] = (int64_t)Ctx.getTypeSizeInChars(CAT->getElementType()).getQuantity();
      }
      if (V->isStaticLocal() && V->getInit()) {
        LI["init"] = initValue(Ctx, V->getInit());   // a lookup table kept inside the function that uses it
        QualType ET = V->getType();
        while (const ArrayType *AT = Ctx.getAsArrayType(ET))
          ET = AT->getElementType();
        if (const RecordType *RT = ET->getAs<RecordType>()) {
          if (RT->getDecl()->isCompleteDefinition()) {
            json::Array Names;
            for (const FieldDecl *F : RT->getDecl()->fields())
              Names.push_back(F->getNameAsString());
            LI["fields"] = std::move(Names);
          }
        }
      }
      LocalInfo[Id] = std::move(LI);
      return Id;
    }
    if (auto *ND = dyn_cast<NamedDecl>(D))
      return "?:" + ND->getNameAsString();
    return "?";
  }

  int ensure(const Expr *E) {
    if (!E)
      return -1;
    const Expr *X = E;
    while (true) {
      if (auto *P = dyn_cast<ParenExpr>(X))
        X = P->getSubExpr();
      else if (auto *C = dyn_cast<ConstantExpr>(X))
        X = C->getSubExpr();
      else
        break;
    }
    auto It = Ids.find(X);
    if (It != Ids.end())
      return It->second;
    // not placed in any block (clang folds some operands): emit inline
    int Id = Next++;
    Ids[X] = Id;
    emitNode(X, Id);
    return Id;
  }

  static const char *termKind(const Stmt *T) {
    switch (T->getStmtClass()) {
    case Stmt::IfStmtClass: return "if";
    case Stmt::WhileStmtClass: return "while";
    case Stmt::ForStmtClass: return "for";
    case Stmt::DoStmtClass: return "do";
    case Stmt::SwitchStmtClass: return "switch";
    case Stmt::GotoStmtClass: return "goto";
    case Stmt::BreakStmtClass: return "break";
    case Stmt::ContinueStmtClass: return "continue";
    case Stmt::ConditionalOperatorClass: return "?:";
    case Stmt::BinaryConditionalOperatorClass: return "?:";
    case Stmt::IndirectGotoStmtClass: return "igoto";
    case Stmt::BinaryOperatorClass:
      return cast<BinaryOperator>(T)->getOpcode() == BO_LAnd ? "&&" : "||";
    default: return "other";
    }
  }

  json::Value label(const Stmt *L) {
    json::Object O;
    if (auto *CS = dyn_cast<CaseStmt>(L)) {
      O["k"] = "case";
      Expr::EvalResult R;
      if (CS->getLHS()->EvaluateAsInt(R, Ctx))
        O["lo"] = R.Val.getInt().getExtValue();
      if (CS->getRHS()) {
        Expr::EvalResult R2;
        if (CS->getRHS()->EvaluateAsInt(R2, Ctx))
          O["hi"] = R2.Val.getInt().getExtValue();
      } else if (O.get("lo"))
        O["hi"] = *O.get("lo");
    } else if (isa<DefaultStmt>(L)) {
      O["k"] = "default";
    } else if (auto *LS = dyn_cast<LabelStmt>(L)) {
      O["k"] = "label";
      O["name"] = LS->getDecl()->getNameAsString();
    } else
      O["k"] = "other";
    return O;
  }

  void emitNode(const Stmt *S, int Id) {
    json::Object N;
    N["i"] = Id;
    json::Array A;
    const Expr *E = dyn_cast<Expr>(S);
    if (E) {
      N["t"] = E->getType().getAsString();
    }
    putLoc(N, S->getBeginLoc());

    if (auto *IL = dyn_cast<IntegerLiteral>(S)) {
      N["k"] = "int";
      N["v"] = IL->getValue().getLimitedValue();
    } else if (auto *CL = dyn_cast<CharacterLiteral>(S)) {
      N["k"] = "int";
      N["v"] = (int64_t)CL->getValue();
      N["ch"] = true;
    } else if (auto *SL = dyn_cast<clang::StringLiteral>(S)) {
      N["k"] = "str";
      if (SL->getCharByteWidth() == 1) {
        N["v"] = latin1(SL->getBytes());
        N["n"] = (int64_t)SL->getLength();
      }
    } else if (auto *DR = dyn_cast<DeclRefExpr>(S)) {
      N["k"] = "ref";
      N["d"] = declId(DR->getDecl());
      if (auto *EC = dyn_cast<EnumConstantDecl>(DR->getDecl()))
        N["v"] = EC->getInitVal().getExtValue();
      if (auto *VD = dyn_cast<VarDecl>(DR->getDecl()))
        if (auto *CAT = Ctx.getAsConstantArrayType(VD->getType())) {
          N["arr"] = (int64_t)CAT->getSize().getZExtValue();
          N["esz"] = (int64_t)Ctx.getTypeSizeInChars(CAT->getElementType()).getQuantity();
        }
    } else if (auto *CE = dyn_cast<CastExpr>(S)) {
      N["k"] = "cast";
      N["op"] = CE->getCastKindName();
      A.push_back(ensure(CE->getSubExpr()));
    } else if (auto *UO = dyn_cast<UnaryOperator>(S)) {
      N["k"] = "un";
      std::string Op = UnaryOperator::getOpcodeStr(UO->getOpcode()).str();
      if (UO->isPostfix())
        Op = "post" + Op;
      else if (UO->isIncrementDecrementOp())
        Op = "pre" + Op;
      N["op"] = Op;
      A.push_back(ensure(UO->getSubExpr()));
    } else if (auto *BOp = dyn_cast<BinaryOperator>(S)) {
      if (BOp->isAssignmentOp()) {
        N["k"] = "asg";
      } else {
        N["k"] = "bin";
      }
      N["op"] = BOp->getOpcodeStr().str();
      if (BOp->isLogicalOp() || BOp->getOpcode() == BO_Comma) {
        // operands live in other blocks; never duplicate them here
        A.push_back(lookup(BOp->getLHS()));
        A.push_back(lookup(BOp->getRHS()));
      } else {
        A.push_back(ensure(BOp->getLHS()));
        A.push_back(ensure(BOp->getRHS()));
      }
    } else if (auto *AS = dyn_cast<ArraySubscriptExpr>(S)) {
      N["k"] = "idx";
      A.push_back(ensure(AS->getBase()));
      A.push_back(ensure(AS->getIdx()));
    } else if (auto *ME = dyn_cast<MemberExpr>(S)) {
      N["k"] = "mem";
      N["f"] = ME->getMemberDecl()->getNameAsString();
      N["arrow"] = ME->isArrow();
      if (auto *FDl = dyn_cast<FieldDecl>(ME->getMemberDecl())) {
        N["rec"] = FDl->getParent()->getNameAsString();
        if (auto *CAT = Ctx.getAsConstantArrayType(FDl->getType())) {
          N["arr"] = (int64_t)CAT->getSize().getZExtValue();
          N["esz"] = (int64_t)Ctx.getTypeSizeInChars(CAT->getElementType()).getQuantity();
        }
      }
      A.push_back(ensure(ME->getBase()));
    } else if (auto *Call = dyn_cast<CallExpr>(S)) {
      N["k"] = "call";
      if (const FunctionDecl *Callee = Call->getDirectCallee()) {
        N["f"] = "F:" + Callee->getNameAsString();
        if (Callee->isNoReturn() || Callee->hasAttr<NoReturnAttr>())
          N["nr"] = true;
      } else {
        N["f"] = nullptr;
        N["fe"] = ensure(Call->getCallee());
      }
      for (const Expr *Arg : Call->arguments())
        A.push_back(ensure(Arg));
    } else if (auto *CO = dyn_cast<AbstractConditionalOperator>(S)) {
      N["k"] = "cond";
      A.push_back(lookup(CO->getCond()));
      A.push_back(lookup(CO->getTrueExpr()));
      A.push_back(lookup(CO->getFalseExpr()));
    } else if (auto *UE = dyn_cast<UnaryExprOrTypeTraitExpr>(S)) {
      N["k"] = "sizeof";
      (void)UE;
    } else if (auto *ILE = dyn_cast<InitListExpr>(S)) {
      N["k"] = "init";
      for (const Expr *Sub : ILE->inits())
        A.push_back(ensure(Sub));
    } else if (auto *DS = dyn_cast<DeclStmt>(S)) {
      N["k"] = "decl";
      if (DS->isSingleDecl())
        if (auto *VD = dyn_cast<VarDecl>(DS->getSingleDecl())) {
          N["d"] = declId(VD);
          N["t"] = VD->getType().getAsString();
          if (VD->hasInit())
            A.push_back(ensure(VD->getInit()));
        }
    } else if (auto *RS = dyn_cast<ReturnStmt>(S)) {
      N["k"] = "ret";
      if (RS->getRetValue())
        A.push_back(ensure(RS->getRetValue()));
    } else if (isa<StmtExpr>(S)) {
      N["k"] = "stmtexpr";
    } else if (isa<ImplicitValueInitExpr>(S)) {
      N["k"] = "int";
      N["v"] = 0;
    } else {
      N["k"] = "other";
      N["cls"] = S->getStmtClassName();
      for (const Stmt *Ch : S->children())
        if (auto *CEx = dyn_cast_or_null<Expr>(Ch))
          A.push_back(lookup(CEx));
    }
    if (E && !isa<IntegerLiteral>(E) && !isa<CharacterLiteral>(E) && E->isPRValue() &&
        E->getType()->isIntegralOrEnumerationType()) {
      Expr::EvalResult R;
      if (E->EvaluateAsInt(R, Ctx, Expr::SE_NoSideEffects))
        N["cv"] = R.Val.getInt().getExtValue();
    }
    if (!A.empty())
      N["a"] = std::move(A);
    Cur->push_back(std::move(N));
  }

  // id of an operand that must already be placed by the CFG builder (-1 if folded)
  int lookup(const Expr *E) {
    if (!E)
      return -1;
    const Expr *X = E;
    while (true) {
      if (auto *P = dyn_cast<ParenExpr>(X))
        X = P->getSubExpr();
      else if (auto *C = dyn_cast<ConstantExpr>(X))
        X = C->getSubExpr();
      else if (auto *O = dyn_cast<OpaqueValueExpr>(X))
        X = O->getSourceExpr();
      else
        break;
    }
    auto It = Ids.find(X);
    return It == Ids.end() ? -1 : It->second;
  }
};

class Consumer : public ASTConsumer {
public:
  Consumer(CompilerInstance &CI, UnitFacts &U) : CI(CI), U(U) {}

  void HandleTranslationUnit(ASTContext &Ctx) override {
    SourceManager &SM = Ctx.getSourceManager();
    for (const Decl *D : Ctx.getTranslationUnitDecl()->decls()) {
      SourceLocation L = SM.getExpansionLoc(D->getLocation());
      bool Sys = L.isValid() && SM.isInSystemHeader(L);
      if (auto *FD = dyn_cast<FunctionDecl>(D)) {
        if (FD->isNoReturn() || FD->hasAttr<NoReturnAttr>()) {
          json::Object O;
          O["noreturn"] = true;
          U.Decls[FD->getNameAsString()] = std::move(O);
        }
        if (Sys && !FD->doesThisDeclarationHaveABody())
          continue;
        if (FD->doesThisDeclarationHaveABody()) {
          if (Sys && !FD->isReferenced() && !FD->isUsed())
            continue;
          FnEmitter FE(Ctx, FD);
          json::Object F = FE.run();
          if (Sys)
            F["sys"] = true;
          U.Functions.push_back(std::move(F));
        }
      } else if (auto *VD = dyn_cast<VarDecl>(D)) {
        if (Sys)
          continue;
        json::Object G;
        G["name"] = VD->getNameAsString();
        G["static"] = VD->getStorageClass() == SC_Static;
        G["extern_decl"] = VD->hasExternalStorage() && !VD->hasInit();
        G["t"] = VD->getType().getAsString();
        if (auto *CAT = Ctx.getAsConstantArrayType(VD->getType())) {
          G["arr"] = (int64_t)CAT->getSize().getZExtValue();
          G["esz"] = (int64_t)Ctx.getTypeSizeInChars(CAT->getElementType()).getQuantity();
        }
        if (VD->hasInit())
          G["init"] = FnEmitter::initValue(Ctx, VD->getInit());
        {
          // field order of the (element) record type, named or not: initialiser lists are positional
          QualType ET = VD->getType();
          while (const ArrayType *AT = Ctx.getAsArrayType(ET))
            ET = AT->getElementType();
          if (const RecordType *RT = ET->getAs<RecordType>()) {
            if (RT->getDecl()->isCompleteDefinition()) {
              json::Array Names;
              for (const FieldDecl *F : RT->getDecl()->fields())
                Names.push_back(F->getNameAsString());
              G["fields"] = std::move(Names);
            }
          }
        }
        PresumedLoc PL = SM.getPresumedLoc(L);
        if (PL.isValid()) {
          G["loc"] = json::Array{(int64_t)PL.getLine(), (int64_t)PL.getColumn()};
          if (SM.getFileID(L) != SM.getMainFileID())
            G["file"] = sys::path::filename(PL.getFilename()).str();
        }
        U.Globals.push_back(std::move(G));
      } else if (auto *RD = dyn_cast<RecordDecl>(D)) {
        if (Sys || !RD->isCompleteDefinition() || RD->getNameAsString().empty())
          continue;
        json::Array Fields;
        const ASTRecordLayout &RL = Ctx.getASTRecordLayout(RD);
        unsigned Idx = 0;
        for (const FieldDecl *F : RD->fields()) {
          json::Object FO;
          FO["name"] = F->getNameAsString();
          FO["t"] = F->getType().getAsString();
          FO["off"] = (int64_t)(RL.getFieldOffset(Idx++) / 8);
          if (auto *CAT = Ctx.getAsConstantArrayType(F->getType()))
            FO["arr"] = (int64_t)CAT->getSize().getZExtValue();
          Fields.push_back(std::move(FO));
        }
        json::Object RO;
        RO["size"] = (int64_t)RL.getSize().getQuantity();
        RO["fields"] = std::move(Fields);
        U.Records[RD->getNameAsString()] = std::move(RO);
      }
    }
  }

private:
  CompilerInstance &CI;
  UnitFacts &U;
};

class Action : public ASTFrontendAction {
public:
  std::unique_ptr<ASTConsumer> CreateASTConsumer(CompilerInstance &CI,
                                                 StringRef File) override {
    Unit = sys::path::filename(File).str();
    CI.getPreprocessor().addPPCallbacks(
        std::make_unique<MacroRecorder>(CI.getPreprocessor(), U));
    CI.getDiagnostics().setSuppressAllDiagnostics(false);
    return std::make_unique<Consumer>(CI, U);
  }

  void EndSourceFileAction() override {
    bool HadErrors = getCompilerInstance().getDiagnostics().hasErrorOccurred();
    json::Object Root;
    Root["unit"] = Unit;
    Root["errors"] = HadErrors;
    Root["macros"] = std::move(U.Macros);
    Root["globals"] = std::move(U.Globals);
    Root["records"] = std::move(U.Records);
    Root["decls"] = std::move(U.Decls);
    Root["functions"] = std::move(U.Functions);
    SmallString<256> Path(OutDir);
    sys::path::append(Path, Unit + ".json");
    std::error_code EC;
    raw_fd_ostream OS(Path, EC, sys::fs::OF_Text);
    if (EC) {
      errs() << "qfacts: cannot write " << Path << ": " << EC.message() << "\n";
      return;
    }
    OS << json::Value(std::move(Root)) << "\n";
  }

private:
  UnitFacts U;
  std::string Unit;
};

} // namespace

int main(int argc, const char **argv) {
  auto Exp = tooling::CommonOptionsParser::create(argc, argv, Cat);
  if (!Exp) {
    errs() << toString(Exp.takeError());
    return 2;
  }
  tooling::ClangTool Tool(Exp->getCompilations(), Exp->getSourcePathList());
  return Tool.run(tooling::newFrontendActionFactory<Action>().get());
}
