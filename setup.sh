#!/bin/sh
# Builds the fact extractor from source (offline; clang 14 / llvm-14 libraries on disk only).
set -e
cd "$(dirname "$0")"
mkdir -p bin evidence/replay
if [ ! -x bin/qfacts ] || [ src/qfacts.cc -nt bin/qfacts ]; then
  clang++ $(llvm-config-14 --cxxflags) -fno-rtti -O1 src/qfacts.cc -o bin/qfacts \
    /usr/lib/llvm-14/lib/libclang-cpp.so.14 /usr/lib/llvm-14/lib/libLLVM-14.so
fi
python3 -c 'import sys; sys.path.insert(0, "."); import qv.core, qv.esp, qv.lib, qv.report, qv.stage'
echo "setup ok"
