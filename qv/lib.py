"""qv.lib — repo vocabulary shared by the rule files: primitive aliases, result-set
summaries of libc/library primitives, common hook base class, structural helpers."""
from .core import AnalysisBroken
from .esp import Hooks, Outcome, TOP, fs, Engine, BOOL

# system/library calls that return -1 on failure and 0 on success
FAIL0 = {'fsync', 'link', 'unlink', 'chdir', 'fstat', 'stat', 'lstat', 'rename', 'close', 'ftruncate',
         'pipe', 'utime', 'utimes', 'chmod', 'fchmod', 'mkdir', 'rmdir', 'lock_ex', 'lock_exnb', 'lock_un',
         'fd_copy', 'fd_move', 'prot_gid', 'prot_uid', 'setgid', 'setuid', 'setgroups', 'fchdir', 'chroot',
         'substdio_flush', 'substdio_put', 'substdio_bput', 'substdio_puts', 'substdio_bputs',
         'substdio_putflush', 'substdio_putsflush', 'seek_set', 'seek_end', 'ndelay_on', 'ndelay_off',
         'sig_block', 'kill', 'slurpclose', 'wait_pid'}
# calls returning -1 or a fresh descriptor
OPENERS = {'open_excl', 'open_read', 'open_write', 'open_append', 'open_trunc', 'open', 'socket', 'dup'}
# calls returning 0 on failure (out of memory), 1 on success
ALLOC01 = {'stralloc_copys', 'stralloc_copyb', 'stralloc_copy', 'stralloc_cats', 'stralloc_catb',
           'stralloc_cat', 'stralloc_append', 'stralloc_ready', 'stralloc_readyplus', 'stralloc_0',
           'stralloc_catulong0', 'stralloc_catint0', 'stralloc_catlong0', 'stralloc_starts',
           'quote', 'quote2', 'prioq_insert', 'constmap_init', 'newfield_datemake', 'newfield_msgidmake',
           'token822_readyplus', 'token822_append', 'ipalloc_append', 'saa_readyplus', 'env_put', 'env_put2'}
PURE = {'str_len', 'strlen', 'str_chr', 'str_rchr', 'byte_chr', 'byte_rchr', 'fmt_ulong', 'fmt_uint', 'fmt_str',
        'fmt_strn', 'fmt_uint0', 'case_diffb', 'case_diffs', 'case_startb', 'case_starts', 'str_start',
        'memcmp', 'strcmp', 'strncmp', 'byte_diff', 'getpid', 'getuid', 'getgid', 'now', 'time', 'env_get',
        'error_str', 'error_temp', 'scan_ulong', 'scan_8long', 'scan_uint', 'ip_scan', 'ip_fmt',
        'constmap', 'cdb_hash', 'cdb_unpack', 'datetime_tai', 'datetime_untai', 'date822fmt', 'umask',
        'sig_pipeignore', 'sig_miscignore', 'sig_blocknone', 'sig_alarmcatch', 'sig_bugcatch',
        'sig_childcatch', 'sig_hangupcatch', 'sig_termcatch', 'sig_pipedefault', 'sig_alarmblock',
        'sig_alarmunblock', 'sig_childblock', 'sig_childunblock', 'sig_hangupblock', 'sig_hangupunblock',
        'sig_childdefault', 'sig_catch', 'inituid', 'initgid', 'alarm', 'wait_nohang'}


class QHooks(Hooks):
    """dispatches calls to prim_<name> methods, then to the generic result-set table"""
    inline_names = frozenset()
    tracked = frozenset()
    precise = frozenset()
    generic_results = True
    inline_unit = None     # inline every function defined in this unit (besides inline_names)
    no_inline = frozenset()

    entry_unit = None      # set by the engine: unit of the function being explored
    inline_same_unit = True  # helpers defined next to the explored function are part of it

    def inline(self, fn, depth):
        if fn.name in self.no_inline:
            return False
        if fn.name in self.inline_names:
            return True
        if self.inline_unit and fn.unit == self.inline_unit:
            return True
        if self.inline_same_unit and self.entry_unit and fn.unit == self.entry_unit and not fn.sys:
            return True     # helpers next to the entry function are part of it (a rule keeps one as an event with prim_<name>)
        return False

    def tracked_global(self, path):
        if path in self.tracked:
            return True
        for t in self.tracked:
            if path.startswith(t) and path[len(t):len(t) + 1] in '.-[':
                return True
        return path.startswith('$')

    def precise_arith(self, path):
        base = path.split('::')[-1].split('#')[0]
        return path in self.precise or base in self.precise

    def on_call(self, E, x, args):
        name = x.callee
        if name is None:
            return None
        m = getattr(self, 'prim_' + name, None)
        if m is not None:
            r = m(E, x, args)
            if r is not None:
                return r
        if not self.generic_results:
            return None
        callee = E.eng.prog.resolve(name, x.fn.unit)
        if callee is not None and callee.blocks and self.inline(callee, len(E.eng.stack)):
            return None
        if name in FAIL0:
            return [Outcome(ret=fs(0), havoc=self._arg_roots(E, x, args)),
                    Outcome(ret=fs(-1), havoc=self._arg_roots(E, x, args))]
        if name in OPENERS:
            return [Outcome(ret=fs(('fd', x.id))), Outcome(ret=fs(-1))]
        if name in ALLOC01:
            return [Outcome(ret=fs(1), havoc=self._arg_roots(E, x, args)),
                    Outcome(ret=fs(0), havoc=self._arg_roots(E, x, args))]
        if name in PURE:
            return [Outcome(ret=TOP)]
        return None

    def _arg_roots(self, E, x, args):
        from .esp import root_of
        roots = []
        for v in args:
            if v is not TOP:
                for e in v:
                    if isinstance(e, tuple) and e[0] == '&' and e[1]:
                        roots.append(root_of(e[1]))
        return tuple(roots)


def lit_arg(x, i):
    """string literal value of argument i of call x, or None"""
    if i >= len(x.args) or x.args[i] is None:
        return None
    return x.args[i].string


def transitive_callees(prog, fn, stop=()):
    """names of all functions reachable through direct calls from fn (resolved in prog)"""
    seen = set()
    names = set()
    work = [fn]
    while work:
        f = work.pop()
        if (f.unit, f.name) in seen:
            continue
        seen.add((f.unit, f.name))
        for c in f.calls():
            nm = c.callee
            if nm is None:
                names.add('<indirect>')
                continue
            names.add(nm)
            if nm in stop:
                continue
            g = prog.resolve(nm, f.unit)
            if g is not None and g.blocks:
                work.append(g)
    return names


def failure_edge_ok(db, fn, call, commit_pred=None):
    """R-CHECKED helper: the result of `call` is tested in its block's terminator (or the value
    is switched on) — returns (checked, detail)"""
    bid, idx = fn.pos[call.id]
    blk = fn.blocks[bid]
    cond = blk.cond
    if cond is None:
        return False, 'result not tested'
    if call.id in {y.id for y in cond.walk()}:
        return True, 'tested by %s' % cond.src()
    return False, 'result not tested by the branch that follows (%s)' % cond.src()


def macro_const(db, unit, name):
    u = db.unit(unit)
    v = u.macro_int(name)
    if v is None:
        raise AnalysisBroken('macro %s in %s is not an integer constant any more' % (name, unit))
    return v


def cond_matches(guards, pred):
    """guards: list of (cond X, truth). pred(cond, truth) -> bool. any match?"""
    for c, t in guards or []:
        try:
            if pred(c, t):
                return True
        except (AttributeError, IndexError, TypeError):
            continue
    return False


def is_cmp(c, op, lhs_pred, const):
    """c is `lhs op const` (or mirrored), lhs satisfying lhs_pred"""
    c = c.strip()
    if c.k != 'bin':
        return False
    mirror = {'<': '>', '>': '<', '<=': '>=', '>=': '<=', '==': '==', '!=': '!='}
    a, b = c.args
    if c.op == op and b is not None and b.const == const and lhs_pred(a):
        return True
    if mirror.get(c.op) == op and a is not None and a.const == const and lhs_pred(b):
        return True
    return False


def holds_set(cond, truth, var_pred):
    """The set-of-integers semantics of a guard on one variable: returns a predicate int->bool
    describing which values of the variable (matching var_pred) satisfy (cond == truth), or None
    if the cond is not a simple comparison of that variable with a constant."""
    c = cond.strip()
    neg = False
    while c.k == 'un' and c.op == '!':
        neg = not neg
        c = c.args[0].strip()
    want = truth != neg
    if c.k == 'bin' and c.op in ('<', '<=', '>', '>=', '==', '!='):
        a, b = c.args
        op = c.op
        if b is not None and b.const is not None and var_pred(a):
            k = b.const
        elif a is not None and a.const is not None and var_pred(b):
            k = a.const
            op = {'<': '>', '>': '<', '<=': '>=', '>=': '<=', '==': '==', '!=': '!='}[op]
        else:
            return None
        import operator
        f = {'<': operator.lt, '<=': operator.le, '>': operator.gt, '>=': operator.ge,
             '==': operator.eq, '!=': operator.ne}[op]
        return lambda v: f(v, k) == want
    if var_pred(c):
        return lambda v: bool(v) == want
    return None


# ------------------------------------------------------------------ semantic guard helpers
def _cmp_parts(c):
    """(var X, op, const) for `var op const` / `const op var`, through any number of '!' ; None otherwise.
    returns (varx, fn int->bool)"""
    import operator
    c = c.strip()
    neg = False
    while c is not None and c.k == 'un' and c.op == '!':
        neg = not neg
        c = c.args[0].strip()
    if c is None:
        return None
    ops = {'<': operator.lt, '<=': operator.le, '>': operator.gt, '>=': operator.ge, '==': operator.eq, '!=': operator.ne}
    if c.k == 'bin' and c.op in ops:
        a, b = c.args
        if b is not None and b.const is not None and a is not None and a.const is None:
            k, op, v = b.const, c.op, a
        elif a is not None and a.const is not None and b is not None and b.const is None:
            k, v = a.const, b
            op = {'<': '>', '>': '<', '<=': '>=', '>=': '<=', '==': '==', '!=': '!='}[c.op]
        else:
            return None
        f = ops[op]
        return v, (lambda x, f=f, k=k, neg=neg: f(x, k) != neg)
    if c.const is None and c.k in ('ref', 'cast', 'mem', 'idx', 'un', 'call'):
        return c, (lambda x, neg=neg: bool(x) != neg)
    return None


def fresh_guards(fn, x):
    return fn.guards(x) or []


def consistent_values(fn, x, universe, key=None):
    """for every expression that the (fresh) guards of x compare with constants: the subset of `universe`
    that passes all of those guards.  key(X) names the expression (default: normalised source)."""
    key = key or (lambda v: v.strip().src())
    out = {}
    for c, t in fresh_guards(fn, x):
        if t not in (True, False):
            continue
        p = _cmp_parts(c)
        if p is None:
            continue
        v, f = p
        k = key(v)
        cur = out.get(k, set(universe))
        out[k] = {u for u in cur if f(u) == t}
    return out


def unit_callees(prog, fn, depth=3):
    """fn plus the functions of the same unit it calls (transitively, bounded)"""
    seen = {fn.name: fn}
    work = [(fn, 0)]
    while work:
        f, d = work.pop()
        if d >= depth:
            continue
        for c in f.calls():
            nm = c.callee
            if nm and nm not in seen:
                g = prog.resolve(nm, f.unit)
                if g is not None and g.blocks and g.unit == fn.unit:
                    seen[nm] = g
                    work.append((g, d + 1))
    return list(seen.values())


def deep_calls(prog, fn, names, depth=3):
    """calls to `names` in fn or in same-unit helpers it calls: list of (function, call X)"""
    out = []
    for f in unit_callees(prog, fn, depth):
        for c in f.calls(names):
            out.append((f, c))
    return out


def branch_zero_test(cond, truth, var_pred):
    """For a branch on a single variable (matched by var_pred on the compared expression):
    returns 'zero' if taking this outcome implies var == 0, 'nonzero' if it implies var != 0, else None."""
    p = _cmp_parts(cond)
    if p is None or truth not in (True, False):
        return None
    v, f = p
    if not var_pred(v):
        return None
    z = f(0) == truth
    nz = [f(k) == truth for k in (1, 2, 5, 100, -1)]
    if z and not any(nz):
        return 'zero'
    if not z and all(nz[:4]):
        return 'nonzero'
    return None


def only_reached_through(prog, unit, target, allowed_roots):
    """every call path (inside `unit`) to `target` starts in one of allowed_roots"""
    callers = {}
    for fn in prog.functions():
        if fn.unit != unit:
            continue
        for c in fn.calls():
            if c.callee:
                callers.setdefault(c.callee, set()).add(fn.name)
    seen = set()

    def ok(f, stack=()):
        if f in allowed_roots:
            return True
        if f in stack:
            return True
        cs = callers.get(f, set())
        if not cs:
            return False
        return all(ok(g, stack + (f,)) for g in cs)
    return ok(target), sorted(callers.get(target, set()))


def lit_of(E, argx):
    """string an argument denotes: a literal in the source, or a value known to be one literal (e.g. a helper's parameter)"""
    if argx is None:
        return None
    s = argx.string
    if s is not None:
        return s
    v = E.val(argx)
    if v is not None and v is not TOP and len(v) == 1:
        (a,) = v
        if isinstance(a, tuple) and a[0] == 'str':
            return a[1]
    return None


def values_reaching(fn, var, start_block, target_block, universe, stop_blocks=()):
    """which values of the variable `var` (decl id) let control flow from the START of start_block to
    target_block, interpreting only branches that compare var with constants (if / && / || / switch)"""
    got = set()
    seen = set()
    work = [(start_block, frozenset(universe))]
    while work:
        bid, vals = work.pop()
        if not vals or (bid, vals) in seen:
            continue
        seen.add((bid, vals))
        if bid == target_block:
            got |= vals
            continue
        if bid in stop_blocks and bid != start_block:
            continue
        b = fn.blocks[bid]
        if b.term is None or 'cond' not in b.term or len(b.succs) < 2:
            for s in b.succs:
                if s is not None:
                    work.append((s, vals))
            continue
        cond = b.cond
        if b.term['k'] == 'switch':
            if cond.strip().var == var or (cond.var == var):
                covered = set()
                default = None
                for s in b.succs:
                    lab = fn.blocks[s].label if s is not None else None
                    if lab and lab.get('k') == 'case' and lab.get('lo') is not None:
                        sub = frozenset(v for v in vals if lab['lo'] <= v <= lab['hi'])
                        covered |= sub
                        work.append((s, sub))
                    else:
                        default = s
                if default is not None:
                    work.append((default, frozenset(vals - covered)))
            else:
                for s in b.succs:
                    if s is not None:
                        work.append((s, vals))
            continue
        p = _cmp_parts(cond)
        if p is not None and p[0].var == var:
            f = p[1]
            work.append((b.succs[0], frozenset(v for v in vals if f(v)))) if b.succs[0] is not None else None
            work.append((b.succs[1], frozenset(v for v in vals if not f(v)))) if b.succs[1] is not None else None
        else:
            for s in b.succs:
                if s is not None:
                    work.append((s, vals))
    return got


def guards_through(prog, root, f, x, fresh=True):
    """guards of element x of function f, plus — when f is a helper of `root` with call sites there — the guards
    common to all of its call sites in root (one level)"""
    g = list(f.guards(x, fresh=fresh) or [])
    if f is root:
        return g
    sites = root.calls(f.name)
    if not sites:
        return g
    common = None
    for sc in sites:
        gs = [(c.sx(), t, c) for c, t in root.guards(sc, fresh=fresh) or []]
        keys = {(k, t) for k, t, _ in gs}
        common = keys if common is None else (common & keys)
        last = gs
    for k, t, c in last:
        if (k, t) in (common or ()):
            g.append((c, t))
    return g


def loop_headers_containing(fn, bid):
    """headers of the natural loops that contain block bid"""
    out = set()
    # back edges by DFS
    color = {}
    back = []
    stack = [(fn.entry, iter([s for s in fn.blocks[fn.entry].succs if s is not None and s in fn.blocks]))]
    color[fn.entry] = 1
    while stack:
        b, it = stack[-1]
        nxt = next(it, None)
        if nxt is None:
            color[b] = 2
            stack.pop()
            continue
        if color.get(nxt) == 1:
            back.append((b, nxt))
        elif nxt not in color:
            color[nxt] = 1
            stack.append((nxt, iter([s for s in fn.blocks[nxt].succs if s is not None and s in fn.blocks])))
    for p_, h in back:
        body = {h, p_}
        work = [p_]
        while work:
            n = work.pop()
            if n == h:
                continue
            for q in fn.blocks[n].preds:
                if q not in body:
                    body.add(q)
                    work.append(q)
        if bid in body:
            out.add(h)
    return out


def hits_after(fn, start, is_target, is_barrier, barrier_blocks=()):
    """elements reachable from just after `start` (element-level), walking forward through the CFG, that satisfy
    is_target, on paths that do not pass an element satisfying is_barrier (or enter a block of barrier_blocks) first."""
    hits = []
    b0, i0 = fn.pos[start.id]
    seen = set()
    work = [(b0, i0 + 1)]
    while work:
        b, i = work.pop()
        blk = fn.blocks[b]
        stopped = False
        elems = blk.elems
        for k in range(i, len(elems)):
            x = fn.x(elems[k]['i'])
            if x is None:
                continue
            if is_barrier(x):
                stopped = True
                break
            if is_target(x):
                hits.append(x)
                stopped = True
                break
        if stopped:
            continue
        for s_ in blk.succs:
            if s_ is not None and s_ in fn.blocks and s_ not in seen and s_ not in barrier_blocks:
                seen.add(s_)
                work.append((s_, 0))
    return hits


def string_guard_allows(guards, var_pred, universe):
    """the strings u of `universe` for which every guard that tests the string variable (matched by var_pred on the
    expression) holds: understands strcmp/str_diff(var, "lit") [also swapped], *var, var[0], through ! and comparisons
    with constants.  Guards about anything else are ignored."""
    def value(v, u):
        v = v.strip()
        if v.k == 'call' and v.callee in ('strcmp', 'str_diff') and len(v.args) >= 2:
            a, b = v.args[0], v.args[1]
            if var_pred(a) and b.string is not None:
                return (u > b.string) - (u < b.string)
            if var_pred(b) and a.string is not None:
                return (a.string > u) - (a.string < u)
            return None
        if v.k == 'call' and v.callee in ('strncmp', 'str_diffn') and len(v.args) >= 3 and v.args[2].const is not None:
            a, b, n = v.args[0], v.args[1], v.args[2].const
            if var_pred(a) and b.string is not None:
                return (u[:n] > b.string[:n]) - (u[:n] < b.string[:n])
            return None
        if v.k == 'un' and v.op == '*' and var_pred(v.args[0]):
            return ord(u[0]) if u else 0
        if v.k == 'idx' and var_pred(v.args[0]) and v.args[1].const is not None:
            i = v.args[1].const
            return ord(u[i]) if i < len(u) else (0 if i == len(u) else None)
        return None
    out = []
    for u in universe:
        ok = True
        for c, t in guards:
            if t not in (True, False):
                continue
            p = _cmp_parts(c)
            if p is None:
                continue
            val = value(p[0], u)
            if val is None:
                continue
            if p[1](val) != t:
                ok = False
                break
        if ok:
            out.append(u)
    return out
