"""qv.stream — comparing two symbol streams that are produced incrementally along an
abstract path (implementation outputs vs. reference outputs), with bounded lag, plus
the reference automata used by the codec rules (C05, C06, C19).

State kept in the ESP store (all finite):  '$ahead' = ('ref'|'impl', tuple of symbols).
"""
from .esp import fs, TOP

CR, LF, DOT, OTHER = 'CR', 'LF', 'DOT', 'x'
BYTE = frozenset(range(256))
CLASSES = ((CR, fs(13)), (LF, fs(10)), (DOT, fs(46)), (OTHER, BYTE - {13, 10, 46}))
MAXLAG = 12


def classify(vals):
    """class of a byte value set that lies within one class, else None"""
    if vals is TOP or not vals:
        return None
    for name, s in CLASSES:
        if vals <= s:
            return name
    return None


def sym_of_bytes(s):
    out = []
    for ch in s:
        o = ord(ch)
        out.append(CR if o == 13 else LF if o == 10 else DOT if o == 46 else OTHER)
    return out


class Cmp:
    """two-sided queue comparison; match(a, b) decides whether an impl symbol a may stand for a
    reference symbol b (lets a reference symbol be a set = don't care)"""

    def __init__(self, key='$ahead'):
        self.key = key

    def get(self, E):
        v = E.get(self.key)
        return next(iter(v)) if v else ('ref', ())

    def put(self, E, side, q):
        E.set(self.key, fs((side, tuple(q))))

    @staticmethod
    def match(impl_sym, ref_sym):
        if isinstance(ref_sym, frozenset):
            return impl_sym in ref_sym
        return impl_sym == ref_sym

    def emit(self, E, who, syms):
        """who in ('ref','impl'); returns None if fine, or a mismatch description.
        A reference symbol ('opt', s) may be matched by s or skipped (don't-care output)."""
        side, q = self.get(E)
        q = list(q)
        for s in syms:
            done = False
            while q and side != who and not done:
                head = q[0]
                if who == 'impl':
                    # q holds reference symbols
                    if isinstance(head, tuple) and head[0] == 'opt':
                        q.pop(0)
                        if s == head[1]:
                            done = True
                        continue
                    q.pop(0)
                    if not self.match(s, head):
                        self.put(E, side, q)
                        return 'implementation produced %s where the reference produces %s' % (s, sorted(head) if isinstance(head, frozenset) else head)
                    done = True
                else:
                    # q holds implementation symbols, s is a reference symbol
                    if isinstance(s, tuple) and s[0] == 'opt':
                        if head == s[1]:
                            q.pop(0)
                        done = True
                        continue
                    q.pop(0)
                    if not self.match(head, s):
                        self.put(E, side, q)
                        return 'implementation produced %s where the reference produces %s' % (head, sorted(s) if isinstance(s, frozenset) else s)
                    done = True
            if done:
                continue
            side = who
            q.append(s)
            if len(q) > MAXLAG:
                self.put(E, side, q[:MAXLAG])
                return 'lag between implementation and reference exceeds %d symbols (%s ahead: %s)' % (MAXLAG, side, q[:6])
        self.put(E, side if q else 'ref', q)
        return None

    def empty(self, E):
        side, q = self.get(E)
        if side == 'ref':
            q = [s for s in q if not (isinstance(s, tuple) and s[0] == 'opt')]
        return not q

    def describe(self, E):
        side, q = self.get(E)
        return '%s ahead by %s' % (side, list(q)) if q else 'in step'


# ---------------------------------------------------------------- RFC 5321 receiver (data phase)
# states: BOL, BOLDOT, BOLDOTCR, MID, MIDCR, END ; input symbols CR LF DOT x
# returns (state', decoded symbols, error or None).  decoded alphabet: x, DOT, CR (data), NL
def rfc_receiver(state, sym):
    if state == 'END':
        return 'END', [], 'bytes after end-of-data'
    if state == 'BOL':
        if sym == DOT:
            return 'BOLDOT', [], None
        if sym == CR:
            return 'MIDCR', [], None
        if sym == LF:
            return 'BOL', [], 'bare LF on the wire'
        return 'MID', [OTHER], None
    if state == 'BOLDOT':
        if sym == CR:
            return 'BOLDOTCR', [], None
        if sym == LF:
            return 'BOL', [], 'bare LF on the wire'
        # the leading dot is removed by the receiver
        return 'MID', [DOT if sym == DOT else OTHER], None
    if state == 'BOLDOTCR':
        if sym == LF:
            return 'END', [], None
        return 'MID', [], 'un-stuffed dot at the start of a wire line (receiver would strip it): ". CR %s"' % sym
    if state == 'MID':
        if sym == CR:
            return 'MIDCR', [], None
        if sym == LF:
            return 'MID', [], 'bare LF on the wire'
        return 'MID', [DOT if sym == DOT else OTHER], None
    if state == 'MIDCR':
        if sym == LF:
            return 'BOL', ['NL'], None
        if sym == CR:
            return 'MIDCR', [CR], None
        return 'MID', [CR, DOT if sym == DOT else OTHER], None
    raise ValueError(state)


# ---------------------------------------------------------------- inbound DATA decoder (C05)
# Reference written from RFC 5321 section 4.5.2 as qualified by property C05.  Returns
# (state', outputs, verdict) with verdict in (None, 'REJECT', 'END').  Output alphabet x DOT CR NL.
# Don't-care: a line ". CR <non-LF>" (no conforming sender produces it): the dot may be kept.
def smtp_decoder(state, sym):
    if state == 'BOL':
        if sym == DOT: return 'BOLDOT', [], None
        if sym == CR: return 'MIDCR', [], None
        if sym == LF: return 'BOL', [], 'REJECT'
        return 'MID', [OTHER], None
    if state == 'BOLDOT':
        if sym == CR: return 'BOLDOTCR', [], None
        if sym == LF: return 'BOL', [], 'REJECT'
        return 'MID', [sym], None
    if state == 'BOLDOTCR':
        if sym == LF: return 'END', [], 'END'
        if sym == CR: return 'MIDCR', [('opt', DOT), CR], None
        return 'MID', [('opt', DOT), CR, sym], None
    if state == 'MID':
        if sym == CR: return 'MIDCR', [], None
        if sym == LF: return 'MID', [], 'REJECT'
        return 'MID', [sym], None
    if state == 'MIDCR':
        if sym == LF: return 'BOL', ['NL'], None
        if sym == CR: return 'MIDCR', [CR], None
        return 'MID', [CR, sym], None
    raise ValueError(state)
