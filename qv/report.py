"""qv.report — obligations, violations, evidence files, known findings."""
import json, os, time

from .core import AnalysisBroken

VERIF = os.path.dirname(os.path.dirname(os.path.abspath(__file__)))


class Rule:
    def __init__(self, report, name, form, desc):
        self.report = report
        self.name = name
        self.form = form
        self.desc = desc
        self.instances = []   # (instance, ok, where, detail)
        self.extra = {}

    def _find(self, instance):
        for k, i in enumerate(self.instances):
            if i[0] == instance:
                return k
        return None

    def ok(self, instance, where='', detail=''):
        if self._find(instance) is None:
            self.instances.append((instance, True, where, detail))

    def bad(self, instance, where, detail, path=None):
        k = self._find(instance)
        if k is not None:
            if not self.instances[k][1]:
                return          # already reported
            self.instances[k] = (instance, False, where, detail)
        else:
            self.instances.append((instance, False, where, detail))
        self.report.violations.append({'rule': self.name, 'form': self.form, 'instance': instance,
                                       'where': where, 'detail': detail, 'path': path or [],
                                       'key': '%s:%s' % (self.name, instance)})

    def check(self, cond, instance, where='', detail='', path=None):
        if cond:
            self.ok(instance, where, detail)
        else:
            self.bad(instance, where, detail, path)
        return cond

    def expect_min(self, n):
        """vacuity guard: fewer matched instances than confirmed by hand = analysis broken"""
        if any(not i[1] for r in self.report.rules for i in r.instances):
            return      # a reported violation (in this rule or in one sharing its exploration) cut the exploration short; the count is not meaningful
        if len(self.instances) < n:
            raise AnalysisBroken('rule %s matched %d instances, confirmed minimum is %d' %
                                 (self.name, len(self.instances), n))

    def note(self, **kw):
        self.extra.update(kw)


class Report:
    def __init__(self, pid, tier, seed=0):
        self.pid = pid
        self.tier = tier
        self.seed = seed
        self.rules = []
        self.violations = []
        self.assumptions = []
        self.samples = []
        self.notes = {}
        self.t0 = time.time()
        self.states = 0
        self.transitions = 0
        self.exhaustive_rules = []

    def rule(self, name, form, desc):
        r = Rule(self, name, form, desc)
        self.rules.append(r)
        return r

    def assume(self, *texts):
        for t in texts:
            if t not in self.assumptions:
                self.assumptions.append(t)

    def sample(self, s):
        if len(self.samples) < 40:
            self.samples.append(s)

    def count_states(self, states, transitions):
        self.states += states
        self.transitions += transitions

    # ---- output
    def finish(self, stage_info, known, broken=None):
        """prints the report; writes evidence; returns exit code"""
        ev_dir = os.environ.get('QV_EVIDENCE_DIR') or os.path.join(VERIF, 'evidence')     # tools/matrix.py points test runs elsewhere
        os.makedirs(os.path.join(ev_dir, 'replay'), exist_ok=True)
        n_inst = sum(len(r.instances) for r in self.rules)
        n_ok = sum(1 for r in self.rules for i in r.instances if i[1])
        known_keys = {k['key']: k for k in known if k.get('property') == self.pid}
        new, old = [], []
        for v in self.violations:
            (old if v['key'] in known_keys else new).append(v)
        print('== %s  tier=%s  rules=%d  obligations=%d  discharged=%d  violations=%d (known %d)' %
              (self.pid, self.tier, len(self.rules), n_inst, n_ok, len(self.violations), len(old)))
        for r in self.rules:
            nb = sum(1 for i in r.instances if not i[1])
            print('  [%s] %-34s %-12s %3d instance(s)%s  — %s' %
                  ('ok' if nb == 0 else 'FAIL', r.name, r.form, len(r.instances),
                   '' if nb == 0 else ' %d VIOLATED' % nb, r.desc))
        for v in old:
            print('KNOWN-FINDING: property=%s %s' % (self.pid, known_keys[v['key']].get('what', v['key'])))
        for idx, v in enumerate(new):
            # clear stale replay files of this property first time through
            path = os.path.join(ev_dir, 'replay', '%s-%d.json' % (self.pid, idx))
            with open(path + '.tmp%d' % os.getpid(), 'w') as fh:
                json.dump({'property': self.pid, **v}, fh, indent=1)
            os.replace(path + '.tmp%d' % os.getpid(), path)
            print('  rule %s [%s] instance %s at %s: %s' % (v['rule'], v['form'], v['instance'], v['where'], v['detail']))
            for step in v['path'][:60]:
                print('      ' + step)
            print('VIOLATION property=%s replay=%s' % (self.pid, path))
        if broken:
            print('ANALYSIS-BROKEN: %s' % broken)
        rules_ev = []
        for r in self.rules:
            e = {'rule': r.name, 'form': r.form, 'what': r.desc, 'instances': len(r.instances),
                 'discharged': sum(1 for i in r.instances if i[1]),
                 'sites': ['%s%s' % (i[0], (' @' + i[2]) if i[2] else '') for i in r.instances[:25]]}
            e.update(r.extra)
            rules_ev.append(e)
        distinct = len({(r.name, i[0]) for r in self.rules for i in r.instances})
        cov = {
            'explanation': 'static analysis of /repo\'s current source: every listed rule instance '
                           '(obligation) was decided over all CFG paths / all values of a finite input '
                           'partition / all call sites of the linked program, from clang CFG facts '
                           'extracted on this run; no notqmail code was executed',
            'obligations': n_inst,
            'discharged': n_ok,
            'evaluations': max(n_inst, 1),
            'distinct_nontrivial': distinct,
            'rule': 'one evaluation = one rule instance (call site, path family, table cell or '
                    'transducer edge) decided from the extracted facts; distinct = different '
                    '(rule, instance) pairs; non-trivial = the instance matched a construct in the '
                    'current source (rules that match nothing make the check exit 2)',
            'samples': self.samples[:40] or [{'rule': r.name, 'instance': i[0], 'where': i[2]}
                                             for r in self.rules for i in r.instances[:2]][:40],
            'rules': rules_ev,
            'units_parsed': len(stage_info.get('units', [])),
            'functions_analysed': stage_info.get('functions', 0),
            'abstract_states': self.states,
            'abstract_transitions': self.transitions,
            'exhaustive': False,
            'exhaustive_rules': self.exhaustive_rules,
            'trusted_base': ['clang 14 parser and CFG builder', 'Makefile compile/link lines define the programs',
                             'libc/system-call summaries listed under assumptions'],
            'checker_cmd': './check %s --tier %s' % (self.pid, self.tier),
            'stage': {k: v for k, v in stage_info.items() if k != 'units'},
        }
        cov.update(self.notes)
        ev = {'property_id': self.pid, 'tier': self.tier, 'seed': self.seed, 'level': 'other',
              'coverage': cov, 'assumptions': self.assumptions,
              'wall_s': round(time.time() - self.t0, 2), 'violations': len(new)}
        if broken:
            ev['coverage']['analysis_broken'] = broken
        path = os.path.join(ev_dir, '%s.json' % self.pid)
        with open(path + '.tmp%d' % os.getpid(), 'w') as fh:
            json.dump(ev, fh, indent=1)
        os.replace(path + '.tmp%d' % os.getpid(), path)
        if broken:
            # a violation already decided stands (it was found on code that was analysed); only a run without one is "analysis broken"
            return 1 if new else 2
        return 1 if new else 0


def load_known():
    p = os.path.join(VERIF, 'known_findings.json')
    try:
        with open(p) as fh:
            d = json.load(fh)
    except OSError:
        return []
    return d.get('known', [])
