"""qv.controls — thorough tier: the checker is tested against itself on every run.

Seeded-breakage controls: every confirmed seeded change of the property (/verif/seeded/<id>-k/patch.diff)
is applied to a scratch copy of /repo's CURRENT working tree, facts are re-extracted and the
property's rules are re-run; the run must report a violation.  Neutral controls: every
behaviour-preserving edit under /verif/neutral/<id>-k/ is applied the same way and must NOT
produce a violation.  A control whose patch no longer applies is reported as skipped; a control
that applies and gives the wrong answer makes the check exit 2 (analysis broken), because then
nothing this check says can be trusted.
"""
import os, shutil, subprocess, tempfile

from .core import DB, AnalysisBroken
from .report import Report

VERIF = os.path.dirname(os.path.dirname(os.path.abspath(__file__)))


def _apply(scratch, patch):
    r = subprocess.run(['patch', '-p1', '-s', '--no-backup-if-mismatch', '-i', patch], cwd=scratch, capture_output=True, text=True)
    return r.returncode == 0


def _run_on(pid, mod, scratch, qstage):
    factdir, makefile, info = qstage.stage(scratch)
    db = DB(factdir, makefile)
    rep = Report(pid, 'quick')

    class C:
        pass
    ctx = C()
    ctx.db, ctx.report, ctx.tier, ctx.info, ctx.thorough = db, rep, 'quick', info, False
    try:
        mod.run(ctx)
    except AnalysisBroken as e:
        return 'broken', str(e), []
    return ('violation' if rep.violations else 'clean'), '', sorted({v['key'] for v in rep.violations})


def run_controls(pid, mod, rep, qstage):
    res = {'seeded': [], 'neutral': []}
    wrong = []
    for kind, base, want in (('seeded', 'seeded', 'violation'), ('neutral', 'neutral', 'clean')):
        root = os.path.join(VERIF, base)
        if not os.path.isdir(root):
            continue
        for name in sorted(os.listdir(root)):
            if not name.startswith(pid + '-'):
                continue
            patch = os.path.join(root, name, 'patch.diff')
            if not os.path.exists(patch):
                continue
            scratch = tempfile.mkdtemp(prefix='qvctl.', dir=os.environ.get('TMPDIR', '/var/tmp'))
            try:
                files = qstage.list_sources(qstage.REPO)
                qstage.copy_tree(qstage.REPO, files, scratch)
                if not _apply(scratch, patch):
                    res[kind].append({'control': name, 'result': 'skipped (patch no longer applies to the current tree)'})
                    continue
                try:
                    got, why, keys = _run_on(pid, mod, scratch, qstage)
                except qstage.BuildBroken as e:
                    res[kind].append({'control': name, 'result': 'skipped (does not build: %s)' % str(e)[:80]})
                    continue
                ok = got == want or (kind == 'seeded' and got == 'violation')
                res[kind].append({'control': name, 'result': got, 'as_expected': ok, 'fired': keys[:4]})
                if not ok:
                    wrong.append('%s control %s: expected %s, got %s %s' % (kind, name, want, got, why[:100]))
            finally:
                shutil.rmtree(scratch, ignore_errors=True)
    rep.notes['controls'] = res
    n_s = sum(1 for c in res['seeded'] if c.get('as_expected'))
    n_n = sum(1 for c in res['neutral'] if c.get('as_expected'))
    print('  controls: %d/%d seeded changes detected, %d/%d neutral edits silent, %d skipped' %
          (n_s, len(res['seeded']), n_n, len(res['neutral']),
           sum(1 for k in res for c in res[k] if 'as_expected' not in c)))
    if wrong:
        raise AnalysisBroken('self-test failed: ' + '; '.join(wrong))
