"""qv.controls — thorough tier: the checker is tested against itself on every run.

Seeded-breakage controls: every confirmed seeded change of the property (/verif/seeded/<id>-k/patch.diff)
is applied to a scratch copy of /repo's CURRENT working tree, facts are re-extracted and the
property's rules are re-run; the run must report a violation.  Neutral controls: every
behaviour-preserving edit under /verif/neutral/<id>-k/ is applied the same way and must NOT
produce a violation.  A control whose patch no longer applies is reported as skipped; a control
that applies and gives the wrong answer makes the check exit 2 (analysis broken), because then
nothing this check says can be trusted.
"""
import os, shutil, subprocess, tempfile

from .core import DB, AnalysisBroken
from .report import Report

VERIF = os.path.dirname(os.path.dirname(os.path.abspath(__file__)))


def _apply(scratch, patch):
    r = subprocess.run(['patch', '-p1', '-s', '--no-backup-if-mismatch', '-i', patch], cwd=scratch, capture_output=True, text=True)
    return r.returncode == 0


def _run_on(pid, scratch):
    """the property's quick check, as a separate process, on the scratch tree (no shared cache, evidence to a scratch dir)"""
    import re, sys
    evd = scratch + '.ev'
    env = dict(os.environ, QV_NOCACHE='1', QV_EVIDENCE_DIR=evd, VERIF_TIER='quick')
    try:
        r = subprocess.run([sys.executable, os.path.join(VERIF, 'check'), pid, '--repo', scratch, '--tier', 'quick'], capture_output=True, text=True, env=env)
    finally:
        shutil.rmtree(evd, ignore_errors=True)
    keys = sorted({'%s/%s' % m for m in re.findall(r'^  rule (\S+) \[\S+\] instance (\S+)', r.stdout, re.M)})
    if r.returncode == 0:
        return 'clean', '', []
    if r.returncode == 1:
        return 'violation', '', keys
    why = ' '.join(re.findall(r'^ANALYSIS-BROKEN: (.*)', r.stdout, re.M))
    if 'does not build' in why:
        raise BuildFailed(why)
    return 'broken', why, keys


class BuildFailed(Exception):
    pass


def _one(pid, kind, want, name, patch, qstage):
    scratch = tempfile.mkdtemp(prefix='qvctl.', dir=os.environ.get('TMPDIR', '/var/tmp'))
    try:
        files = qstage.list_sources(qstage.REPO)
        qstage.copy_tree(qstage.REPO, files, scratch)
        if not _apply(scratch, patch):
            return kind, {'control': name, 'result': 'skipped (patch no longer applies to the current tree)'}, None
        try:
            got, why, keys = _run_on(pid, scratch)
        except BuildFailed as e:
            return kind, {'control': name, 'result': 'skipped (does not build: %s)' % str(e)[:80]}, None
        ok = got == want
        return kind, {'control': name, 'result': got, 'as_expected': ok, 'fired': keys[:4]}, (None if ok else '%s control %s: expected %s, got %s %s' % (kind, name, want, got, why[:100]))
    finally:
        shutil.rmtree(scratch, ignore_errors=True)


def run_controls(pid, mod, rep, qstage):
    from concurrent.futures import ThreadPoolExecutor
    res = {'seeded': [], 'neutral': []}
    wrong = []
    jobs = []
    for kind, base, want in (('seeded', 'seeded', 'violation'), ('neutral', 'neutral', 'clean')):
        root = os.path.join(VERIF, base)
        if not os.path.isdir(root):
            continue
        for name in sorted(os.listdir(root)):
            if not name.startswith(pid + '-'):
                continue
            patch = os.path.join(root, name, 'patch.diff')
            if os.path.exists(patch):
                jobs.append((kind, want, name, patch))
    with ThreadPoolExecutor(int(os.environ.get('QV_CONTROL_JOBS', '8'))) as ex:
        for kind, row, bad in ex.map(lambda j: _one(pid, j[0], j[1], j[2], j[3], qstage), jobs):
            res[kind].append(row)
            if bad:
                wrong.append(bad)
    rep.notes['controls'] = res
    n_s = sum(1 for c in res['seeded'] if c.get('as_expected'))
    n_n = sum(1 for c in res['neutral'] if c.get('as_expected'))
    print('  controls: %d/%d seeded changes detected, %d/%d neutral edits silent, %d skipped' %
          (n_s, len(res['seeded']), n_n, len(res['neutral']),
           sum(1 for k in res for c in res[k] if 'as_expected' not in c)))
    if wrong:
        raise AnalysisBroken('self-test failed: ' + '; '.join(wrong))
