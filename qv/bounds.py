"""qv.bounds — reserve-contract checking with linear symbolic values.

After a successful X_readyplus(obj,k) the object's capacity is at least len+k (after X_ready(obj,k)
at least k).  Every write into obj's buffer whose offset and extent are linear expressions over
the symbols of the function (entry length, parameters, overflow-checked sums) is compared with
that lower bound:  proven (capacity - end is a non-negative constant, possibly after subtracting
path facts), refuted (it is a negative constant: with the smallest capacity the contract allows
the write is out of bounds), or undecided.
"""
from .esp import Engine, Outcome, TOP, fs, is_lin, lin_sym, lin_add, lin_of
from .lib import QHooks
from .core import AnalysisBroken

WRITERS = {'byte_copy': (0, 1), 'byte_copyr': (0, 1), 'byte_zero': (0, 1), 'read': (1, 2), 'substdio_get': (1, 2),
           'substdio_bget': (1, 2), 'memcpy': (0, 2), 'memset': (0, 2), 'cdb_bread': (1, 2), 'timeoutread': (2, 3)}


def one(v):
    return next(iter(v)) if v is not TOP and v is not None and len(v) == 1 else None


class ReserveHooks(QHooks):
    generic_results = False

    def __init__(self, objs):
        """objs: dict canonical object path -> (buffer field, length field)"""
        self.objs = objs
        self.sites = {}       # key -> (status, where, detail, trace)
        self.reserves = 0

    def tracked_global(self, path):
        return path.startswith('$') or any(path == o or path.startswith(o + '.') for o in self.objs)

    def precise_arith(self, path):
        return True

    def materialize(self, E, path):
        for o, (bf, lf) in self.objs.items():
            if path == '%s.%s' % (o, lf):
                return fs(lin_sym('len0(%s)' % o.split('::')[-1]))
            if path == '%s.%s' % (o, bf):
                return fs(('buf', o))
        base = path.split('::')[-1]
        if base.startswith('P:') and '.' not in base and '[' not in base and '->' not in base:
            return fs(lin_sym(base[2:]))
        return TOP

    def record(self, key, status, x, detail, E):
        rank = {'proven': 0, 'undecided': 1, 'refuted': 2}
        prev = self.sites.get(key)
        if prev is None or rank[status] > rank[prev[0]]:
            self.sites[key] = (status, x.where, detail, E.trace.list() if status != 'proven' else [])

    def obj_of(self, E, argx):
        v = one(E.val(argx))
        if isinstance(v, tuple) and v[0] == '&' and v[1] in self.objs:
            return v[1]
        return None

    # ---- reserve
    def _reserve(self, E, x, args, plus):
        o = self.obj_of(E, x.args[0])
        if o is None:
            return [Outcome(ret=fs(1)), Outcome(ret=fs(0))]
        self.reserves += 1
        k = one(args[1])
        lf = self.objs[o][1]
        cur = one(E.get('%s.%s' % (o, lf)))
        if cur is None:
            cur = lin_sym('len0(%s)' % o.split('::')[-1])
            E.set('%s.%s' % (o, lf), fs(cur))
        cap = lin_add(cur, k) if plus else lin_of(k)
        st = {'$cap:' + o: fs(cap) if cap is not None else TOP}
        return [Outcome(ret=fs(1), sets=st, log='%s ok: capacity >= %s' % (x.callee, show(cap))), Outcome(ret=fs(0), log='%s fails' % x.callee)]

    def on_call(self, E, x, args):
        name = x.callee or ''
        if name.endswith('_readyplus') or name.endswith('readyplus_internal') and False:
            return self._reserve(E, x, args, True)
        if name.endswith('_ready'):
            return self._reserve(E, x, args, False)
        if name in ('__builtin_add_overflow', '__builtin_mul_overflow', '__builtin_sub_overflow'):
            a, b = one(args[0]), one(args[1])
            outp = one(args[2])
            res = None
            if a is not None and b is not None:
                from .esp import lin_mul
                if 'add' in name:
                    res = lin_add(a, b)
                elif 'sub' in name:
                    res = lin_add(a, b, -1)
                else:
                    res = lin_mul(a, b) if isinstance(b, int) else (lin_mul(b, a) if isinstance(a, int) else None)
            st = {}
            if isinstance(outp, tuple) and outp[0] == '&' and res is not None:
                st[outp[1]] = fs(res)
            return [Outcome(ret=fs(0), sets=st, log='no overflow'), Outcome(ret=fs(1), log='overflow')]
        if name in WRITERS:
            di, ni = WRITERS[name]
            if di < len(x.args) and ni < len(x.args):
                self.check_extent(E, x, x.args[di], one(args[ni]), name)
            return [Outcome(ret=TOP)]
        r = super().on_call(E, x, args)
        if r is not None:
            return r
        return None

    # ---- writes
    def buf_offset(self, E, ex):
        """(object, offset lin) if ex denotes obj.buf (+ offset)"""
        v = one(E.val(ex))
        if isinstance(v, tuple) and v[0] == 'buf':
            return v[1], 0
        s = ex.strip()
        if s is not None and s.k == 'bin' and s.op in ('+', '-'):
            a, b = s.args
            va = one(E.val(a))
            if isinstance(va, tuple) and va[0] == 'buf':
                off = one(E.val(b))
                if off is None:
                    return va[1], None
                return va[1], (off if s.op == '+' else lin_add(0, off, -1))
            inner = self.buf_offset(E, a)
            if inner is not None and inner[1] is not None:
                off = one(E.val(b))
                if off is None:
                    return inner[0], None
                return inner[0], lin_add(inner[1], off, 1 if s.op == '+' else -1)
        return None

    def check_extent(self, E, x, dstx, n, what):
        bo = self.buf_offset(E, dstx)
        if bo is None:
            return
        o, off = bo
        if off is None or n is None or lin_of(n) is None:
            self.record('%s:%s' % (x.fn.name, what), 'undecided', x, 'offset or length of the write is not a linear expression', E)
            return
        self.judge(E, x, o, lin_add(off, n), '%s:%s' % (x.fn.name, what), '%s of %s bytes at offset %s' % (what, show(n), show(off)))

    def on_assign(self, E, x, path, val):
        # widening: a counter that keeps growing becomes unknown (loops)
        v = one(val)
        if ((is_lin(v) and abs(v[2]) > 3) or (isinstance(v, int) and abs(v) > 8)) and path in E.store:
            # widen to a fresh symbol (at most twice per path, then to an opaque unknown)
            n = one(E.get('$w:' + path)) or 0
            E.set('$w:' + path, fs(n + 1))
            E.set(path, fs(lin_sym('w%d(%s)' % (n, path.split('::')[-1]))) if n < 2 else fs(('unknown', path)))
        if x.k != 'asg':
            return
        l = x.args[0].strip()
        if l.k == 'idx':
            bv = one(E.val(l.args[0]))
            if isinstance(bv, tuple) and bv[0] == 'buf':
                idx = one(E.val(l.args[1]))
                if idx is None or lin_of(idx) is None:
                    return
                self.judge(E, x, bv[1], lin_add(idx, 1), '%s:store-%s' % (x.fn.name, x.args[0].src().replace(' ', '')), 'store at index %s' % show(idx))
        if l.k == 'un' and l.op == '*':
            bo = self.buf_offset(E, l.args[0])
            if bo is not None and bo[1] is not None:
                self.judge(E, x, bo[0], lin_add(bo[1], 1), '%s:store-%s' % (x.fn.name, x.args[0].src().replace(' ', '')), 'store at offset %s' % show(bo[1]))

    def on_branch(self, E, cond, truth):
        c = cond.strip()
        if c.k != 'bin' or c.op not in ('<', '<=', '>', '>=') or truth not in (True, False):
            return
        a, b = one(E.val(c.args[0])), one(E.val(c.args[1]))
        if lin_of(a) is None or lin_of(b) is None:
            return
        op = c.op
        if not truth:
            op = {'<': '>=', '<=': '>', '>': '<=', '>=': '<'}[op]
        # fact: expr >= 0
        if op == '<':
            f = lin_add(lin_add(b, a, -1), -1)
        elif op == '<=':
            f = lin_add(b, a, -1)
        elif op == '>':
            f = lin_add(lin_add(a, b, -1), -1)
        else:
            f = lin_add(a, b, -1)
        facts = tuple(one(E.get('$facts')) or ())
        if f not in facts and len(facts) < 6:
            E.set('$facts', fs(facts + (f,)))

    def judge(self, E, x, o, end, key, what):
        cap = one(E.get('$cap:' + o))
        if cap is None:
            self.record(key, 'undecided', x, '%s: no reserve call on this path' % what, E)
            return
        slack = lin_add(cap, end, -1)
        status = self.prove(slack, tuple(one(E.get('$facts')) or ()))
        self.record(key, status, x, '%s; guaranteed capacity %s; slack %s' % (what, show(cap), show(slack)), E)

    @staticmethod
    def prove(slack, facts):
        if isinstance(slack, int):
            return 'proven' if slack >= 0 else 'refuted'
        # subtract up to two facts
        for f in facts:
            s1 = lin_add(slack, f, -1)
            if isinstance(s1, int) and s1 >= 0:
                return 'proven'
            for g in facts:
                s2 = lin_add(s1, g, -1)
                if isinstance(s2, int) and s2 >= 0:
                    return 'proven'
        return 'undecided'


def show(v):
    if v is None:
        return '?'
    if isinstance(v, int):
        return str(v)
    if is_lin(v):
        parts = []
        for s, c in v[1]:
            parts.append(('%s' % s) if c == 1 else ('-%s' % s if c == -1 else '%d*%s' % (c, s)))
        if v[2] or not parts:
            parts.append(str(v[2]))
        return ' + '.join(parts).replace('+ -', '- ')
    return str(v)


def check_function(db, prog, fn, objs, bind_param=None, max_states=100000):
    """objs: {canonical path: (buffer field, length field)}; bind_param: (param id, object path)"""
    H = ReserveHooks(objs)
    eng = Engine(db, prog, H, max_states=max_states)
    store = {}
    if bind_param:
        fid = eng.frame_id(fn)
        store['%s::%s' % (fid, bind_param[0])] = fs(('&', bind_param[1]))
    eng.run(fn, store)
    return H, eng
