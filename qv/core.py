"""qv.core — program database over qfacts output.

Loads the per-unit fact files, links them per executable (Makefile ./load and
./makelib lines), rebuilds expression trees from the three-address CFG elements,
infers noreturn functions, and offers dominators on the edge-split CFG (so a
branch outcome can dominate a statement), guards, and must-precede queries.
Standard library only.
"""
import json, os, re, sys
from collections import defaultdict, deque

STRIP_CASTS = {'LValueToRValue', 'NoOp', 'FunctionToPointerDecay', 'ArrayToPointerDecay',
               'BitCast', 'IntegralCast', 'IntegralToBoolean', 'PointerToBoolean',
               'NullToPointer', 'ToVoid', 'PointerToIntegral', 'IntegralToPointer',
               'BuiltinFnToFnPtr'}
# casts that may change the integer value: kept visible to the concrete evaluator
VALUE_CASTS = {'IntegralCast', 'IntegralToBoolean'}


def effective(cond, truth):
    """normal form of a two-way branch outcome: leading '!' folded into the truth value"""
    if truth not in (True, False) or cond is None:
        return cond, truth
    c = cond
    for _ in range(8):
        s = c.strip() if c is not None else None
        if s is None:
            break
        if s.k == 'un' and s.op == '!' and s.args and s.args[0] is not None:
            c = s.args[0]
            truth = not truth
            continue
        break
    return c, truth


class AnalysisBroken(Exception):
    """anchor vanished / construct cannot be modelled: exit code 2, never a verdict"""


class X:
    """expression tree node (view over one CFG element)"""
    __slots__ = ('fn', 'n', 'k', 'op', 'args', 'id')

    def __init__(self, fn, n):
        self.fn = fn
        self.n = n
        self.k = n['k']
        self.op = n.get('op')
        self.id = n['i']
        self.args = [fn.x(a) if a is not None and a >= 0 else None for a in n.get('a', [])]

    # ---- structural helpers
    def strip(self):
        """drop value-preserving casts"""
        x = self
        while x is not None and x.k == 'cast' and x.op in STRIP_CASTS and x.args:
            x = x.args[0]
        return x

    @property
    def line(self):
        return self.n.get('loc', [0, 0])[0]

    @property
    def where(self):
        f = self.n.get('file') or self.fn.unit
        return '%s:%d' % (f, self.line)

    @property
    def macros(self):
        return self.n.get('mac', [])

    @property
    def type(self):
        return self.n.get('t', '')

    @property
    def const(self):
        """integer value if a literal or compile-time constant"""
        x = self
        if x.k == 'int':
            return x.n['v']
        if 'cv' in x.n:
            return x.n['cv']
        if x.k == 'ref' and 'v' in x.n:
            return x.n['v']
        if x.k == 'cast' and x.args and x.args[0] is not None:
            return x.args[0].const
        return None

    @property
    def string(self):
        x = self.strip()
        if x is not None and x.k == 'str':
            return x.n.get('v')
        return None

    @property
    def var(self):
        x = self.strip()
        return x.n['d'] if x is not None and x.k == 'ref' else None

    @property
    def callee(self):
        if self.k != 'call':
            return None
        f = self.n.get('f')
        return f[2:] if f else None

    def path(self):
        """access path string or None: G:x, P:qq->flagerr, G:jo[*].refs, *P:p"""
        x = self.strip()
        if x is None:
            return None
        if x.k == 'ref':
            return x.n['d']
        if x.k == 'mem':
            b = x.args[0].path() if x.args and x.args[0] is not None else None
            if b is None:
                return None
            return b + ('->' if x.n.get('arrow') else '.') + x.n['f']
        if x.k == 'idx':
            b = x.args[0].path()
            if b is None:
                return None
            c = x.args[1].const
            return '%s[%s]' % (b, c if c is not None else '*')
        if x.k == 'un' and x.op == '*':
            b = x.args[0].path()
            return None if b is None else '*' + b
        return None

    def walk(self):
        """pre-order over the tree"""
        stack = [self]
        while stack:
            x = stack.pop()
            if x is None:
                continue
            yield x
            stack.extend(reversed(x.args))

    def calls(self, name=None):
        return [x for x in self.walk() if x.k == 'call' and (name is None or x.callee == name)]

    def refs(self):
        return {x.n['d'] for x in self.walk() if x.k == 'ref'}

    def sx(self):
        """normalised S-expression (tuples), casts stripped, constants by value"""
        x = self.strip()
        if x is None:
            return None
        c = x.const
        if c is not None and x.k != 'call':
            return ('c', c)
        if x.k == 'str':
            return ('s', x.n.get('v'))
        if x.k == 'ref':
            return ('v', x.n['d'])
        if x.k == 'call':
            return ('call', x.callee) + tuple(a.sx() if a is not None else None for a in x.args)
        if x.k in ('bin', 'asg', 'un'):
            return (x.k, x.op) + tuple(a.sx() if a is not None else None for a in x.args)
        if x.k == 'mem':
            return ('mem', x.n['f'], bool(x.n.get('arrow'))) + tuple(a.sx() for a in x.args)
        if x.k == 'idx':
            return ('idx',) + tuple(a.sx() for a in x.args)
        if x.k == 'cast':
            return ('cast', x.op, x.type) + tuple(a.sx() if a is not None else None for a in x.args)
        return (x.k,) + tuple(a.sx() if a is not None else None for a in x.args)

    def src(self):
        """readable rendering for reports"""
        x = self.strip()
        if x is None:
            return '?'
        if x.k == 'int':
            v = x.n['v']
            if x.n.get('ch') and 32 <= v < 127:
                return "'%s'" % chr(v)
            return str(v)
        if x.k == 'str':
            return json.dumps(x.n.get('v', ''))
        if x.k == 'ref':
            return x.n['d'].split(':', 1)[1].split('#')[0]
        if x.k == 'call':
            nm = x.callee or ('(*%s)' % (x.fn.x(x.n['fe']).src() if 'fe' in x.n else '?'))
            return '%s(%s)' % (nm, ','.join(a.src() if a is not None else '?' for a in x.args))
        if x.k == 'bin' or x.k == 'asg':
            return '(%s %s %s)' % (x.args[0].src() if x.args[0] is not None else '?', x.op,
                                   x.args[1].src() if x.args[1] is not None else '?')
        if x.k == 'un':
            if x.op.startswith('post'):
                return '%s%s' % (x.args[0].src(), x.op[4:])
            if x.op.startswith('pre'):
                return '%s%s' % (x.op[3:], x.args[0].src())
            return '%s%s' % (x.op, x.args[0].src())
        if x.k == 'mem':
            return '%s%s%s' % (x.args[0].src(), '->' if x.n.get('arrow') else '.', x.n['f'])
        if x.k == 'idx':
            return '%s[%s]' % (x.args[0].src(), x.args[1].src())
        if x.k == 'cast':
            return '(%s)%s' % (x.type, x.args[0].src() if x.args and x.args[0] is not None else '?')
        if x.k == 'sizeof':
            return 'sizeof=%s' % x.n.get('cv')
        if x.k == 'cond':
            return '(%s ? %s : %s)' % tuple(a.src() if a is not None else '?' for a in x.args)
        if x.k == 'ret':
            return 'return %s' % (x.args[0].src() if x.args else '')
        if x.k == 'decl':
            return '%s = %s' % (x.n.get('d'), x.args[0].src() if x.args else '')
        return x.k

    def __repr__(self):
        return '<X %s @%s>' % (self.src(), self.where)


class Block:
    __slots__ = ('id', 'elems', 'term', 'succs', 'label', 'preds', 'noreturn', 'fn')

    def __init__(self, fn, b):
        self.fn = fn
        self.id = b['id']
        self.elems = b['elems']
        self.term = b.get('term')
        self.succs = [s.get('to') for s in b['succs']]
        self.label = b.get('label')
        self.noreturn = b.get('noreturn', False)
        self.preds = []

    @property
    def cond(self):
        if self.term and 'cond' in self.term:
            return self.fn.x(self.term['cond'])
        return None

    def tops(self):
        """top-level statements of the block (elements not used as operands)"""
        return self.fn.block_tops(self.id)


class Function:
    def __init__(self, unit, f):
        self.unit = unit
        self.f = f
        self.name = f['name']
        self.static = f.get('static', False)
        self.noreturn = f.get('noreturn_attr', False)
        self.sys = f.get('sys', False)
        self.blocks = {}
        self.nodes = {}
        self.pos = {}
        self._x = {}
        for b in f.get('blocks', []):
            blk = Block(self, b)
            self.blocks[blk.id] = blk
            for idx, n in enumerate(blk.elems):
                self.nodes[n['i']] = n
                self.pos[n['i']] = (blk.id, idx)
        for blk in self.blocks.values():
            for s in blk.succs:
                if s is not None and s in self.blocks:
                    self.blocks[s].preds.append(blk.id)
        self.entry = f.get('entry')
        self.exit = f.get('exit')
        self.params = [p['id'] for p in f.get('params', [])]
        self.param_types = {p['id']: p.get('t', '') for p in f.get('params', [])}
        self.line = f.get('loc', [0, 0])[0]
        self._tops = None
        self._used = None
        self._edom = None
        self.cut_done = False

    def __repr__(self):
        return '<Function %s:%s>' % (self.unit, self.name)

    def x(self, i):
        r = self._x.get(i)
        if r is None:
            n = self.nodes.get(i)
            if n is None:
                return None
            r = X(self, n)
            self._x[i] = r
        return r

    def used_ids(self):
        if self._used is None:
            u = set()
            for n in self.nodes.values():
                for a in n.get('a', []):
                    if a is not None and a >= 0:
                        u.add(a)
                if 'fe' in n:
                    u.add(n['fe'])
            self._used = u
        return self._used

    def block_tops(self, bid):
        used = self.used_ids()
        return [self.x(n['i']) for n in self.blocks[bid].elems if n['i'] not in used]

    def all_x(self):
        """every element as X, in block order from entry"""
        for bid in self.order():
            for n in self.blocks[bid].elems:
                yield self.x(n['i'])

    def order(self):
        return sorted(self.blocks, reverse=True)

    def calls(self, name=None):
        out = []
        for bid in self.order():
            for n in self.blocks[bid].elems:
                if n['k'] == 'call':
                    x = self.x(n['i'])
                    if name is None or x.callee == name or (isinstance(name, (set, frozenset, tuple, list)) and x.callee in name):
                        out.append(x)
        return out

    def block_of(self, x):
        return self.pos[x.id][0]

    # ---- reachability after noreturn cuts
    def reachable(self):
        seen = set()
        work = [self.entry]
        while work:
            b = work.pop()
            if b in seen or b is None:
                continue
            seen.add(b)
            work.extend(s for s in self.blocks[b].succs if s is not None)
        return seen

    # ---- dominators on the edge-split graph
    def edge_dom(self):
        """returns dom: node -> set of dominators; nodes are ('b',id) and ('e',src,k)"""
        if self._edom is not None:
            return self._edom
        succ = defaultdict(list)
        nodes = []
        reach = self.reachable()
        for bid in reach:
            b = self.blocks[bid]
            nodes.append(('b', bid))
            for k, s in enumerate(b.succs):
                if s is None:
                    continue
                e = ('e', bid, k)
                nodes.append(e)
                succ[('b', bid)].append(e)
                succ[e].append(('b', s))
        entry = ('b', self.entry)
        # iterative dominators (Cooper-Harvey-Kennedy on RPO)
        rpo = []
        seen = set()

        def dfs(start):
            stack = [(start, iter(succ[start]))]
            seen.add(start)
            while stack:
                node, it = stack[-1]
                adv = False
                for s in it:
                    if s not in seen:
                        seen.add(s)
                        stack.append((s, iter(succ[s])))
                        adv = True
                        break
                if not adv:
                    rpo.append(node)
                    stack.pop()
        dfs(entry)
        rpo.reverse()
        index = {n: i for i, n in enumerate(rpo)}
        pred = defaultdict(list)
        for a in rpo:
            for s in succ[a]:
                pred[s].append(a)
        idom = {entry: entry}

        def intersect(a, b):
            while a != b:
                while index[a] > index[b]:
                    a = idom[a]
                while index[b] > index[a]:
                    b = idom[b]
            return a
        changed = True
        while changed:
            changed = False
            for n in rpo[1:]:
                ps = [p for p in pred[n] if p in idom]
                if not ps:
                    continue
                new = ps[0]
                for p in ps[1:]:
                    new = intersect(new, p)
                if idom.get(n) != new:
                    idom[n] = new
                    changed = True
        self._edom = (idom, entry)
        return self._edom

    def dominators_of_block(self, bid):
        idom, entry = self.edge_dom()
        n = ('b', bid)
        if n not in idom:
            return None  # unreachable
        out = []
        while n != entry:
            n = idom[n]
            out.append(n)
        return out

    def guards(self, x_or_bid, fresh=True):
        """list of (cond X, truth/case) whose outcome dominates the element/block and (fresh=True) whose
        variables cannot be redefined between the branch and the element.
        truth is True/False for two-way branches; for switches ('case', lo, hi) or
        ('default', [ranges])"""
        bid = x_or_bid if isinstance(x_or_bid, int) else self.pos[x_or_bid.id][0]
        doms = self.dominators_of_block(bid)
        if doms is None:
            return None
        out = []
        for d in doms:
            if d[0] != 'e':
                continue
            src = self.blocks[d[1]]
            if src.term is None or 'cond' not in src.term:
                continue
            cond = self.x(src.term['cond'])
            if fresh and not self._fresh(cond, src.succs[d[2]], x_or_bid):
                continue
            if src.term['k'] == 'switch':
                tgt = self.blocks[src.succs[d[2]]]
                lab = tgt.label
                if lab and lab['k'] == 'case':
                    out.append((cond, ('case', lab.get('lo'), lab.get('hi'))))
                else:
                    others = []
                    for s in src.succs:
                        l2 = self.blocks[s].label if s is not None else None
                        if l2 and l2['k'] == 'case':
                            others.append((l2.get('lo'), l2.get('hi')))
                    out.append((cond, ('default', tuple(others))))
            else:
                out.append(effective(cond, d[2] == 0))
        return out

    # ---- staleness of guards
    def _def_blocks(self, root):
        cache = getattr(self, '_defblk', None)
        if cache is None:
            cache = {}
            for xx in self.all_x():
                tgt = None
                if xx.k == 'asg' or (xx.k == 'un' and xx.op in ('pre++', 'pre--', 'post++', 'post--')):
                    tgt = xx.args[0]
                elif xx.k == 'decl' and xx.n.get('d') and xx.args:
                    cache.setdefault(xx.n['d'], []).append(self.pos[xx.id])
                if tgt is not None:
                    v = tgt.strip()
                    while v is not None and v.k in ('mem', 'idx', 'cast') and v.args:
                        v = v.args[0].strip() if v.args[0] is not None else None
                    if v is not None and v.k == 'ref':
                        cache.setdefault(v.n['d'], []).append(self.pos[xx.id])
            self._defblk = cache
        return cache.get(root, [])

    def _reach(self, a, b, avoid=None):
        seen, work = set(), [a]
        while work:
            t = work.pop()
            if t in seen or t is None or t == avoid:
                continue
            seen.add(t)
            for s_ in self.blocks[t].succs:
                if s_ == b:
                    return True
                if s_ is not None:
                    work.append(s_)
        return False

    def _fresh(self, cond, edge_target, x_or_bid):
        gb = self.pos[cond.id][0]      # the block that evaluates the guard: passing it again re-establishes it
        if isinstance(x_or_bid, int):
            xb, xi = x_or_bid, -1
        else:
            xb, xi = self.pos[x_or_bid.id]
        for r in cond.refs():
            if r[:2] in ('F:', 'E:'):
                continue
            for (db_, di) in self._def_blocks(r):
                if db_ == xb and not (edge_target == xb and False):
                    # a def in x's own block counts only if it precedes x there and the block is entered after the edge
                    if xi >= 0 and di < xi and (edge_target == xb or self._reach(edge_target, xb, gb)):
                        return False
                    continue
                if db_ == gb:
                    continue
                if (db_ == edge_target or self._reach(edge_target, db_, gb)) and self._reach(db_, xb, gb):
                    return False
        return True

    def dominates(self, xa, xb):
        """element xa is executed before xb on every path from entry to xb"""
        ba, ia = self.pos[xa.id]
        bb, ib = self.pos[xb.id]
        if ba == bb:
            return ia < ib
        doms = self.dominators_of_block(bb)
        return doms is not None and ('b', ba) in doms

    def edge_dominates(self, bid, k, xb):
        bb = self.pos[xb.id][0] if not isinstance(xb, int) else xb
        doms = self.dominators_of_block(bb)
        return doms is not None and ('e', bid, k) in doms

    def can_reach(self, from_bid, to_bid, avoid=()):
        """block-level reachability from the *end* of from_bid to the start of to_bid"""
        seen = set()
        work = [s for s in self.blocks[from_bid].succs if s is not None]
        while work:
            b = work.pop()
            if b in seen or b in avoid:
                continue
            seen.add(b)
            if b == to_bid:
                return True
            work.extend(s for s in self.blocks[b].succs if s is not None)
        return False


def _canonical_queue_names(text):
    """qmail-send.c: the rules speak of the daemon's three schedules as pqchan (one queue per channel), pqfail (entries that go back
    through pqadd) and pqdone (entries that go to messdone).  If the source calls them something else, the roles are read off
    pass_do() - which queue is emptied into which function - and the facts are renamed to the rules' vocabulary.  Nothing happens on a
    tree that uses the usual names."""
    d = json.loads(text)
    if d.get('unit') != 'qmail-send.c':
        return d
    gl = [g for g in d.get('globals', []) if not g.get('extern_decl')]
    scal = [g['name'] for g in gl if g.get('t') == 'prioq']
    arrs = [g['name'] for g in gl if (g.get('t') or '').startswith('prioq[')]
    if {'pqfail', 'pqdone'} <= set(scal) and 'pqchan' in arrs:
        return d
    role = {}
    for f in d.get('functions', []):
        if f.get('name') != 'pass_do':
            continue
        for b in f.get('blocks', []):
            last = None
            for e in b.get('elems', []):
                dd = e.get('d') if e.get('k') == 'ref' else None
                if dd and dd[:2] == 'G:' and dd[2:] in scal:
                    last = dd[2:]
                elif dd == 'F:pqadd' and last:
                    role.setdefault(last, 'pqfail')
                elif dd == 'F:messdone' and last:
                    role.setdefault(last, 'pqdone')
    if len(arrs) == 1:
        role.setdefault(arrs[0], 'pqchan')
    names = {g['name'] for g in gl}
    role = {a: c for a, c in role.items() if a != c}
    if not role or len(set(role.values())) != len(role) or any(c in names and c not in role for c in role.values()):
        return d
    for a, c in role.items():
        text = text.replace('"G:%s"' % a, '"G:%s"' % c).replace('"name":"%s"' % a, '"name":"%s"' % c)
    return json.loads(text)


class Unit:
    def __init__(self, path):
        with open(path) as fh:
            d = _canonical_queue_names(fh.read()) if path.endswith('qmail-send.c.json') else json.load(fh)
        self.name = d['unit']
        self.errors = d.get('errors', False)
        self.macros = d.get('macros', {})
        self.globals = {g['name']: g for g in d.get('globals', []) if not g.get('extern_decl')}
        self.extern_globals = {g['name']: g for g in d.get('globals', []) if g.get('extern_decl')}
        self.records = d.get('records', {})
        self.decls = d.get('decls', {})
        self.functions = {}
        for f in d.get('functions', []):
            fn = Function(self.name, f)
            self.functions[fn.name] = fn

    def macro_int(self, name, _depth=0):
        """value of an object-like macro whose body is an integer constant expression (literals, other such
        macros, + - * / % << >> & | ^ ~, parentheses, sizeof is not supported)"""
        import ast, re
        m = self.macros.get(name)
        if not m or m.get('fn') or _depth > 6:
            return None
        toks = m['body'].split()
        out = []
        for t in toks:
            if re.fullmatch(r"(0[xX][0-9a-fA-F]+|\d+)[uUlL]*", t):
                t = re.sub(r'[uUlL]+$', '', t)
                if len(t) > 1 and t[0] == '0' and t[1] not in 'xX':
                    t = '0o' + t[1:]
                out.append(t)
            elif re.fullmatch(r"'(\\.|[^'\\])'", t):
                body = t[1:-1]
                esc = {'\\n': 10, '\\r': 13, '\\t': 9, '\\0': 0, '\\\\': 92, "\\'": 39}
                out.append(str(esc.get(body, ord(body[-1]))))
            elif re.fullmatch(r'[A-Za-z_]\w*', t):
                v = self.macro_int(t, _depth + 1)
                if v is None:
                    return None
                out.append('(%d)' % v)
            elif t in ('+', '-', '*', '%', '<<', '>>', '&', '|', '^', '~', '(', ')'):
                out.append(t)
            elif t == '/':
                out.append('//')
            else:
                return None
        try:
            tree = ast.parse(' '.join(out), mode='eval')
        except SyntaxError:
            return None
        for node in ast.walk(tree):
            if not isinstance(node, (ast.Expression, ast.BinOp, ast.UnaryOp, ast.Constant, ast.operator, ast.unaryop)):
                return None
            if isinstance(node, ast.Constant) and not isinstance(node.value, int):
                return None
        try:
            return int(eval(compile(tree, '<macro>', 'eval'), {'__builtins__': {}}, {}))
        except Exception:
            return None


def parse_makefile(path):
    """-> (programs: name -> [objects/archives], archives: name -> [objects])"""
    text = open(path, encoding='latin-1').read().replace('\\\n', ' ')
    programs, archives = {}, {}
    for line in text.split('\n'):
        line = line.strip()
        if line.startswith('./load '):
            toks = line.split()
            programs[toks[1]] = [t for t in toks[2:] if t.endswith('.o') or t.endswith('.a')]
            # the program's own object is implicit: ./load X  links X.o first
            programs[toks[1]].insert(0, toks[1] + '.o')
        elif line.startswith('./makelib '):
            toks = line.split()
            archives[toks[1]] = [t for t in toks[2:] if t.endswith('.o')]
    return programs, archives


class Program:
    """the set of units linked into one executable"""

    def __init__(self, db, name, units):
        self.db = db
        self.name = name
        self.units = units  # list of Unit
        self.ext = {}
        for u in units:
            for fn in u.functions.values():
                if not fn.static and not fn.sys:
                    self.ext.setdefault(fn.name, fn)

    def resolve(self, name, from_unit=None):
        if from_unit is not None:
            u = self.db.units.get(from_unit)
            if u and name in u.functions:
                return u.functions[name]
        return self.ext.get(name)

    def functions(self):
        for u in self.units:
            for fn in u.functions.values():
                yield fn

    def fn(self, name, unit=None):
        f = self.resolve(name, unit)
        if f is None:
            raise AnalysisBroken('anchor function %s not found in program %s' % (name, self.name))
        return f


class DB:
    def __init__(self, factdir, makefile):
        self.units = {}
        for fnm in sorted(os.listdir(factdir)):
            if fnm.endswith('.json'):
                u = Unit(os.path.join(factdir, fnm))
                self.units[u.name] = u
        self.link, self.archives = parse_makefile(makefile)
        self._programs = {}
        self._noreturn_done = False
        self.infer_noreturn()

    def unit(self, name):
        u = self.units.get(name)
        if u is None:
            raise AnalysisBroken('anchor unit %s not found' % name)
        return u

    def fn(self, unit, name):
        u = self.unit(unit)
        f = u.functions.get(name)
        if f is None:
            raise AnalysisBroken('anchor function %s not found in %s' % (name, unit))
        return f

    def program(self, name):
        if name in self._programs:
            return self._programs[name]
        if name not in self.link:
            raise AnalysisBroken('no ./load line for program %s' % name)
        objs = []
        for t in self.link[name]:
            if t.endswith('.a'):
                objs.extend(self.archives.get(t, []))
            else:
                objs.append(t)
        units = []
        seen = set()
        for o in objs:
            c = o[:-2] + '.c'
            if c in self.units and c not in seen:
                seen.add(c)
                units.append(self.units[c])
        p = Program(self, name, units)
        self._programs[name] = p
        return p

    def all_functions(self):
        for u in self.units.values():
            for fn in u.functions.values():
                yield fn

    # ---- noreturn inference (fixpoint over all units; names resolved per unit, then globally)
    def infer_noreturn(self):
        ext = defaultdict(list)
        declared = set(['_exit', 'exit', 'abort', '__assert_fail', 'longjmp', '_Exit'])
        for u in self.units.values():
            for name, d in u.decls.items():
                if d.get('noreturn'):
                    declared.add(name)
            for fn in u.functions.values():
                if not fn.static:
                    ext[fn.name].append(fn)

        def is_nr(unit, name):
            u = self.units[unit]
            if name in u.functions:
                return u.functions[name].noreturn
            if name in declared:
                return True
            fs = ext.get(name)
            if fs:
                return all(f.noreturn for f in fs)
            return False
        changed = True
        rounds = 0
        while changed:
            changed = False
            rounds += 1
            for u in self.units.values():
                for fn in u.functions.values():
                    # cut blocks at calls to noreturn functions
                    for blk in fn.blocks.values():
                        if not blk.succs:
                            continue
                        for n in blk.elems:
                            if n['k'] == 'call' and n.get('f') and is_nr(u.name, n['f'][2:]):
                                for s in blk.succs:
                                    if s is not None and blk.id in fn.blocks[s].preds:
                                        fn.blocks[s].preds.remove(blk.id)
                                blk.succs = []
                                blk.noreturn = True
                                fn._edom = None
                                changed = True
                                break
                    if not fn.noreturn and fn.blocks and fn.exit not in fn.reachable():
                        fn.noreturn = True
                        changed = True
        self.noreturn_rounds = rounds

    def is_noreturn_call(self, x):
        """x: call X"""
        name = x.callee
        if name is None:
            return False
        u = self.units[x.fn.unit]
        if name in u.functions:
            return u.functions[name].noreturn
        if name in ('_exit', 'exit', 'abort'):
            return True
        for d in u.decls.get(name, {}), :
            if d.get('noreturn'):
                return True
        fs = [f for uu in self.units.values() for f in [uu.functions.get(name)] if f and not f.static]
        return bool(fs) and all(f.noreturn for f in fs)
