"""qv.esp — path-sensitive property simulation over the extracted CFGs.

Explores the product of a function's CFG (helpers inlined by summary) with a finite
abstract store.  Abstract values are finite sets (frozenset) of integers or symbolic
tokens, or TOP (absent).  No joins: states are merged only when equal, so every
reported path is a real CFG path under the abstraction.  Calls are resolved through
the linked program; a rule supplies hooks that turn calls into events and give
nondeterministic result sets to primitives.  See DESIGN.md Appendix A.3.
"""
import re
import itertools
from collections import deque

from .core import AnalysisBroken, STRIP_CASTS, effective

TOP = None
MAXSET = 4096
BOOL = frozenset((0, 1))


def fs(*a):
    return frozenset(a)


def wrap(v, t):
    """C integer conversion of python int v to type string t"""
    if not isinstance(v, int):
        return v
    t = t.replace('const ', '').replace('volatile ', '').strip()
    if t in ('unsigned char', 'uint8_t', '_Bool'):
        return v & 0xFF if t != '_Bool' else int(v != 0)
    if t in ('char', 'signed char'):
        v &= 0xFF
        return v - 256 if v >= 128 else v
    if t in ('unsigned int', 'uint32', 'uint32_t', 'unsigned'):
        return v & 0xFFFFFFFF
    if t in ('int',):
        v &= 0xFFFFFFFF
        return v - (1 << 32) if v >= (1 << 31) else v
    if t in ('unsigned short',):
        return v & 0xFFFF
    if t in ('short',):
        v &= 0xFFFF
        return v - 65536 if v >= 32768 else v
    if t in ('unsigned long', 'size_t', 'unsigned long long', 'uint64', 'uint64_t'):
        return v & 0xFFFFFFFFFFFFFFFF
    if t in ('long', 'long long', 'ssize_t', 'off_t', '__off_t', 'seek_pos', 'datetime_sec', 'time_t'):
        v &= 0xFFFFFFFFFFFFFFFF
        return v - (1 << 64) if v >= (1 << 63) else v
    return v


def binop(op, a, b, t):
    # linear symbolic values: order and equality are unknown unless syntactically identical
    if op in ('==', '!=', '<', '<=', '>', '>=') and (is_lin(a) or is_lin(b)):
        if a == b:
            return int(op in ('==', '<=', '>='))
        # a non-negative combination of non-negative symbols is never equal to a negative constant
        for u, v in ((a, b), (b, a)):
            if is_lin(u) and isinstance(v, int) and v < 0 and u[2] >= 0 and all(c > 0 and s_ in NONNEG for s_, c in u[1]):
                if op in ('==', '!='):
                    return int(op == '!=')
        return None
    # two addresses into the same array compare (and subtract) like their indices
    if op in ('==', '!=', '<', '<=', '>', '>=', '-') and isinstance(a, tuple) and isinstance(b, tuple) and len(a) == 2 and len(b) == 2 and a[0] == '&' and b[0] == '&' \
            and isinstance(a[1], str) and isinstance(b[1], str):
        ma, mb = _IDX.match(a[1]), _IDX.match(b[1])
        if ma and mb and ma.group(1) == mb.group(1):
            a, b = int(ma.group(2)), int(mb.group(2))
        elif op in ('<', '<=', '>', '>=', '-'):
            return None
    # a descriptor / pid token compares like a small positive integer
    if op in ('==', '!=', '<', '<=', '>', '>='):
        if isinstance(a, tuple) and a and a[0] in ('fd', 'pid') and isinstance(b, int):
            a = 3
        elif isinstance(b, tuple) and b and b[0] in ('fd', 'pid') and isinstance(a, int):
            b = 3
    try:
        if op == '+': r = a + b
        elif op == '-': r = a - b
        elif op == '*': r = a * b
        elif op == '/': r = (abs(a) // abs(b)) * (1 if (a >= 0) == (b >= 0) else -1) if b else None      # exact: truncation toward zero, no floating point
        elif op == '%': r = (abs(a) % abs(b)) * (1 if a >= 0 else -1) if b else None
        elif op == '&': r = a & b
        elif op == '|': r = a | b
        elif op == '^': r = a ^ b
        elif op == '<<': r = a << b if 0 <= b < 64 else None
        elif op == '>>': r = a >> b if 0 <= b < 64 else None
        elif op == '==': return int(a == b)
        elif op == '!=': return int(a != b)
        elif op == '<': return int(a < b)
        elif op == '<=': return int(a <= b)
        elif op == '>': return int(a > b)
        elif op == '>=': return int(a >= b)
        elif op == '&&': return int(bool(a) and bool(b))
        elif op == '||': return int(bool(a) or bool(b))
        else: return None
    except TypeError:
        if op == '==': return int(a == b)
        if op == '!=': return int(a != b)
        return None
    if r is None:
        return None
    return wrap(r, t)


_IDX = __import__('re').compile(r'^(.*)\[(-?\d+)\]$')


def ptr_add(a, d):
    """('&', 'X[k]') + d -> ('&', 'X[k+d]'); a string literal + d -> an address in the object named after its text; None if not an indexed address"""
    if isinstance(a, tuple) and len(a) == 2 and a[0] == 'str' and isinstance(a[1], str) and isinstance(d, int):
        return a if d == 0 else ('&', 'LIT:%s[%d]' % (a[1].encode('latin-1', 'replace').hex(), d))
    if isinstance(a, tuple) and len(a) == 2 and a[0] == '&' and isinstance(a[1], str) and isinstance(d, int):
        m = _IDX.match(a[1])
        if m:
            return ('&', '%s[%d]' % (m.group(1), int(m.group(2)) + d))
    return None


# ---- linear symbolic values: ('lin', ((symbol, coefficient), ...), constant)
NONNEG = set()      # symbols a rule declares to be >= 0
def is_lin(v):
    return isinstance(v, tuple) and len(v) == 3 and v[0] == 'lin'


def lin_sym(name):
    return ('lin', ((name, 1),), 0)


def lin_of(v):
    if is_lin(v):
        return v
    if isinstance(v, int):
        return ('lin', (), v)
    return None


def lin_add(a, b, sign=1):
    a, b = lin_of(a), lin_of(b)
    if a is None or b is None:
        return None
    co = dict(a[1])
    for s_, c in b[1]:
        co[s_] = co.get(s_, 0) + sign * c
    co = tuple(sorted((s_, c) for s_, c in co.items() if c))
    k = a[2] + sign * b[2]
    return ('lin', co, k) if co else k


def lin_mul(a, k):
    a = lin_of(a)
    if a is None or not isinstance(k, int):
        return None
    co = tuple(sorted((s_, c * k) for s_, c in a[1] if c * k))
    return ('lin', co, a[2] * k) if co else a[2] * k


def root_of(path):
    for i, ch in enumerate(path):
        if ch in '.[-' and i > 0:
            if ch == '-' and path[i:i + 2] != '->':
                continue
            return path[:i].lstrip('*')
    return path.lstrip('*')


class Outcome:
    """one nondeterministic result of a primitive call"""
    __slots__ = ('ret', 'sets', 'log', 'noreturn', 'havoc', 'apply')

    def __init__(self, ret=TOP, sets=None, log=None, noreturn=False, havoc=(), apply=None):
        self.ret = ret
        self.sets = sets or {}
        self.log = log
        self.noreturn = noreturn
        self.havoc = havoc
        self.apply = apply      # callable(Env) run on this outcome's state


class Trace:
    __slots__ = ('parent', 'text')

    def __init__(self, parent, text):
        self.parent = parent
        self.text = text

    def list(self):
        out = []
        t = self
        while t is not None:
            if t.text:
                out.append(t.text)
            t = t.parent
        out.reverse()
        return out


class Hooks:
    """rule-side callbacks; subclass and override"""
    inline_depth = 3

    def inline(self, fn, depth):
        """inline this resolved callee?"""
        return False

    def tracked_global(self, path):
        return False

    def precise_arith(self, path):
        """paths on which ++/--/+= are evaluated on the value set instead of going TOP"""
        return False

    def on_call(self, E, x, args):
        """return None for default handling, a list of Outcome, or 'noreturn'"""
        return None

    def on_assign(self, E, x, path, val):
        pass

    def on_return(self, E, fn, val):
        """top-level function returns"""
        pass

    def on_exit(self, E, x):
        """path ends in a noreturn call x that was not inlined"""
        pass

    def on_elem(self, E, x):
        pass

    def on_branch(self, E, cond, truth):
        pass

    def materialize(self, E, path):
        """value of a tracked path read while unknown (lets a rule model input buffers lazily)"""
        return TOP

    def materialize_split(self, E, path):
        """like materialize, but a partition: the state is split into one path per class, so that a copy
        of the cell into a local keeps its correlation with the cell"""
        return None


class Env:
    """mutable view of one abstract state handed to hooks"""

    def __init__(self, eng, frame, store, temps, trace):
        self.eng = eng
        self.frame = frame
        self.store = store
        self.temps = temps
        self.trace = trace
        self.dead = False

    def kill(self):
        """stop exploring this path (after a reported violation the monitors are meaningless)"""
        self.dead = True

    def get(self, path):
        return self.store.get(path, TOP)

    def set(self, path, val):
        if val is TOP:
            self.store.pop(path, None)
        else:
            self.store[path] = val

    def log(self, text):
        self.trace = Trace(self.trace, text)

    def val(self, x):
        """abstract value of an (already evaluated) operand"""
        if x is None:
            return TOP
        return self.temps.get(x.id, TOP)

    def canon(self, x):
        return self.eng.canon(self, x)

    def violation(self, instance, where, detail):
        self.eng.violations.append((instance, where, detail, self.trace.list() if self.trace else []))

    def havoc_root(self, root):
        for p in [p for p in self.store if root_of(p) == root]:
            del self.store[p]


class Engine:
    def __init__(self, db, prog, hooks, max_states=400000):
        self.db = db
        self.prog = prog
        self.hooks = hooks
        self.max_states = max_states
        self.violations = []
        self.states = 0
        self.transitions = 0
        self.summaries = {}
        self.stack = []
        self._modset = {}
        self._live = {}
        self._escaped = {}
        self.refused = []
        self.keep_dead = False     # keep dead locals in the store (needed to read a parameter's partition at return)

    # ------------------------------------------------------------------ paths
    def frame_id(self, fn):
        return fn.name if not fn.static else '%s@%s' % (fn.name, fn.unit.replace('.', '_'))

    def qualify(self, fn, d):
        if d.startswith('G:') or d.startswith('F:') or d.startswith('E:'):
            return d
        if d.startswith('S:'):
            return 'S:%s:%s' % (fn.unit.replace('.', '_'), d[2:])
        return '%s::%s' % (self.frame_id(fn), d)

    def canon(self, E, x):
        x = x.strip() if x is not None else None
        if x is None:
            return None
        if x.k == 'ref':
            return self.qualify(x.fn, x.n['d'])
        if x.k == 'mem':
            base = x.args[0]
            if x.n.get('arrow'):
                bv = self.value_of(E, base)
                if bv is not TOP and len(bv) == 1:
                    (a,) = bv
                    if isinstance(a, tuple) and a[0] == '&':
                        return '%s.%s' % (a[1], x.n['f'])
                b = self.canon(E, base)
                return None if b is None else '%s->%s' % (b, x.n['f'])
            b = self.canon(E, base)
            return None if b is None else '%s.%s' % (b, x.n['f'])
        if x.k == 'idx':
            iv = self.value_of(E, x.args[1])
            bv = self.value_of(E, x.args[0])
            if bv is not TOP and len(bv) == 1 and iv is not TOP and len(iv) == 1:
                pa = ptr_add(next(iter(bv)), next(iter(iv)))
                if pa is not None:
                    return pa[1]
            b = self.canon(E, x.args[0])
            if b is None:
                return None
            if iv is not TOP and len(iv) == 1 and isinstance(next(iter(iv)), int):
                return '%s[%d]' % (b, next(iter(iv)))
            return '%s[*]' % b
        if x.k == 'un' and x.op == '*':
            bv = self.value_of(E, x.args[0])
            if bv is not TOP and len(bv) == 1:
                (a,) = bv
                if isinstance(a, tuple) and a[0] == '&':
                    return a[1]
            b = self.canon(E, x.args[0])
            return None if b is None else '*' + b
        if x.k == 'cast':
            return self.canon(E, x.args[0]) if x.args else None
        return None

    def value_of(self, E, x):
        """value of operand x: from temps if evaluated in this block, else re-derived"""
        if x is None:
            return TOP
        if x.id in E.temps:
            return E.temps[x.id]
        c = x.const
        if c is not None:
            return fs(c)
        return TOP

    def const_table_cell(self, p):
        """a cell of a const-qualified array with an initialiser list (a lookup table, possibly of records): its initial value is its value"""
        cache = self.__dict__.setdefault('_const_tables', {})
        root = root_of(p)
        if root not in cache:
            g = None
            if root.startswith('S:'):
                _, u, name = root.split(':', 2)
                unit = self.db.units.get(u[:-2] + '.' + u[-1]) if len(u) > 2 and u[-2] == '_' else None
                g = unit.globals.get(name) if unit is not None else None
            elif '::SL:' in root:
                # a static table kept inside the function that uses it
                fid, lid = root.split('::', 1)
                owner_fn = next((f_ for f_ in self.prog.functions() if self.frame_id(f_) == fid), None)
                li = next((l_ for l_ in (owner_fn.f.get('locals') or []) if l_.get('id') == lid), None) if owner_fn is not None else None
                if li is not None and li.get('init') is not None:
                    g = {'t': li.get('t', ''), 'init': li['init'], 'static': True, 'name': lid, 'loc': (fid, lid), 'fields': li.get('fields')}
                    unit = self.db.units.get(owner_fn.unit)
                    sl_fn = owner_fn
            elif root.startswith('G:'):
                for unit in list(self.prog.units) + list(self.db.units.values()):
                    cand = unit.globals.get(root[2:])
                    if cand is not None and not cand.get('static') and cand.get('init') is not None:
                        g = cand
                        break
            if g is not None and isinstance(g.get('init'), dict) and g['init'].get('k') == 'str' and '[' in g.get('t', '') and 'char' in g.get('t', ''):
                # a character array initialised by a string literal: its bytes and the terminating NUL
                bs = [ord(c) for c in g['init'].get('v', '')] + [0]
                g = dict(g, init={'k': 'list', 'v': [{'k': 'int', 'v': (b - 256 if b >= 128 and 'unsigned' not in g.get('t', '') else b)} for b in bs]})
            ok = g is not None and '[' in g.get('t', '') and isinstance(g.get('init'), dict) and g['init'].get('k') == 'list'
            if ok and not g.get('t', '').startswith('const '):
                # not declared const: still a lookup table if it is private to its file and nothing there writes it or takes an address into it,
                # or if it is a global that no unit of the explored program writes or takes an address into
                if '::SL:' in root:
                    class _One:
                        functions = {sl_fn.name: sl_fn}
                    ok = self._never_written([_One], root.split('::', 1)[1])
                elif root.startswith('S:'):
                    ok = bool(g.get('static')) and self._never_written([unit], 'S:' + name)
                else:
                    ok = self._never_written(self.prog.units, root)
            owner = None
            if ok:
                for u_ in self.db.units.values():
                    if any(g is g_ or (g_.get('name') == g.get('name') and g_.get('loc') == g.get('loc')) for g_ in u_.globals.values()):
                        owner = u_
            if ok and owner is None and '::SL:' in root:
                owner = unit
            cache[root] = (g['init'], g.get('fields') or [], owner) if ok else None
        if cache[root] is None:
            return TOP
        init, fields, owner = cache[root]
        rest = p[len(root):]
        steps = re.findall(r'\[(\d+|\*)\]|\.([A-Za-z_]\w*)', rest)
        if ''.join('[%s]' % i if i else '.' + f for i, f in steps) != rest:
            return TOP
        nodes = [init]
        for i, f in steps:
            if f:
                if f not in fields:
                    return TOP
                i = str(fields.index(f))
            nxt = []
            for nd in nodes:
                if nd.get('k') != 'list':
                    return TOP
                items = nd['v']
                if i == '*':
                    nxt.extend(items)
                elif int(i) < len(items):
                    nxt.append(items[int(i)])
                else:
                    nxt.append({'k': 'int', 'v': 0})       # elements without an initialiser are zero
            nodes = nxt
        if not nodes or len(nodes) > MAXSET:
            return TOP
        out = set()
        for nd in nodes:
            if nd.get('k') == 'int':
                out.add(nd['v'])
            elif nd.get('k') == 'str':
                out.add(('str', nd['v']))
            elif nd.get('k') == 'fn':
                out.add(('fn', nd['v'][2:]))
            elif nd.get('k') == 'addr' and isinstance(nd.get('v'), dict) and nd['v'].get('k') == 'var':
                vn = nd['v']['v']
                gv = owner.globals.get(vn) if owner is not None else None
                if gv is not None and gv.get('static'):
                    out.add(('&', 'S:%s:%s' % (owner.name.replace('.', '_'), vn)))
                else:
                    out.add(('&', 'G:' + vn))
            else:
                return TOP
        return frozenset(out)

    def _never_written(self, units, d):
        for f in (f_ for u_ in units for f_ in u_.functions.values()):
            for x in f.all_x():
                tgt = None
                if x.k == 'asg' and x.args:
                    tgt = x.args[0]
                elif x.k == 'un' and x.op in ('&', 'pre++', 'pre--', 'post++', 'post--') and x.args:
                    tgt = x.args[0]
                if tgt is None:
                    continue
                y = tgt
                while y is not None:
                    if y.k == 'cast' and y.args:
                        if y.op == 'LValueToRValue':
                            y = None          # a pointer VALUE is used: what is written is what it points to, not the table
                            break
                        y = y.args[0]
                    elif y.k == 'idx' and y.args:
                        y = y.args[0]
                    elif y.k == 'mem' and y.args:
                        y = y.args[0]
                    elif y.k == 'un' and y.op == '*' and y.args:
                        y = y.args[0]
                    elif y.k == 'paren' and y.args:
                        y = y.args[0]
                    else:
                        break
                if y is not None and y.k == 'ref' and y.n.get('d') == d:
                    return False
        return True

    def stored_or_input(self, E, p):
        """the value a read-modify-write (++, +=) starts from: what the path holds, or the input cell the hooks supply for it"""
        v = E.store.get(p, TOP)
        if v is TOP and p not in E.store:
            v = self.hooks.materialize(E, p)
            if v is not TOP:
                E.set(p, v)
        return v

    def trackable(self, path):
        if path is None or '[*]' in path:
            return False
        r = root_of(path)
        if '::' in r:
            fnid, d = r.split('::', 1)
            return d not in self._escaped.get(fnid, ())
        return self.hooks.tracked_global(path)

    # ------------------------------------------------------------------ per-function facts
    def escaped(self, fn):
        """locals whose address is taken outside a direct call argument"""
        fid = self.frame_id(fn)
        if fid in self._escaped:
            return self._escaped[fid]
        esc = set()
        call_args = set()
        for n in fn.nodes.values():
            if n['k'] == 'call':
                for a in n.get('a', []):
                    call_args.add(a)
        for n in fn.nodes.values():
            if n['k'] == 'un' and n.get('op') == '&':
                x = fn.x(n['i'])
                v = x.args[0].strip() if x.args and x.args[0] is not None else None
                # find root local
                while v is not None and v.k in ('mem', 'idx'):
                    v = v.args[0].strip()
                if v is not None and v.k == 'ref' and v.n['d'][:2] in ('L:', 'P:'):
                    # is this & directly a call argument (possibly through casts)?
                    if not self._feeds_call_arg(fn, n['i'], call_args):
                        esc.add(v.n['d'])
        self._escaped[fid] = esc
        return esc

    def _feeds_call_arg(self, fn, nid, call_args):
        if nid in call_args:
            return True
        # follow single cast users
        for m in fn.nodes.values():
            if m['k'] == 'cast' and nid in m.get('a', []):
                if self._feeds_call_arg(fn, m['i'], call_args):
                    return True
        return False

    def liveness(self, fn):
        """live-in sets of local decl ids per block"""
        fid = self.frame_id(fn)
        if fid in self._live:
            return self._live[fid]
        use, defs = {}, {}
        for bid, b in fn.blocks.items():
            u, d = set(), set()
            for n in b.elems:
                if n['k'] == 'ref' and n['d'][:2] in ('L:', 'P:'):
                    # a ref is a def only if it is the direct lhs of '=' ; anything else is a use
                    if n['d'] not in d and not self._is_pure_def(fn, n['i']):
                        u.add(n['d'])
                elif n['k'] == 'asg' and n.get('op') == '=':
                    l = fn.x(n['a'][0])
                    l = l.strip() if l is not None else None
                    if l is not None and l.k == 'ref' and l.n['d'][:2] in ('L:', 'P:'):
                        d.add(l.n['d'])
                elif n['k'] == 'decl' and n.get('d', '')[:2] == 'L:' and n.get('a'):
                    d.add(n['d'])
            use[bid], defs[bid] = u, d
        live_in = {bid: set() for bid in fn.blocks}
        changed = True
        while changed:
            changed = False
            for bid, b in fn.blocks.items():
                out = set()
                for s in b.succs:
                    if s is not None:
                        out |= live_in[s]
                new = use[bid] | (out - defs[bid])
                if new != live_in[bid]:
                    live_in[bid] = new
                    changed = True
        self._live[fid] = live_in
        return live_in

    def _is_pure_def(self, fn, nid):
        for m in fn.nodes.values():
            if m['k'] == 'asg' and m.get('op') == '=' and m.get('a') and m['a'][0] == nid:
                return True
        return False

    def modset(self, fn, seen=None):
        key = (fn.unit, fn.name)
        if key in self._modset:
            return self._modset[key]
        if seen is None:
            seen = set()
        if key in seen:
            return set()
        seen.add(key)
        ms = set()
        for n in fn.nodes.values():
            tgt = None
            if n['k'] == 'asg':
                tgt = fn.x(n['a'][0])
            elif n['k'] == 'un' and n.get('op') in ('pre++', 'pre--', 'post++', 'post--'):
                tgt = fn.x(n['a'][0])
            elif n['k'] == 'un' and n.get('op') == '&':
                tgt = fn.x(n['a'][0])   # address taken: assume it may be written through
            elif n['k'] == 'cast' and n.get('op') == 'ArrayToPointerDecay':
                tgt = fn.x(n['a'][0])
            if tgt is not None:
                v = tgt.strip()
                while v is not None and v.k in ('mem', 'idx', 'un', 'cast') and v.args:
                    v = v.args[0].strip() if v.args[0] is not None else None
                if v is not None and v.k == 'ref' and v.n['d'][:2] in ('G:', 'S:'):
                    ms.add(self.qualify(fn, v.n['d']))
            if n['k'] == 'call':
                if n.get('f'):
                    callee = self.prog.resolve(n['f'][2:], fn.unit)
                    if callee is not None:
                        ms |= self.modset(callee, seen)
                else:
                    ms.add('*')
        self._modset[key] = ms
        return ms

    def bounded_counter(self, path):
        """local loop counters compared with a small constant in a loop condition are tracked exactly"""
        if '::' not in path:
            return False
        fid, d = path.split('::', 1)
        if d[:2] != 'L:' or '.' in d or '[' in d:
            return False
        bc = getattr(self, '_bc', None)
        if bc is None:
            bc = self._bc = {}
        if fid not in bc:
            bc[fid] = None
        return d in (self._bc_sets.get(fid) or ())

    def note_function(self, fn):
        sets = getattr(self, '_bc_sets', None)
        if sets is None:
            sets = self._bc_sets = {}
        fid = self.frame_id(fn)
        if fid in sets:
            return
        out = set()
        for b in fn.blocks.values():
            if not (b.term and b.term.get('k') in ('for', 'while', 'do') and b.cond is not None):
                continue
            for y in b.cond.walk():
                if y.k == 'bin' and y.op in ('<', '<=', '!=', '>', '>='):
                    for u, v in ((y.args[0], y.args[1]), (y.args[1], y.args[0])):
                        if u is not None and v is not None and u.var and u.var[:2] == 'L:' and v.const is not None and 0 <= v.const <= 64:
                            out.add(u.var)
        sets[fid] = out

    # ------------------------------------------------------------------ evaluation
    def eval_elem(self, E, x):
        """evaluates element x in env E (mutating E.store/E.temps).
        returns None normally, or a list of (Env) successors when the element splits the
        state (calls with several outcomes), or 'end' if the path ends here."""
        n = x.n
        k = x.k
        T = E.temps
        if k == 'int':
            T[x.id] = fs(n['v'])
        elif k == 'str':
            T[x.id] = fs(('str', n.get('v', '')))
        elif k == 'sizeof':
            T[x.id] = fs(n['cv']) if 'cv' in n else TOP
        elif k == 'ref':
            d = n['d']
            if 'v' in n:
                T[x.id] = fs(n['v'])
            elif d.startswith('F:'):
                T[x.id] = fs(('fn', d[2:]))
            # lvalues carry no value until loaded
        elif k == 'cast':
            op = x.op
            sub = x.args[0] if x.args else None
            if op == 'LValueToRValue':
                sv = self.load_from_literal(E, sub)
                if sv is not None:
                    T[x.id] = sv
                    self.hooks.on_elem(E, x)
                    return None
                p = self.canon(E, sub)
                cv = self.const_table_cell(p) if p is not None and (p[:2] in ('G:', 'S:') or '::SL:' in p) and '[' in p else TOP
                if p is not None and p.startswith('LIT:') and _IDX.match(p):
                    # a byte of a string literal reached through pointer arithmetic: the literal's text, then its NUL
                    bs_ = bytes.fromhex(p[4:p.index('[')]) + b'\0'
                    k_ = int(_IDX.match(p).group(2))
                    cv = fs(wrap(bs_[k_], 'char')) if 0 <= k_ < len(bs_) else TOP
                if cv is not TOP:
                    T[x.id] = cv
                elif p is not None and self.trackable(p):
                    v = E.store.get(p, TOP)
                    if v is TOP:
                        parts = self.hooks.materialize_split(E, p)
                        if parts:
                            # an input cell read for the first time: one path per class of the partition
                            outs = []
                            for cls in parts:
                                E2 = Env(self, E.frame, dict(E.store), dict(E.temps), E.trace)
                                E2.set(p, cls)
                                E2.temps[x.id] = cls
                                outs.append(E2)
                            return outs
                        v = self.hooks.materialize(E, p)
                        if v is TOP and any(re.match(r_, p) for r_ in getattr(self.hooks, 'heap_tables', ())):
                            # a table allocated at start-up and never moved: its pointer is the address of its own first element,
                            # so that jo[k].f, (jo + k)->f and p = &jo[k]; p->f all name the cell jo[k].f
                            v = fs(('&', p + '[0]'))
                        if v is not TOP:
                            E.set(p, v)
                    # a byte cell read as char is signed, read as unsigned char it is 0..255, whichever way it was stored
                    ty = n.get('t', '')
                    if v is not TOP and ty in ('char', 'signed char', 'unsigned char') and any(isinstance(e_, int) and not (-128 <= e_ <= 127 if ty != 'unsigned char' else 0 <= e_ <= 255) for e_ in v):
                        v = frozenset((((e_ + 128) & 255) - 128 if ty != 'unsigned char' else e_ & 255) if isinstance(e_, int) else e_ for e_ in v)
                    T[x.id] = v
                else:
                    T[x.id] = TOP
            elif op == 'ArrayToPointerDecay':
                p = self.canon(E, sub)
                if sub is not None and sub.strip().k == 'str':
                    T[x.id] = T.get(sub.strip().id, TOP)
                else:
                    T[x.id] = fs(('&', p + '[0]')) if p else TOP
            elif op in ('IntegralCast', 'IntegralToBoolean'):
                v = self.value_of(E, sub)
                if v is TOP:
                    T[x.id] = TOP if 'cv' not in n else fs(n['cv'])
                else:
                    t = 'unsigned char' if op == 'IntegralToBoolean' and False else x.type
                    if op == 'IntegralToBoolean':
                        T[x.id] = frozenset(int(bool(e)) for e in v)
                    else:
                        T[x.id] = frozenset(wrap(e, t) for e in v)
            else:
                v = self.value_of(E, sub)
                T[x.id] = v
        elif k == 'un':
            op = x.op
            sub = x.args[0]
            if op == '&':
                p = self.canon(E, sub)
                T[x.id] = fs(('&', p)) if p else TOP
            elif op == '*':
                pass  # lvalue
            elif op in ('pre++', 'pre--', 'post++', 'post--'):
                p = self.canon(E, sub)
                old = self.stored_or_input(E, p) if p and self.trackable(p) else TOP
                new = TOP
                if p and self.trackable(p):
                    # an address into an array steps exactly (bounded: beyond element 256 it becomes unknown)
                    ptr_only = old is not TOP and len(old) > 0 and all(isinstance(e, tuple) and ptr_add(e, 0) is not None and
                                                                       (e[0] == 'str' or -2 <= int(_IDX.match(e[1]).group(2)) <= 256) for e in old)
                    if old is not TOP and (self.hooks.precise_arith(p) or self.bounded_counter(p) or ptr_only):
                        d = 1 if '++' in op else -1
                        new = frozenset(wrap(e + d, x.type) if isinstance(e, int) else (lin_add(e, d) if is_lin(e) else (ptr_add(e, d) or e)) for e in old)
                    E.set(p, new)
                    self.hooks.on_assign(E, x, p, new)
                elif p:
                    self.hooks.on_assign(E, x, p, TOP)
                T[x.id] = old if op.startswith('post') else new
            else:
                v = self.value_of(E, sub)
                if v is TOP:
                    T[x.id] = BOOL if op == '!' else TOP
                elif op == '!':
                    T[x.id] = frozenset(int(not e) for e in v)
                elif op == '-':
                    T[x.id] = frozenset(wrap(-e, x.type) if isinstance(e, int) else e for e in v)
                elif op == '~':
                    T[x.id] = frozenset(wrap(~e, x.type) if isinstance(e, int) else e for e in v)
                elif op == '+':
                    T[x.id] = v
                else:
                    T[x.id] = TOP
        elif k == 'bin':
            op = x.op
            if op in ('&&', '||'):
                lhs = x.args[0].strip() if x.args[0] is not None else None
                lv = T.get(lhs.id) if lhs is not None else None
                if lv is None and x.args[0] is not None:
                    lv = T.get(x.args[0].id)
                decided = None
                if lv is not None and lv is not TOP and len(lv) == 1:
                    (e0,) = lv
                    t0 = bool(e0) if isinstance(e0, int) else True
                    if op == '||' and t0:
                        decided = 1
                    elif op == '&&' and not t0:
                        decided = 0
                rhs_x = x.args[1]
                rhs_seen = rhs_x is None or rhs_x.id in T or rhs_x.const is not None or (rhs_x.strip() is not None and rhs_x.strip().id in T)
                if x.id in T and T[x.id] is not TOP and len(T[x.id]) == 1:
                    pass        # fixed by the short-circuit edge taken on this path
                elif decided is not None:
                    T[x.id] = fs(decided)     # the left operand (itself a short-circuit result) already decides: a || b || c
                elif not rhs_seen:
                    # the operator is reached without its right operand having been evaluated on this path: short-circuit
                    T[x.id] = fs(1 if op == '||' else 0)
                else:
                    b = self.value_of(E, x.args[1]) if x.args[1] is not None and x.args[1].id in T else TOP
                    if b is TOP:
                        T[x.id] = BOOL
                    else:
                        T[x.id] = frozenset(int(bool(e)) if isinstance(e, int) else 1 for e in b)
                    T[('rhs', x.id)] = fs(1)      # on this path the value is the right operand's
                    # consumed: a later visit (loop) that short-circuits must not find this evaluation's right operand
                    T.pop(x.args[1].id, None)
                    if x.args[1].strip() is not None:
                        T.pop(x.args[1].strip().id, None)
            elif op == ',':
                T[x.id] = self.value_of(E, x.args[1])
            else:
                a = self.value_of(E, x.args[0])
                b = self.value_of(E, x.args[1])
                T[x.id] = self.binset(op, a, b, x.type)
        elif k == 'asg':
            lhs, rhs = x.args[0], x.args[1]
            p = self.canon(E, lhs)
            rv = self.value_of(E, rhs)
            if x.op != '=':
                op = x.op[:-1]
                if p and self.trackable(p) and (self.hooks.precise_arith(p) or self.bounded_counter(p)):
                    rv = self.binset(op, self.stored_or_input(E, p), rv, x.type)
                else:
                    rv = TOP
            if p is not None:
                if self.trackable(p):
                    # assigning a struct/pointer root forgets its sub-paths
                    # a whole-record assignment copies the known cells of the source record
                    copied = None
                    selfasg = False
                    if x.op == '=' and rv is TOP and rhs is not None:
                        rs = rhs
                        while rs is not None and rs.k == 'cast' and rs.args:
                            rs = rs.args[0]
                        rp = self.canon(E, rs) if rs is not None and rs.k in ('ref', 'mem', 'idx', 'un') else None
                        if rp and rp != p:
                            copied = {q[len(rp):]: v for q, v in E.store.items() if q.startswith(rp) and q[len(rp):len(rp) + 1] in ('.', '[')}
                        selfasg = bool(rp) and rp == p       # x = x (mx[i] = mx[--n] with i == n): the record keeps its cells
                    for q in [q for q in E.store if q != p and q.startswith(p) and q[len(p):len(p) + 1] in '.-[' and not selfasg]:
                        del E.store[q]
                    E.set(p, rv)
                    if copied:
                        for suf, v in copied.items():
                            if self.trackable(p + suf):
                                E.set(p + suf, v)
                self.hooks.on_assign(E, x, p, rv)
                if '[*]' in p:
                    base = p.split('[*]')[0]
                    for q in [q for q in E.store if q.startswith(base + '[')]:
                        del E.store[q]
            T[x.id] = rv
        elif k == 'decl':
            d = n.get('d')
            if d and x.args:
                p = self.qualify(x.fn, d)
                rv = self.value_of(E, x.args[0])
                if d.startswith('SL:') and p in E.store:
                    pass            # a static local is initialised once: a later call finds what the earlier one left
                elif self.trackable(p):
                    E.set(p, rv)
                    self.hooks.on_assign(E, x, p, rv)
                else:
                    self.hooks.on_assign(E, x, p, rv)
            elif d:
                p = self.qualify(x.fn, d)
                if d.startswith('SL:'):
                    if p not in E.store and self.trackable(p) and not any(q.startswith(p) for q in E.store) and '[' not in (n.get('t') or '') and 'struct' not in (n.get('t') or ''):
                        E.set(p, fs(0))      # a static scalar without initialiser starts as 0 and keeps what earlier calls stored
                else:
                    E.store.pop(p, None)
        elif k == 'cond':
            a = self.value_of(E, x.args[1]) if x.args[1] is not None else TOP
            b = self.value_of(E, x.args[2]) if x.args[2] is not None else TOP
            have_a = x.args[1] is not None and (x.args[1].id in T or x.args[1].const is not None)
            have_b = x.args[2] is not None and (x.args[2].id in T or x.args[2].const is not None)
            cv = self.value_of(E, x.args[0]) if x.args[0] is not None else TOP
            truth = None
            if cv is not TOP and cv:
                ts = {(bool(e) if isinstance(e, int) else True) for e in cv}
                if len(ts) == 1:
                    truth = next(iter(ts))
            if truth is True:
                T[x.id] = a if have_a else TOP
            elif truth is False:
                T[x.id] = b if have_b else TOP
            elif have_a and not have_b:
                T[x.id] = a
            elif have_b and not have_a:
                T[x.id] = b
            elif a is not TOP and b is not TOP:
                T[x.id] = a | b
            else:
                T[x.id] = TOP
            # the arms' temporaries belong to this evaluation only (loops would otherwise see stale ones)
            for arm in x.args[1:3]:
                if arm is not None:
                    T.pop(arm.id, None)
        elif k == 'call':
            return self.eval_call(E, x)
        elif k == 'ret':
            pass
        elif k in ('mem', 'idx'):
            pass
        else:
            T[x.id] = TOP
        self.hooks.on_elem(E, x)
        return None

    def load_from_literal(self, E, lv):
        """*p or p[i] where p is known to point to a string literal"""
        lv = lv.strip() if lv is not None else None
        if lv is None:
            return None
        if lv.k == 'un' and lv.op == '*':
            pv, idx = self.value_of(E, lv.args[0]), 0
        elif lv.k == 'idx':
            pv = self.value_of(E, lv.args[0])
            iv = self.value_of(E, lv.args[1])
            if iv is TOP or len(iv) != 1:
                return None
            idx = next(iter(iv))
        else:
            return None
        if pv is TOP or not pv:
            return None
        out = set()
        for a in pv:
            if isinstance(a, tuple) and a[0] == 'str' and isinstance(idx, int) and 0 <= idx <= len(a[1]):
                out.add(ord(a[1][idx]) if idx < len(a[1]) else 0)
            else:
                return None
        return frozenset(wrap(v, 'char') for v in out)

    def binset(self, op, a, b, t):
        cmp = op in ('==', '!=', '<', '<=', '>', '>=')
        if a is TOP or b is TOP:
            return BOOL if cmp else TOP
        if len(a) * len(b) > 65536:
            return BOOL if cmp else TOP
        out = set()
        for u in a:
            for v in b:
                if (is_lin(u) or is_lin(v)) and op in ('+', '-', '*'):
                    if op == '*':
                        r = lin_mul(u, v) if isinstance(v, int) else (lin_mul(v, u) if isinstance(u, int) else None)
                    else:
                        r = lin_add(u, v, 1 if op == '+' else -1)
                elif op in ('+', '-') and isinstance(u, tuple) and isinstance(v, int):
                    r = ptr_add(u, v if op == '+' else -v)
                elif op == '+' and isinstance(v, tuple) and isinstance(u, int):
                    r = ptr_add(v, u)
                else:
                    r = binop(op, u, v, t)
                if r is None:
                    return BOOL if cmp else TOP
                out.add(r)
                if len(out) > MAXSET:
                    return BOOL if cmp else TOP
        return frozenset(out)

    # ------------------------------------------------------------------ calls
    def eval_call(self, E, x):
        if x.n.get('f') is None and x.n.get('fe') is not None and not getattr(self.hooks, 'keep_indirect', False):
            # a call through a pointer whose value is one known function is a call of that function
            fv = E.temps.get(x.n['fe'], TOP)
            if fv is TOP:
                try:
                    # (*fp)(...) and (**fp)(...) call what fp points to: dereferencing a function pointer gives the function again
                    fx = x.fn.x(x.n['fe'])
                    while fx is not None:
                        fv = self.value_of(E, fx)
                        if fv is not TOP:
                            break
                        if fx.args and (fx.k in ('paren',) or (fx.k == 'cast' and fx.op != 'LValueToRValue') or (fx.k == 'un' and fx.op == '*')):
                            fx = fx.args[0]
                        else:
                            break
                except Exception:
                    fv = TOP
            if fv is not TOP and len(fv) == 1:
                (a,) = fv
                if isinstance(a, tuple) and a[0] == 'fn' and (self.prog.resolve(a[1], x.fn.unit) is not None or hasattr(self.hooks, 'prim_' + a[1])):
                    x.n['f'] = 'F:' + a[1]
                    try:
                        return self.eval_call(E, x)
                    finally:
                        x.n['f'] = None
        args = [self.value_of(E, a) for a in x.args]
        res = self.hooks.on_call(E, x, args)
        if res == 'noreturn':
            self.hooks.on_exit(E, x)
            return 'end'
        if res is not None:
            outs = []
            for o in res:
                if len(res) == 1:
                    E2 = E
                else:
                    E2 = Env(self, E.frame, dict(E.store), dict(E.temps), E.trace)
                for r in o.havoc:
                    E2.havoc_root(r)
                for p, v in o.sets.items():
                    E2.set(p, v)
                if o.log:
                    E2.log('%s: %s' % (x.where, o.log))
                if o.apply:
                    o.apply(E2)
                if o.noreturn:
                    self.hooks.on_exit(E2, x)
                    continue
                E2.temps[x.id] = o.ret
                outs.append(E2)
            if len(res) == 1 and outs:
                return None
            return outs if outs else 'end'
        name = x.callee
        callee = self.prog.resolve(name, x.fn.unit) if name else None
        depth = len(self.stack)
        if callee is not None and callee.blocks and callee not in [f for f, _ in self.stack] \
                and self.hooks.inline(callee, depth) and depth < self.hooks.inline_depth + 1:
            return self.inline_call(E, x, callee, args)
        # not inlined
        if name and self.db.is_noreturn_call(x):
            self.hooks.on_exit(E, x)
            return 'end'
        self.default_havoc(E, x, callee, args)
        E.temps[x.id] = TOP
        return None

    def default_havoc(self, E, x, callee, args):
        for a, v in zip(x.args, args):
            if v is not TOP:
                for e in v:
                    if isinstance(e, tuple) and e[0] == '&' and e[1]:
                        r = root_of(e[1])
                        E.havoc_root(r)
        if callee is not None:
            ms = self.modset(callee)
            if '*' in ms:
                for p in [p for p in E.store if '::' not in root_of(p)]:
                    del E.store[p]
            else:
                for p in [p for p in E.store if root_of(p) in ms]:
                    del E.store[p]
        elif x.callee is None:
            for p in [p for p in E.store if '::' not in root_of(p)]:
                del E.store[p]

    def inline_call(self, E, x, callee, args):
        fid = self.frame_id(callee)
        store = dict(E.store)
        for p in [p for p in store if p.startswith(fid + '::')]:
            del store[p]
        self.escaped(callee)
        for pid, v in zip(callee.params, args):
            p = '%s::%s' % (fid, pid)
            if v is not TOP and self.trackable(p):
                store[p] = v
        outs = self.run_function(callee, store, E.trace)
        res = []
        for kind, st, ret, tr in outs:
            if kind != 'ret':
                continue
            st = {p: v for p, v in st.items() if not p.startswith(fid + '::')}
            E2 = Env(self, E.frame, st, dict(E.temps), tr)
            E2.temps[x.id] = ret
            res.append(E2)
        return res if res else 'end'

    # ------------------------------------------------------------------ exploration
    def run_function(self, fn, store, trace=None, top=False):
        """-> list of (kind, store, retval, trace); kind 'ret' only (noreturn paths end inside)"""
        self.escaped(fn)
        self.note_function(fn)
        key = (fn.unit, fn.name, self.freeze(store))
        if key in self.summaries and not top:
            cached = self.summaries[key]
            return [(k, dict(s), r, Trace(trace, '(as before: %s)' % fn.name)) for k, s, r, _ in cached]
        self.stack.append((fn, None))
        live = self.liveness(fn)
        fid = self.frame_id(fn)
        results = []
        seen = set()
        work = deque()
        work.append((fn.entry, 0, store, {}, trace))
        while work:
            bid, idx, st, temps, tr = work.popleft()
            if idx == 0:
                # drop dead locals at block entry
                lv = live.get(bid, ())
                if not self.keep_dead:
                    st = {p: v for p, v in st.items()
                          if not p.startswith(fid + '::') or root_of(p).split('::', 1)[1][:2] not in ('L:', 'P:')
                          or root_of(p).split('::', 1)[1] in lv}
                temps = self.prune_temps(fn, bid, temps)
            skey = (bid, idx, self.freeze(st), self.freeze(temps))
            if skey in seen:
                continue
            seen.add(skey)
            self.states += 1
            if self.states > self.max_states:
                raise AnalysisBroken('state budget exceeded in %s' % fn.name)
            blk = fn.blocks[bid]
            E = Env(self, fn, dict(st), dict(temps), tr)
            split = None
            i = idx
            ended = False
            while i < len(blk.elems):
                x = fn.x(blk.elems[i]['i'])
                r = self.eval_elem(E, x)
                i += 1
                if E.dead:
                    ended = True
                    break
                if r == 'end':
                    ended = True
                    break
                if r is not None:
                    for E2 in r:
                        if E2.dead:
                            continue
                        self.transitions += 1
                        work.append((bid, i, E2.store, E2.temps, E2.trace))
                    ended = True
                    break
                if x.k == 'ret':
                    rv = self.value_of(E, x.args[0]) if x.args else TOP
                    if top:
                        self.hooks.on_return(E, fn, rv)
                    results.append(('ret', dict(E.store), rv, E.trace))
                    ended = True
                    break
            if ended:
                continue
            if bid == fn.exit or not blk.succs:
                if bid == fn.exit or (not blk.noreturn):
                    if top:
                        self.hooks.on_return(E, fn, TOP)
                    results.append(('ret', dict(E.store), TOP, E.trace))
                continue
            # branch
            self.branch(fn, blk, E, work)
        self.stack.pop()
        # de-duplicate outcomes
        uniq = {}
        for k, s, r, t in results:
            kk = (k, self.freeze(s), r)
            if kk not in uniq:
                uniq[kk] = (k, s, r, t)
        res = list(uniq.values())
        self.summaries[key] = res
        return res

    def prune_temps(self, fn, bid, temps):
        """temps needed across blocks: only operands of cond/&&/|| elements; keep those"""
        if not temps:
            return temps
        need = self._xblock_need(fn)
        return {k: v for k, v in temps.items() if k in need or (isinstance(k, tuple) and k[1] in need)}

    def _xblock_need(self, fn):
        r = getattr(fn, '_xneed', None)
        if r is None:
            r = set()
            for n in fn.nodes.values():
                if n['k'] == 'cond' or (n['k'] == 'bin' and n.get('op') in ('&&', '||', ',')):
                    for a in n.get('a', []):
                        if a is not None and a >= 0:
                            r.add(a)
                    r.add(n['i'])
            # an operand evaluated in one block and consumed in another (a ?: or && inside an index or an argument splits the
            # expression over several blocks): table[state][c == 'x' ? 0 : 1] needs the value of state loaded before the split
            pos = fn.pos
            for n in fn.nodes.values():
                pn = pos.get(n['i'])
                if pn is None:
                    continue
                todo = [a for a in n.get('a', []) if a is not None and a >= 0]
                while todo:
                    a = todo.pop()
                    pa = pos.get(a)
                    if pa is None:
                        sub = fn.nodes.get(a)
                        if sub is not None:
                            todo.extend(b for b in sub.get('a', []) if b is not None and b >= 0)
                    elif pa[0] != pn[0]:
                        r.add(a)
            fn._xneed = r
        return r

    def freeze(self, d):
        return tuple(sorted(d.items(), key=lambda kv: str(kv[0])))

    def branch(self, fn, blk, E, work):
        term = blk.term
        succs = blk.succs
        if term is None or 'cond' not in term or len(succs) < 2:
            for s in succs:
                if s is not None:
                    self.transitions += 1
                    work.append((s, 0, E.store, E.temps, E.trace))
            return
        cond = fn.x(term['cond'])
        cv = self.value_of(E, cond)
        if term['k'] == 'switch':
            labels = []
            for s in succs:
                lab = fn.blocks[s].label if s is not None else None
                labels.append(lab)
            taken = set()
            for s, lab in zip(succs, labels):
                if s is None:
                    continue
                if lab and lab['k'] == 'case' and lab.get('lo') is not None:
                    lo, hi = lab['lo'], lab['hi']
                    if cv is TOP:
                        sub = TOP
                        feasible = True
                    else:
                        sub = frozenset(e for e in cv if isinstance(e, int) and lo <= e <= hi)
                        feasible = bool(sub)
                        taken |= sub
                    if feasible:
                        E2 = Env(self, fn, dict(E.store), dict(E.temps), E.trace)
                        self.refine_to(E2, cond, sub if sub is not TOP else (fs(lo) if lo == hi else TOP))
                        E2.log('%s: switch (%s) case %s' % (cond.where, cond.src(), lo if lo == hi else '%s..%s' % (lo, hi)))
                        self.hooks.on_branch(E2, cond, ('case', lo, hi))
                        self.transitions += 1
                        work.append((s, 0, E2.store, E2.temps, E2.trace))
                else:
                    # default (or fall out of the switch)
                    if cv is TOP:
                        rest = TOP
                        feasible = True
                    else:
                        covered = set()
                        for lab2 in labels:
                            if lab2 and lab2['k'] == 'case' and lab2.get('lo') is not None:
                                covered |= {e for e in cv if isinstance(e, int) and lab2['lo'] <= e <= lab2['hi']}
                        rest = frozenset(cv - covered)
                        feasible = bool(rest)
                    if feasible:
                        E2 = Env(self, fn, dict(E.store), dict(E.temps), E.trace)
                        if rest is not TOP:
                            self.refine_to(E2, cond, rest)
                        E2.log('%s: switch (%s) default' % (cond.where, cond.src()))
                        self.hooks.on_branch(E2, cond, ('default',))
                        self.transitions += 1
                        work.append((s, 0, E2.store, E2.temps, E2.trace))
            return
        # two-way
        for k, truth in ((0, True), (1, False)):
            s = succs[k] if k < len(succs) else None
            if s is None:
                continue
            if cv is not TOP:
                if not any((bool(e) if isinstance(e, int) else True) == truth for e in cv):
                    continue
            E2 = Env(self, fn, dict(E.store), dict(E.temps), E.trace)
            ec, et = effective(cond, truth)
            if not self.refine(E2, ec, et):
                continue
            if term['k'] in ('&&', '||') and 'op' in term:
                # value-context logical operator: the short-circuit edge fixes its value
                if term['k'] == '||' and truth:
                    E2.temps[term['op']] = fs(1)
                    E2.temps.pop(('rhs', term['op']), None)
                elif term['k'] == '&&' and not truth:
                    E2.temps[term['op']] = fs(0)
                    E2.temps.pop(('rhs', term['op']), None)
                else:
                    E2.temps.pop(term['op'], None)
            # a branch on a logical operator whose value came from its right operand is a branch on that operand
            es = ec.strip() if ec is not None else None
            guard = 0
            while es is not None and es.k == 'bin' and es.op in ('&&', '||') and ('rhs', es.id) in E2.temps and es.args[1] is not None and guard < 4:
                ec, et = effective(es.args[1], et)
                self.refine(E2, ec, et)
                es = ec.strip() if ec is not None else None
                guard += 1
            E2.log('%s: (%s) is %s' % (cond.where, cond.src(), 'true' if truth else 'false'))
            self.hooks.on_branch(E2, ec, et)
            self.transitions += 1
            work.append((s, 0, E2.store, E2.temps, E2.trace))

    # ------------------------------------------------------------------ refinement
    def refine_to(self, E, cond, vals):
        """cond (a loaded path, possibly through pure unary ops) takes a value in vals"""
        if vals is TOP:
            return
        c = cond
        while c is not None and c.k == 'cast' and c.op != 'LValueToRValue' and c.args:
            c = c.args[0]
        if c is not None and c.k == 'cast' and c.op == 'LValueToRValue':
            p = self.canon(E, c.args[0])
            if p and self.trackable(p):
                old = E.store.get(p, TOP)
                if old is TOP:
                    if len(vals) <= MAXSET:
                        E.set(p, vals)
                else:
                    # cond may be a cast of the stored value; keep elements consistent with vals
                    keep = frozenset(e for e in old if self._through_casts(cond, c, e) in vals)
                    E.set(p, keep)
            return
        self.refine_single_var(E, cond, lambda v: v in vals)

    def _through_casts(self, outer, inner, e):
        chain = []
        c = outer
        while c is not inner and c is not None:
            chain.append(c)
            c = c.args[0] if c.args else None
        for c in reversed(chain):
            if c.op in ('IntegralCast',):
                e = wrap(e, c.type)
        return e

    def refine(self, E, cond, truth):
        """narrow the store so that cond evaluates to truth; False if infeasible"""
        c = cond.strip() if cond is not None else None
        if c is None:
            return True
        if c.k == 'un' and c.op == '!':
            return self.refine(E, c.args[0], not truth)
        ok = self.refine_single_var(E, cond, (lambda v: bool(v)) if truth else (lambda v: not v))
        return ok

    def refine_single_var(self, E, cond, pred):
        """if cond depends on exactly one tracked path with a finite value, filter that value
        by concrete evaluation of cond; if it is 'path == const' on a TOP path, set it"""
        loads = []
        pure = True
        stack = [cond]
        while stack:
            y = stack.pop()
            if y is None:
                continue
            if y.k == 'cast' and y.op == 'LValueToRValue':
                p = self.canon(E, y.args[0])
                loads.append((y, p))
                if p is not None and '[*]' not in p and self.trackable(p):
                    continue    # address sub-expressions of a resolved load are not inputs
            elif y.k in ('call', 'asg', 'stmtexpr') or (y.k == 'un' and y.op in ('pre++', 'pre--', 'post++', 'post--')):
                pure = False
            stack.extend(y.args)
        if not pure:
            return True
        paths = {p for _, p in loads}
        if len(paths) != 1:
            return True
        (p,) = paths
        if p is None or not self.trackable(p):
            return True
        old = E.store.get(p, TOP)
        if old is TOP:
            # x == c  (true)  or  x != c (false)  or !x / x
            def is_load(z):
                while z is not None and z.k == 'cast' and z.op != 'LValueToRValue' and z.args:
                    z = z.args[0]
                return z is not None and z.k == 'cast' and z.op == 'LValueToRValue'
            c = cond
            while c is not None and c.k == 'cast' and c.op != 'LValueToRValue' and c.args:
                c = c.args[0]
            want = None
            if c is not None and c.k == 'bin' and c.op in ('==', '!='):
                for a, b in ((c.args[0], c.args[1]), (c.args[1], c.args[0])):
                    if is_load(a) and b.const is not None:
                        if pred(1 if c.op == '==' else 0) and not pred(0 if c.op == '==' else 1):
                            want = fs(b.const)
            elif c is not None and is_load(c):
                if pred(0) and not pred(1):
                    want = fs(0)
            if want is not None:
                E.set(p, want)
            return True
        keep = set()
        for e in old:
            r = self.concrete(E, cond, {p: e})
            if r is None:
                keep.add(e)  # cannot evaluate: keep (sound)
            elif pred(r):
                keep.add(e)
        if not keep:
            return False
        E.set(p, frozenset(keep))
        return True

    def concrete(self, E, x, env):
        """concrete evaluation of a pure expression; env: path -> value. None if unknown"""
        k = x.k
        if k == 'int':
            return x.n['v']
        if 'cv' in x.n and k != 'call':
            return x.n['cv']
        if k == 'ref' and 'v' in x.n:
            return x.n['v']
        if k == 'cast':
            if x.op == 'LValueToRValue':
                p = self.canon(E, x.args[0])
                if p in env:
                    return env[p]
                v = E.store.get(p, TOP) if p else TOP
                if v is not TOP and len(v) == 1:
                    return next(iter(v))
                return None
            v = self.concrete(E, x.args[0], env) if x.args and x.args[0] is not None else None
            if v is None:
                return None
            if x.op == 'IntegralCast':
                return wrap(v, x.type)
            if x.op in ('IntegralToBoolean', 'PointerToBoolean'):
                return int(bool(v))
            return v
        if k == 'un':
            v = self.concrete(E, x.args[0], env)
            if v is None or not isinstance(v, int):
                return None
            if x.op == '!': return int(not v)
            if x.op == '-': return wrap(-v, x.type)
            if x.op == '~': return wrap(~v, x.type)
            if x.op == '+': return v
            return None
        if k == 'bin':
            if x.args[0] is None or x.args[1] is None:
                return None
            a = self.concrete(E, x.args[0], env)
            b = self.concrete(E, x.args[1], env)
            if a is None or b is None:
                return None
            return binop(x.op, a, b, x.type)
        return None

    # ------------------------------------------------------------------ entry point
    def run(self, fn, store=None):
        if getattr(self.hooks, 'entry_unit', None) is None or True:
            try:
                self.hooks.entry_unit = fn.unit
            except AttributeError:
                pass
        res = self.run_function(fn, dict(store or {}), Trace(None, 'enter %s (%s)' % (fn.name, fn.unit)), top=True)
        return res
