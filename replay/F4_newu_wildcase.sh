#!/bin/sh
# Concrete replay of finding F4 (C11): qmail-newu records the wildcard break character in the
# case written in users/assign while qmail-lspawn compares it with the lower-cased local part.
# usage: F4_newu_wildcase.sh <source tree>    prints what qmail-lspawn would exec; exit 1 if the
# upper-case wildcard entry is not honoured.  Uses the harness of seeded/C11-2 (stubbed setuid/execv).
set -u
SRC=${1:?source tree}
HERE=/verif/seeded/C11-2
T=$(mktemp -d /var/tmp/f4.XXXXXX) || exit 2
trap 'rm -rf "$T"' EXIT INT TERM
mkdir "$T/src" "$T/q" "$T/q/users" "$T/q/bin"
cp -a "$SRC/." "$T/src/"; rm -rf "$T/src/.git"; cd "$T/src"; rm -f *.o *.a
echo "$T/q" > conf-qmail.new && tail -n +2 conf-qmail >> conf-qmail.new && mv conf-qmail.new conf-qmail
make qmail-newu qmail-lspawn.o prot.o slurpclose.o wait.a case.a cdb.a fd.a open.a stralloc.a ids.a substdio.a error.a str.a fs.a auto_qmail.o >"$T/build.log" 2>&1 || { tail "$T/build.log"; exit 2; }
cc -O1 -o "$T/harness" "$HERE/harness.c" qmail-lspawn.o prot.o slurpclose.o wait.a case.a cdb.a fd.a open.a stralloc.a ids.a substdio.a error.a str.a fs.a auto_qmail.o >>"$T/build.log" 2>&1 || { tail "$T/build.log"; exit 2; }
cat > "$T/q/users/assign" <<'EOT'
+teamA:alice:1001:1001:/home/alice:::
+teamb:bob:1002:1002:/home/bob:::
.
EOT
./qmail-newu || exit 2
a=$("$T/harness" teamAxy example.com); b=$("$T/harness" teambxy example.com)
echo "teamAxy -> $a"; echo "teambxy -> $b"
case "$a" in *"[alice]"*) exit 0;; *) echo "F4: entry +teamA: is not honoured for teamAxy"; exit 1;; esac
