#!/bin/sh
# Concrete replay of finding F12 (C07): qmail-smtpd counts Received:/Delivered-To: fields on the bytes as they arrive,
# before the leading dot of a dot-stuffed line is removed.  A header line sent as ".Received: x" is not counted, but it is
# stored as "Received: x": a message with 150 such lines is acknowledged with 250 and queued with 150 Received fields
# (plus the server's own), although "100 or more Received/Delivered-To fields queue nothing".
# usage: F12_smtpd_hops_dotstuffed.sh <source tree>
#   exit 0: the message is refused (554 ... looping) and nothing is queued;  exit 1: the finding
set -u
SRC=${1:?source tree}
T=$(mktemp -d /var/tmp/f12.XXXXXX) || exit 2
trap 'rm -rf "$T"' EXIT INT TERM
mkdir -p "$T/src" "$T/q/control"
cp -a "$SRC/." "$T/src/"; rm -rf "$T/src/.git"; cd "$T/src"; rm -f *.o *.a
echo "$T/q" > conf-qmail.new && tail -n +2 conf-qmail >> conf-qmail.new && mv conf-qmail.new conf-qmail
make qmail-smtpd >"$T/build.log" 2>&1 || { tail "$T/build.log"; exit 2; }
echo me.example > "$T/q/control/me"; echo me.example > "$T/q/control/rcpthosts"
cat > "$T/qq.sh" <<'EOT'
#!/bin/sh
cat > "$QQMSG"
cat <&1 >/dev/null
exit 0
EOT
chmod +x "$T/qq.sh"
{
  printf 'HELO x\r\nMAIL FROM:<a@b>\r\nRCPT TO:<c@me.example>\r\nDATA\r\n'
  i=0; while [ $i -lt 150 ]; do printf '.Received: hop %d\r\n' $i; i=$((i+1)); done
  printf 'Subject: t\r\n\r\nbody\r\n.\r\nQUIT\r\n'
} | QQMSG="$T/msg" QMAILQUEUE="$T/qq.sh" TCPREMOTEIP=1.2.3.4 ./qmail-smtpd > "$T/out.txt" 2>&1
tail -3 "$T/out.txt"
n=0; [ -f "$T/msg" ] && n=$(grep -c '^Received:' "$T/msg")
echo "Received fields at line start in the message handed to the queue program: $n"
if grep -q '^250 ok [0-9]' "$T/out.txt" && [ "$n" -ge 100 ]; then echo "F12: a message with $n Received fields was acknowledged and queued"; exit 1; fi
grep -q '^554 ' "$T/out.txt" && exit 0
exit 2
