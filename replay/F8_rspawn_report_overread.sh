#!/bin/sh
# Concrete replay of finding F8 (C09/C20): qmail-rspawn's report() writes the text behind the first
# per-message letter with substdio_puts(), i.e. up to the next NUL wherever that is.  If the delivery
# program's output does not end in NUL ("K\0K": one recipient report, then a message report cut off
# after its letter) the string starts AT the end of the collected output and report() reads behind it:
#  (a) with the output in an exactly sized heap block AddressSanitizer reports the read;
#  (b) with the spawner's own buffer handling (spawn.c: the slot's stralloc is emptied with
#      stralloc_copys(..,"") and reused) the bytes relayed to qmail-send are what an EARLIER delivery
#      in the same slot left behind.
# usage: F8_rspawn_report_overread.sh <source tree>
#   exit 0: report() relays only bytes of the output it was given;  exit 1: the finding
set -u
SRC=${1:?source tree}
T=$(mktemp -d /var/tmp/f8.XXXXXX) || exit 2
trap 'rm -rf "$T"' EXIT INT TERM
mkdir "$T/src"
cp -a "$SRC/." "$T/src/"; rm -rf "$T/src/.git"; cd "$T/src"; rm -f *.o *.a
make substdio.a stralloc.a error.a str.a wait.a fd.a env.a >"$T/build.log" 2>&1 || { tail "$T/build.log"; exit 2; }
cat > harness.c <<'EOT'
#include <stdio.h>
#include <stdlib.h>
#include <string.h>
#include "stralloc.h"
#include "substdio.h"
/* the program under test: qmail-rspawn.c's report(); the rest of the file is not called */
#define initialize rs_initialize
#define spawn rs_spawn
#include "qmail-rspawn.c"
uid_t auto_uidq;
uid_t inituid(char *u) { (void)u; return 0; } void tcpto_clean() {}
char auto_userq[] = "q"; char auto_qmail[] = "/";
static char got[4096]; static int gotlen;
static ssize_t collect(int fd,const char *b,size_t n) { (void)fd; if (gotlen + n > sizeof got) n = sizeof got - gotlen; memcpy(got + gotlen,b,n); gotlen += n; return n; }
static void show(const char *what)
{ int i; printf("%s: ",what); for (i = 0;i < gotlen;++i) if (got[i] >= 32 && got[i] < 127) putchar(got[i]); else printf("\\%o",(unsigned char) got[i]); putchar('\n'); }
int main(int argc,char **argv)
{
  static char sbuf[64]; substdio ss;
  substdio_fdbuf(&ss,collect,1,sbuf,sizeof sbuf);
  if (argc > 1)
   { /* (a) exactly sized block */
    char *o = malloc(3); memcpy(o,"K\0K",3);
    report(&ss,0,o,3); substdio_flush(&ss); show("exact block");
    return 0;
   }
  { /* (b) the way spawn.c keeps the output of a slot */
    static stralloc out = {0};
    static const char first[] = "rfirst.example accepted\0Kfirst.example said: 250 ok SECRET-OF-THE-FIRST-DELIVERY\n";
    stralloc_copys(&out,""); stralloc_catb(&out,first,sizeof first);          /* delivery 1, well formed (ends in NUL) */
    report(&ss,0,out.s,out.len); substdio_flush(&ss); show("delivery 1"); gotlen = 0;
    stralloc_copys(&out,""); stralloc_catb(&out,"K\0K",3);                      /* delivery 2 in the same slot */
    report(&ss,0,out.s,out.len); substdio_flush(&ss); show("delivery 2");
    if (gotlen > 1) { printf("F8: %d byte(s) that are not part of delivery 2's output were relayed\n",gotlen - 1); return 1; }
  }
  return 0;
}
EOT
LIBS="substdio.a stralloc.a error.a str.a wait.a fd.a env.a"
clang -fsanitize=address -g -O0 -w -I. -o harness harness.c $LIBS >>"$T/build.log" 2>&1 || { tail -20 "$T/build.log"; exit 2; }
ASAN_OPTIONS=detect_leaks=0 ./harness exact > "$T/a.txt" 2>&1
grep -E "exact block|ERROR: AddressSanitizer|READ of size|is located" "$T/a.txt" | head -5
ASAN_OPTIONS=detect_leaks=0 ./harness > "$T/b.txt" 2>&1; rcb=$?
grep -E "delivery|F8" "$T/b.txt" | head -5
if grep -q "heap-buffer-overflow" "$T/a.txt" || [ $rcb -eq 1 ]; then echo "F8: report() reads behind the output it was given"; exit 1; fi
[ $rcb -eq 0 ] && exit 0
cat "$T/b.txt" | tail; exit 2
