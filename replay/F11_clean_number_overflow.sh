#!/bin/sh
# Concrete replay of finding F11 (C18): qmail-clean validates that a request's id consists of digits and then takes
# scan_ulong()'s value, which wraps modulo 2^64.  The request "foop/18446744073709551617" (2^64 + 1) is answered "+"
# and removes intd/1 and mess/1/1 - the files of message 1, not of the number named in the request.
# usage: F11_clean_number_overflow.sh <source tree>
#   exit 0: the request is refused (x) and message 1 is untouched;  exit 1: the finding
set -u
SRC=${1:?source tree}
T=$(mktemp -d /var/tmp/f11.XXXXXX) || exit 2
trap 'rm -rf "$T"' EXIT INT TERM
mkdir -p "$T/src" "$T/q/queue/intd" "$T/q/queue/mess/1" "$T/q/queue/todo" "$T/q/queue/pid"
cp -a "$SRC/." "$T/src/"; rm -rf "$T/src/.git"; cd "$T/src"; rm -f *.o *.a
echo "$T/q" > conf-qmail.new && tail -n +2 conf-qmail >> conf-qmail.new && mv conf-qmail.new conf-qmail
make qmail-clean >"$T/build.log" 2>&1 || { tail "$T/build.log"; exit 2; }
echo envelope > "$T/q/queue/intd/1"; echo message > "$T/q/queue/mess/1/1"
ans=$(printf 'foop/18446744073709551617\0' | ./qmail-clean)
echo "request: foop/18446744073709551617   answer: $ans"
ls "$T/q/queue/intd" "$T/q/queue/mess/1" | tr '\n' ' '; echo
if [ ! -e "$T/q/queue/intd/1" ] || [ ! -e "$T/q/queue/mess/1/1" ]; then echo "F11: the files of message 1 were removed for a request naming 18446744073709551617"; exit 1; fi
[ "$ans" = "x" ] && exit 0
exit 2
