#!/bin/sh
# Concrete replay of finding F7 (C20): dns.c findip()/findmx() read the data of a resource record without
# checking that it lies inside the response.  A 512-byte answer whose last A record is cut off right after
# its fixed header (rdlength says 4) makes qmail-remote's resolver read 3 bytes behind its 513-byte buffer.
# usage: F7_dns_rdata_overread.sh <source tree>   exit 0: the truncated record is refused (DNS_SOFT);
#        exit 1: AddressSanitizer reports the read outside the buffer (the finding)
set -u
SRC=${1:?source tree}
T=$(mktemp -d /var/tmp/f7.XXXXXX) || exit 2
trap 'rm -rf "$T"' EXIT INT TERM
mkdir "$T/src"
cp -a "$SRC/." "$T/src/"; rm -rf "$T/src/.git"; cd "$T/src"; rm -f *.o *.a
make ipalloc.o ip.o stralloc.a str.a fs.a case.a error.a >"$T/build.log" 2>&1 || { tail "$T/build.log"; exit 2; }
cat > harness.c <<'EOT'
#include <stdio.h>
#include <string.h>
#include "dns.c"
static unsigned char pkt[512];
static int fake(const char *n,int c,int t,unsigned char *ans,int anslen)
{ (void)n; (void)c; (void)t; if (anslen < 512) return -1; memcpy(ans,pkt,512); return 512; }
static int putname(unsigned char *p,int wire)
{ int n = 0; wire -= 1; while (wire > 0) { int l = wire - 1; if (l > 63) l = 63; p[n++] = l; memset(p + n,'a',l); n += l; wire -= l + 1; } p[n++] = 0; return n; }
int main(void)
{
  static stralloc dom = {0}; static ipalloc ia = {0};
  int n = 12, r;
  memset(pkt,0,sizeof pkt);
  pkt[2] = 0x80;                      /* response */
  pkt[5] = 2;                         /* qdcount = 2 (padding) */
  pkt[7] = 1;                         /* ancount = 1 */
  n += putname(pkt + n,255); n += 4;  /* question 1 */
  n += putname(pkt + n,226); n += 4;  /* question 2 */
  pkt[n++] = 0;                       /* answer: root name */
  pkt[n++] = 0; pkt[n++] = 1;         /* type A */
  pkt[n++] = 0; pkt[n++] = 1;         /* class IN */
  n += 4;                             /* ttl */
  pkt[n++] = 0; pkt[n++] = 4;         /* rdlength 4 ... and the packet ends here */
  if (n != 512) { printf("harness: packet is %d bytes\n",n); return 2; }
  lookup = fake;
  stralloc_copys(&dom,"example.test");
  r = dns_ip(&ia,&dom);
  printf("dns_ip -> %d (DNS_SOFT is %d), %d address(es)\n",r,DNS_SOFT,ia.len);
  return 0;
}
EOT
clang -fsanitize=address -g -O0 -w -I. -o harness harness.c ipalloc.o ip.o stralloc.a str.a fs.a case.a error.a -lresolv >>"$T/build.log" 2>&1 || { tail -20 "$T/build.log"; exit 2; }
ASAN_OPTIONS=detect_leaks=0 ./harness > "$T/out.txt" 2>&1; rc=$?
grep -E "dns_ip|ERROR: AddressSanitizer|READ of size|is located" "$T/out.txt" | head -6
if grep -q "heap-buffer-overflow" "$T/out.txt"; then echo "F7: the resolver reads behind its response buffer"; exit 1; fi
[ $rc -eq 0 ] && exit 0
exit 2
