#!/bin/sh
# Concrete replay of finding F10 (C19): qmail-pop3d's msgno() takes whatever scan_ulong() makes of the argument.
# scan_ulong() has no overflow check and stops at the first non-digit without telling, so
#   DELE 18446744073709551617   (2^64 + 1: far out of range)  is taken for message 1, and
#   DELE 2junk                  (not a number)                is taken for message 2:
# both are answered +OK and the messages are removed at QUIT.
# usage: F10_pop3d_msgno_overflow.sh <source tree>
#   exit 0: both commands are refused and no message is removed;  exit 1: the finding
set -u
SRC=${1:?source tree}
T=$(mktemp -d /var/tmp/f10.XXXXXX) || exit 2
trap 'rm -rf "$T"' EXIT INT TERM
mkdir -p "$T/src" "$T/md/new" "$T/md/cur" "$T/md/tmp"
cp -a "$SRC/." "$T/src/"; rm -rf "$T/src/.git"; cd "$T/src"; rm -f *.o *.a
make qmail-pop3d >"$T/build.log" 2>&1 || { tail "$T/build.log"; exit 2; }
for k in 1 2 3; do printf 'Subject: m%s\n\nbody %s\n' $k $k > "$T/md/new/100000$k.$k.host"; done
touch -d "2 hours ago" "$T"/md/new/*; chmod -R a+rwX "$T"
# qmail-pop3d refuses to run as root: drop to nobody
python3 - "$T" <<'PY' > "$T/out.txt" 2>&1
import os, subprocess, sys
T = sys.argv[1]
def drop():
    os.setgid(65534); os.setuid(65534)
p = subprocess.run([T + '/src/qmail-pop3d', T + '/md'], input=b'STAT\r\nDELE 18446744073709551617\r\nDELE 2junk\r\nQUIT\r\n', stdout=subprocess.PIPE, stderr=subprocess.STDOUT, preexec_fn=drop, cwd=T)
sys.stdout.write(p.stdout.decode('latin-1'))
PY
cat "$T/out.txt"
left=$(ls "$T/md/new" "$T/md/cur" | grep -c host)
echo "messages left in the maildir: $left of 3"
oks=$(grep -c '^+OK' "$T/out.txt")
if [ "$left" -ne 3 ]; then echo "F10: a message number that is out of range / not a number removed a message"; exit 1; fi
[ "$oks" -ge 1 ] && exit 0
exit 2
