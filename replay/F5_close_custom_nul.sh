#!/bin/sh
# Concrete replay of finding F5 (C07): a queue program that exits 82 ("custom error text on descriptor 6")
# and writes a text whose first byte is NUL makes qmail_close() return that text; every caller tests the
# first byte of the result for success, so qmail-qmqpd answers "K..." although nothing was queued.
# usage: F5_close_custom_nul.sh <source tree>   exit 0: negative reply (Z/D); exit 1: positive reply (the defect)
set -u
SRC=${1:?source tree}
T=$(mktemp -d /var/tmp/f5.XXXXXX) || exit 2
trap 'rm -rf "$T"' EXIT INT TERM
mkdir "$T/src" "$T/q"
cp -a "$SRC/." "$T/src/"; rm -rf "$T/src/.git"; cd "$T/src"; rm -f *.o *.a
echo "$T/q" > conf-qmail.new && tail -n +2 conf-qmail >> conf-qmail.new && mv conf-qmail.new conf-qmail
make qmail-qmqpd >"$T/build.log" 2>&1 || { tail "$T/build.log"; exit 2; }
cat > "$T/qq.sh" <<'EOT'
#!/bin/sh
# reads message (fd 0) and envelope (fd 1), queues nothing, refuses with a custom text that starts with NUL
cat >/dev/null
cat <&1 >/dev/null
printf '\000Dno such user\n' >&6
exit 82
EOT
chmod +x "$T/qq.sh"
# QMQP request: message "hi\n", sender "a@b", one recipient "c@d"
req='3:hi
,3:a@b,3:c@d,'
out=$(printf '%s:%s,' "${#req}" "$req" | QMAILQUEUE="$T/qq.sh" ./qmail-qmqpd)
echo "queue program: exit 82, descriptor 6 text = NUL \"Dno such user\""
echo "qmail-qmqpd reply: $out"
case "$out" in
  *:K*) echo "F5: positive acknowledgement although the queue program refused the message"; exit 1;;
  *:Z*|*:D*) exit 0;;
  *) echo "unexpected reply"; exit 2;;
esac
