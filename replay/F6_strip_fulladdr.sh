#!/bin/sh
# Concrete replay of finding F6 (C14): a recipient routed by a full-address virtualdomains entry
# (user@domain:prefix) is named in the bounce WITH the prefix: stripvdomprepend() tries the domain, its
# dot suffixes and the catch-all entry, but never the whole address, which rewrite() tries first.
# usage: F6_strip_fulladdr.sh <source tree>   exit 0: prefix removed; exit 1: prefix kept (the finding)
set -u
SRC=${1:?source tree}
T=$(mktemp -d /var/tmp/f6.XXXXXX) || exit 2
trap 'rm -rf "$T"' EXIT INT TERM
mkdir "$T/src"
cp -a "$SRC/." "$T/src/"; rm -rf "$T/src/.git"; cd "$T/src"; rm -f *.o *.a
make qmail-send >"$T/build.log" 2>&1 || { tail "$T/build.log"; exit 2; }
head -n $(grep -n '^int main(' qmail-send.c | sed 's/:.*//') qmail-send.c | sed '/^int main(/d' > qs_nomain.c
cat > harness.c <<'EOT'
#include <stdio.h>
#include <string.h>
#include "qs_nomain.c"
static char tab[] = "bob@full.example:fullpre\0example.net:hosting\0";
int main(void)
{
  static stralloc a = {0};
  char *r;
  if (!constmap_init(&mapvdoms,tab,sizeof(tab) - 1,1)) return 2;
  if (!constmap_init(&maplocals,"",0,0)) return 2;
  if (!constmap_init(&mappercenthack,"",0,0)) return 2;
  stralloc_copys(&envnoathost,"me.example");
  /* what routing makes of the two addresses */
  rewrite("bob@full.example");  printf("rewrite(bob@full.example)   -> %s\n",rwline.s);
  stralloc_copys(&a,rwline.s + 1); stralloc_0(&a);   /* rwline = "T" address NUL */
  r = stripvdomprepend(a.s);    printf("bounce names it as          -> %s\n",r);
  rewrite("carol@example.net"); printf("rewrite(carol@example.net)  -> %s\n",rwline.s);
  printf("bounce names it as          -> %s\n",stripvdomprepend(rwline.s + 1));
  return strcmp(r,"bob@full.example") ? 1 : 0;
}
EOT
./compile harness.c >>"$T/build.log" 2>&1 || { tail "$T/build.log"; exit 2; }
./load harness qsutil.o control.o constmap.o newfield.o prioq.o trigger.o fmtqfn.o quote.o readsubdir.o qmail.o date822fmt.o datetime.a case.a ndelay.a getln.a wait.a fd.a sig.a open.a lock.a stralloc.a substdio.a error.a str.a fs.a auto_qmail.o auto_split.o env.a >>"$T/build.log" 2>&1 || { tail "$T/build.log"; exit 2; }
./harness; rc=$?
[ $rc -eq 1 ] && echo "F6: the recipient of a full-address virtualdomains entry keeps its prefix in the bounce"
exit $rc
