#!/bin/sh
# Concrete replay of finding F9 (C07): qmail-qmtpd's recipient-length loop adds (byte - '0') for every byte before
# the colon, digit or not.  The recipient frame "1/:to@b.exxx," is read as a 9-byte recipient (1*10 + ('/'-'0') = 9)
# and acknowledged with K, although its length field is not a decimal number (malformed framing).
# usage: F9_qmtpd_rcptlen_nondigit.sh <source tree>
#   exit 0: the malformed frame ends the session without an acknowledgement;  exit 1: it is acknowledged (the finding)
set -u
SRC=${1:?source tree}
T=$(mktemp -d /var/tmp/f9.XXXXXX) || exit 2
trap 'rm -rf "$T"' EXIT INT TERM
mkdir -p "$T/src" "$T/q/control"
cp -a "$SRC/." "$T/src/"; rm -rf "$T/src/.git"; cd "$T/src"; rm -f *.o *.a
echo "$T/q" > conf-qmail.new && tail -n +2 conf-qmail >> conf-qmail.new && mv conf-qmail.new conf-qmail
make qmail-qmtpd >"$T/build.log" 2>&1 || { tail "$T/build.log"; exit 2; }
echo me.example > "$T/q/control/me"
cat > "$T/qq.sh" <<'EOT'
#!/bin/sh
# a queue program that accepts everything and records the envelope
cat >/dev/null
cat <&1 > "$QQENV"
exit 0
EOT
chmod +x "$T/qq.sh"
# QMTP: message netstring (LF mode), sender netstring, netstring of recipient netstrings
msg='
hi
'
rcpts='1/:to@b.exxx,'          # length field "1/" : not a number
req=$(printf '%s:%s,3:a@b,%s:%s,' "${#msg}" "$msg" "${#rcpts}" "$rcpts")
out=$(printf '%s' "$req" | QQENV="$T/env" QMAILQUEUE="$T/qq.sh" RELAYCLIENT= ./qmail-qmtpd; echo " exit=$?")
echo "request recipients: $rcpts"
echo "qmail-qmtpd: $out"
[ -f "$T/env" ] && { printf 'envelope handed to the queue program: '; tr '\000' '|' < "$T/env"; echo; }
case "$out" in
  *:K*) echo "F9: a recipient frame whose length field is not a decimal number is acknowledged"; exit 1;;
  *exit=100*) exit 0;;
  *) echo "unexpected outcome"; exit 2;;
esac
