"""C02 — every queue entry is always in a documented state (per-program ordering premises).

The invariant over interleavings and crash points is an execution property; what is decided
here are the per-program premises INTERNALS.md derives it from, on every path of every program:
creation order (qmail-queue), preprocessing order (todo_do), removal order (qmail-clean),
channel-file and message removal guards (job_close, messdone, injectbounce), garbage
collection guards (cleanup_do, cleanuppid), who-may-remove-what, single instance.
"""
from qv.core import AnalysisBroken
from qv.esp import Engine
from qv.lib import macro_const
from rules import qsend
from rules.qsend import attach


def age_guard(db, prog, fn, x, oss, nowpred):
    """the guards of x let through only files older than oss seconds"""
    from qv.esp import Env
    from qv.lib import QHooks
    eng = Engine(db, prog, QHooks())
    E = Env(eng, fn, {}, {}, None)
    ok_old = ok_young = None
    for c, t in fn.guards(x) or []:
        if 'st_atim' not in c.src():
            continue

        def ev(delta):
            env = {}
            for y in c.walk():
                if y.k == 'cast' and y.op == 'LValueToRValue':
                    p = eng.canon(E, y.args[0])
                    if p and 'st_atim' in p:
                        env[p] = 1000000
                    elif p and nowpred(p):
                        env[p] = 1000000 + delta
            return eng.concrete(E, c, env)
        young, old = ev(oss - 1), ev(oss + 1)
        if young is None or old is None:
            return False, 'age test %s cannot be evaluated' % c.src()
        ok_young = bool(young) != t
        ok_old = bool(old) == t
    if ok_old is None:
        return False, 'no age test on st_atime guards this removal'
    return ok_old and ok_young, 'age test lets a file of OSSIFIED-1 seconds through' if not ok_young else 'age test blocks old files'


def run(ctx):
    db, rep = ctx.db, ctx.report
    # 1. creation order in qmail-queue
    from rules import C01
    r1 = rep.rule('C02.1-creation-order', 'R-TYPESTATE', 'qmail-queue: mess complete+synced before intd is created, both synced before todo is linked; clean-up removes intd before mess; names derive from the inode')
    progq = db.program('qmail-queue')
    rules01 = {k: None for k in ()}
    H = C01.QueueHooks({})
    H.ADDR = None
    from qv.lib import macro_const as _mc
    H.precise = frozenset(C01.counter_vars(progq.fn('main', 'qmail-queue.c'), _mc(db, 'qmail-queue.c', 'ADDR')))
    eng = Engine(db, progq, H)
    eng.run(progq.fn('main', 'qmail-queue.c'))
    rep.count_states(eng.states, eng.transitions)
    want = {('C01.1-durability', 'mess-synced-before-intd-created'), ('C01.1-durability', 'mess-SYNCED-at-commit'),
            ('C01.1-durability', 'intd-SYNCED-at-commit'), ('C01.5-cleanup-order', 'intd-removed-before-mess'),
            ('C01.3-publish-once', 'commit-is-link(intd,todo)'), ('C01.4-name-is-inode', 'messnum-from-fstat'),
            ('C01.4-name-is-inode', 'mess-name-links-pid-file')}
    for (rule, inst), (ok, where, detail, path) in sorted(H.seen_sites.items()):
        if (rule, inst) in want or (rule == 'C01.4-name-is-inode' and inst.startswith('fnnum')):
            r1.check(ok, inst, where, detail, path)
    r1.expect_min(7)

    # 2. preprocessing order
    r2 = rep.rule('C02.2-preprocessing-order', 'R-TYPESTATE', 'todo_do: todo opened, mess seen, stale files removed, info and channel files written, flushed, fsynced, then the todo removal request; scheduled only after qmail-clean confirmed')
    td = qsend.analyse_todo_do(db, rep)
    attach(r2, td, only={'todo:removes-only-info-and-channel-files', 'todo:old-files-removed-only-after-todo-opened-and-mess-stat',
                         'todo:nothing-removed-after-files-are-being-written', 'todo:creates-only-info-and-channel-files',
                         'todo:request-names-todo', 'todo:request-only-after-the-whole-envelope-was-read',
                         'todo:info-SYNCED-before-todo-removal', 'todo:channel-files-SYNCED-before-todo-removal',
                         'todo:schedule-only-after-qmail-clean-confirmed', 'todo:scheduled-channel-has-a-durable-file',
                         'todo:pqdone-only-when-no-channel-file'})
    r2.expect_min(9)

    # 3. qmail-clean removal order
    from rules import C18
    r3 = rep.rule('C02.3-clean-removal-order', 'R-TABLE', 'qmail-clean: foop/ removes intd then mess, todo/ removes intd then todo; + only after the whole sequence; split flags agree with the writers')
    HC, _ = C18.explore_clean(db, rep)
    for inst, (ok, where, detail, path) in sorted(HC.sites.items()):
        if inst.startswith('removal-order:') or inst.startswith('plus-only-after') or inst in ('no-unlink-after-an-answer', 'unlink-path-is-prefix+validated-id'):
            r3.check(ok, inst, where, detail, path)
    # split flags: every fmtqfn/fnnum literal prefix uses one split flag across the three programs
    flags = {}

    def site_pairs(unitname, fn, la, fa, depth=0):
        """(prefix literal, split flag) pairs of one fmtqfn/fnnum call: its own arguments, or, where one is a parameter
        of fn, the matching arguments of every call of fn in the unit (both taken from the same call)"""
        lit, fl = la.string, fa.const
        lp, fp = la.strip().path(), fa.strip().path()
        lk = fn.params.index(lp) if lit is None and lp in fn.params else None
        fk = fn.params.index(fp) if fl is None and fp in fn.params else None
        if (lk is None and fk is None) or depth >= 3:
            return [(lit, fl)] if lit is not None and fl is not None else []
        out = []
        for g in db.unit(unitname).functions.values():
            for cc in g.calls(fn.name):
                if max(k for k in (lk, fk) if k is not None) < len(cc.args):
                    out.extend(site_pairs(unitname, g, cc.args[lk] if lk is not None else la, cc.args[fk] if fk is not None else fa, depth + 1))
        return out
    for unit in ('qmail-queue.c', 'qmail-send.c', 'qmail-clean.c'):
        for fn in db.unit(unit).functions.values():
            for c in fn.calls(('fmtqfn', 'fnnum')):
                li, fi = (1, 3) if c.callee == 'fmtqfn' else (0, 1)
                for lit, fl in site_pairs(unit, fn, c.args[li], c.args[fi]):
                    flags.setdefault(lit, set()).add((fl != 0, '%s:%s' % (unit, fn.name)))
    for lit, s in sorted(flags.items()):
        vals = {v for v, _ in s}
        r3.check(len(vals) == 1, 'split-flag-agreement:%s' % (lit or '""'), 'fmtqfn', 'prefix %r is built with different split flags: %s' % (lit, sorted(s)))
    r3.check({'mess/', 'intd/', 'todo/', 'info/'} <= set(flags), 'split-flag-table-complete', 'fmtqfn', 'prefixes found: %s' % sorted(flags))
    r3.expect_min(8)

    # 4. channel file removal
    r4 = rep.rule('C02.4-channel-file-removal', 'R-GUARD', 'job_close: a channel file is unlinked only after it was read to EOF, with no recipient outstanding and no delivery referencing the job')
    attach(r4, qsend.analyse_job_close(db, rep), prefixes=['jc:'])
    # numtodo == 0 means "every recipient read so far is done" only if every T record is counted before its delivery may be refused
    attach(r4, qsend.analyse_pass_dochan(db, rep), only={'pass:numtodo-counted-before-del_start', 'pass:T-record-starts-one-delivery-attempt', 'pass:flaghiteof-only-at-end-of-file'})
    r4.expect_min(5)

    # 5. message removal
    r5 = rep.rule('C02.5-message-removal', 'R-ORDER', 'messdone/injectbounce: info is unlinked only after both channel files and todo are gone and the bounce was handled; bounce/<n> removed only after the notice was queued; foop request after info is gone')
    attach(r5, qsend.analyse_messdone(db, rep), prefixes=['md:'])
    attach(r5, qsend.analyse_injectbounce(db, rep), only={'ib:bounce-file-removed-only-after-notice-queued-or-triple-bounce', 'ib:returns-1-only-when-bounce-file-is-gone'})
    r5.expect_min(6)

    # 6. garbage collection
    r6 = rep.rule('C02.6-garbage-collection', 'R-GUARD', 'cleanup_do/cleanuppid: only files older than OSSIFIED with no info and no todo are handed to qmail-clean; OSSIFIED agrees and exceeds qmail-queue\'s DEATH')
    # the 24-hour timer of qmail-queue can end it only if SIGALRM is not blocked: the inherited mask is reset
    from rules import libtab as _lt
    for inst_, v_ in sorted(_lt.sig_blocknone_sites(db, rep, db.program('qmail-queue')).items()):
        r6.check(v_[0], inst_, v_[1], v_[2], v_[3])
    attach(r6, qsend.analyse_cleanup_do(db, rep), prefixes=['gc:'])
    oss_s = macro_const(db, 'qmail-send.c', 'OSSIFIED')
    oss_c = macro_const(db, 'qmail-clean.c', 'OSSIFIED')
    death = macro_const(db, 'qmail-queue.c', 'DEATH')
    r6.check(oss_s == oss_c and oss_s > death, 'OSSIFIED-agrees-and-exceeds-DEATH', 'qmail-send.c/qmail-clean.c', 'OSSIFIED %d / %d, DEATH %d' % (oss_s, oss_c, death))
    pc = db.program('qmail-clean')
    cp = pc.fn('cleanuppid', 'qmail-clean.c')
    uls = cp.calls('unlink')
    if not uls:
        raise AnalysisBroken('cleanuppid: unlink not found')
    for u in uls:
        ok, why = age_guard(db, pc, cp, u, oss_c, lambda p: 'st_atim' not in p)     # the other operand of the age test is the current time, whatever it is called
        r6.check(ok, 'cleanuppid:only-pid-files-older-than-OSSIFIED', u.where, why)
        st = [c for c in cp.calls('stat') if cp.dominates(c, u)]
        r6.check(bool(st) and u.args[0].sx() == st[0].args[0].sx(), 'cleanuppid:removes-the-file-it-examined', u.where, 'unlink(%s) vs stat(%s)' % (u.args[0].src(), st[0].args[0].src() if st else '?'))
        # whichever library routine starts the name (stralloc_copys, stralloc_copyb, ...): the literal "pid/" goes into the buffer on every way to the unlink
        pref = [c for c in cp.all_x() if c.k == 'call' and any(a.string == 'pid/' for a in c.args[1:]) and cp.dominates(c, u)]
        r6.check(bool(pref), 'cleanuppid:name-is-under-pid/', u.where, 'the removed name is not built from the literal "pid/"')
    r6.expect_min(6)

    # 7. who may remove what
    r7 = rep.rule('C02.7-who-may-remove-what', 'R-EFFECT', 'qmail-send.c: every mutating file primitive on a queue name is in the instance table; mess/, intd/, todo/ are never touched directly')
    attach(r7, qsend.effect_sites(db), prefixes=['effect:'])
    r7.expect_min(6)      # sites whose file depends on the way to them are decided by the typestate runs instead (counted in effect_sites)

    # 8. single instance
    r8 = rep.rule('C02.8-single-instance', 'R-ORDER', 'qmail-send main: lock/sendmutex is locked (non-blocking, failure exits 111) before any queue work and never released')
    ms = qsend.analyse_main(db, rep)
    attach(r8, ms, only={'main:single-instance-lock-before-queue-work', 'main:mutex-never-released', 'main:queue-scanned-at-startup-before-the-loop'})
    from rules import libtab as _lt8
    for inst_, v_ in sorted(_lt8.lock_sites(db, rep, db.program('qmail-send'), which=('lock_exnb',)).items()):
        r8.check(v_[0], inst_, v_[1], v_[2], v_[3])
    r8.expect_min(3)
    r9 = rep.rule('C02.9-injector-signals', 'R-EFFECT', 'qmail-queue: no signal handler reaches the clean-up - a timer or signal arriving after link(intd,todo) must not remove intd/mess of a message that is already in todo (files disappear only in the documented order)')
    from rules import C01 as _c01h
    for inst_, v_ in sorted(_c01h.handler_sites(db).items()):
        r9.check(v_[0], inst_, v_[1], v_[2], v_[3])
    r9.expect_min(1)
    for inst_, v_ in sorted(_lt8.fmtqfn_sites(db, rep, db.program('qmail-queue')).items()):
        r1.check(v_[0], inst_, v_[1], v_[2], v_[3])
    rep.assume('the step from these per-program premises to the global invariant is the argument of INTERNALS.md (not machine-checked)',
               'inode numbers are unique; stat/unlink/link act on the named file', 'fsync durability; synchronous directory operations')
