"""C13 — delivery instructions are interpreted as documented and loops are cut
(dispatch tables, search order, safety gates; file-system outcomes and /bin/sh are not decided)."""
from qv.core import AnalysisBroken
from qv.esp import Engine, Outcome, TOP, fs
from qv.lib import QHooks, _cmp_parts, branch_zero_test, consistent_values, holds_set, unit_callees
from rules.C12 import StatusHooks, g1
from rules import libtab
from qv.esp import Outcome

DASH = ord('-')
LEN = 4
DIE = ('strerr_die', 'strerr_die1x', 'strerr_die2x', 'strerr_die3x', 'strerr_die4x', 'strerr_die5x', 'strerr_die6x')


class SearchHooks(libtab.SAConc, QHooks):
    """qmesearch on concrete strings: dash "-", an extension given byte by byte; open_read() answers "no such file" or "found" (a regular file)"""
    def __init__(self):
        self.ends = []
        self.dies = []

    def tracked_global(self, path):
        return True

    def precise_arith(self, path):
        return True

    # the file system under the search: open_read() finds a candidate or not (ENOENT); what is found is a regular file of mode self.mode
    mode = 0o100644
    only_first = False      # only the first candidate exists (the mode table of rule 2)

    def prim_open_read(self, E, x, args):
        name = self.cstring(E, libtab._one(args[0]))
        seq = tuple(g1(E, '$cands', ())) + (name,)
        outs = [Outcome(ret=fs(-1), sets={'$cands': fs(seq), '$errno': fs(2)}, log='%r does not exist' % name)]
        if not self.only_first or len(seq) == 1:
            outs.append(Outcome(ret=fs(7), sets={'$cands': fs(seq), '$found': fs(len(seq) - 1)}, log='%r exists' % name))
            if self.only_first:
                outs = outs[1:]
        return outs

    def prim___errno_location(self, E, x, args):
        return [Outcome(ret=fs(('&', '$errno')))]

    def prim_error_temp(self, E, x, args):
        return [Outcome(ret=fs(0))]

    def prim_fstat(self, E, x, args):
        sp = libtab._one(args[1])
        if not (isinstance(sp, tuple) and sp[0] == '&'):
            raise AnalysisBroken('%s: fstat() buffer is not an object address' % x.where)
        modes = self.mode if isinstance(self.mode, tuple) else (self.mode,)
        return [Outcome(ret=fs(0), sets={sp[1] + '.st_mode': fs(m_), '$mode': fs(m_)}) for m_ in modes]

    def prim_close(self, E, x, args):
        E.set('$closed', fs(1))
        if g1(E, '$found') is not None:
            E.set('$found', TOP)        # found, but not a regular file: the search goes on
            E.set('$ignored', fs(1))
        return [Outcome(ret=fs(0))]

    def prim_strerr_die(self, E, x, args):
        self.dies.append((g1(E, '$mode'), libtab._one(args[0])))
        return 'noreturn'

    def prim_env_put2(self, E, x, args):
        E.set('$env', fs((self.cstring(E, libtab._one(args[0])), self.cstring(E, libtab._one(args[1])))))
        return [Outcome(ret=fs(1))]

    def _die(self, E, x, args):
        return 'noreturn'

    prim_temp_nomem = prim_temp_qmail = _die

    def on_return(self, E, fn, val):
        if fn.name == 'qmesearch':
            self.ends.append((tuple(g1(E, '$cands', ())), g1(E, '$found'), g1(E, 'FD'), g1(E, '$env'), E.trace.list()))
            self.last = (g1(E, '$mode'), g1(E, 'FD'), g1(E, 'CUT'), g1(E, '$closed', 0), g1(E, '$ignored', 0))
            self.rows = getattr(self, 'rows', []) + [self.last]


def search_reference(ext):
    """dot-qmail(5): .qmail-ext, then .qmail-<prefix>default for every prefix of ext ending in "-" (longest first), then .qmail-default"""
    out = [(b'.qmail-' + ext, None)]
    for i in range(len(ext), -1, -1):
        if i == 0 or ext[i - 1:i] == b'-':
            out.append((b'.qmail-' + ext[:i] + b'default', i))
    return out


def search_sites(db, rep, prog, maxlen):
    import itertools
    qs = prog.fn('qmesearch', 'qmail-local.c')
    exts = [bytes(t) for n in range(0, maxlen + 1) for t in itertools.product(b'-x', repeat=n)] + [b'a-default', b'default']
    bad = {}
    n_ends = 0
    for ext in exts:
        H = SearchHooks()
        eng = Engine(db, prog, H, max_states=300000)
        fid = eng.frame_id(qs)
        st = {'%s::%s' % (fid, qs.params[0]): fs(('&', 'FD')), '%s::%s' % (fid, qs.params[1]): fs(('&', 'CUT')),
              'G:dash': fs(('&', 'DASH[0]')), 'G:ext': fs(('&', 'EXT[0]')), 'G:safeext.s': fs(('&', 'G:safeext.s[0]')), 'G:safeext.len': fs(len(ext))}
        st.update(libtab.conc_string_cells('DASH', b'-'))
        st.update(libtab.conc_string_cells('EXT', ext.upper()))          # the extension as written; the search key is its lower-cased copy
        st.update(libtab.conc_string_cells('G:safeext.s', ext, terminate=False))
        eng.run(qs, st)
        rep.count_states(eng.states, eng.transitions)
        ref = search_reference(ext)
        names = [r_[0] for r_ in ref]
        if not H.ends:
            raise AnalysisBroken('qmesearch: no return reached for extension %r' % ext)
        for cands, found, fdv, env, tr in H.ends:
            n_ends += 1
            what = 'extension %r: ' % ext.decode()
            if list(cands) != names[:len(cands)]:
                k = next(i for i in range(len(cands)) if i >= len(names) or cands[i] != names[i])
                key = 'exact-name-tried-first' if k == 0 else 'default-candidates-in-documented-order(longest-prefix-ending-in-a-dash-first,.qmail-default-last)'
                bad.setdefault(key, (what + 'candidate %d is %r; documented order %s' % (k + 1, cands[k], [n_.decode() for n_ in names]), tr))
                continue
            if found is None:
                if len(cands) != len(names):
                    bad.setdefault('every-documented-candidate-is-tried', (what + 'the search gives up after %s; documented candidates %s' % ([c_.decode() for c_ in cands], [n_.decode() for n_ in names]), tr))
                elif fdv != -1:
                    bad.setdefault('no-file-found-sets-fd=-1', (what + '*fd is %s when nothing was found' % fdv, tr))
            else:
                if found != len(cands) - 1:
                    bad.setdefault('search-stops-at-the-first-file-found', (what + 'candidate %d exists and the search goes on' % (found + 1), tr))
                i_ = ref[found][1]
                want_env = None
                if i_ is not None:
                    want_env = ext.upper()[i_:]
                elif ext.endswith(b'default'):
                    want_env = ext.upper()[len(ext) - 7:]
                if want_env is not None and (env is None or env[0] != b'DEFAULT' or env[1] != want_env):
                    bad.setdefault('DEFAULT=part-of-the-extension-matched-by-default', (what + 'file %r found; DEFAULT is set to %s, documented %r' % (cands[found].decode(), env, want_env.decode()), tr))
    out = {}
    for k in ('exact-name-tried-first', 'default-candidates-in-documented-order(longest-prefix-ending-in-a-dash-first,.qmail-default-last)', 'every-documented-candidate-is-tried',
              'no-file-found-sets-fd=-1', 'search-stops-at-the-first-file-found', 'DEFAULT=part-of-the-extension-matched-by-default'):
        out[k] = (k not in bad, 'qmail-local.c:qmesearch', bad[k][0] if k in bad else '%d extensions, %d outcomes' % (len(exts), n_ends), bad[k][1] if k in bad else [])
    return out


class PrefixHooks(libtab.SAConc, QHooks):
    """qmail-local main() from its entry to the .qmail search, on concrete arguments: what the header lines, the mbox From_ line
    and the search key look like for a sender, local part and host that contain newlines, blanks, capitals and dots"""
    CTIME = 'Thu Jan  1 00:16:40 1970\n'

    def __init__(self):
        self.ends = []
        self.env = {}

    def tracked_global(self, path):
        return True

    def precise_arith(self, path):
        return True

    def _ok1(self, E, x, args):
        return [Outcome(ret=fs(1))]

    def _ok0(self, E, x, args):
        return [Outcome(ret=fs(0))]

    def _n(self, E, x, args):
        return [Outcome(ret=TOP)]

    prim_env_init = _ok1
    prim_chdir = _ok0
    prim_umask = prim_sig_pipeignore = prim_checkhome = prim_bouncexf = _n

    dry_run = False        # the -n option: say what would be done

    def materialize(self, E, path):
        if path in ('G:subgetoptdone', 'G:sgetoptdone'):
            return fs(-1)           # "no more options": SUBGETOPTDONE
        return TOP

    def prim_getopt(self, E, x, args):
        # the operands start behind the program name and the options (getopt and optind under whichever names sgetopt.h gives them)
        if self.dry_run and not g1(E, '$optseen', 0):
            return [Outcome(ret=fs(ord('n')), sets={'$optseen': fs(1)})]
        k = 2 if self.dry_run else 1
        return [Outcome(ret=fs(-1), sets={'G:optind': fs(k), 'E:optind': fs(k), 'G:subgetoptind': fs(k), 'G:sgetoptind': fs(k)})]

    prim_sgetoptmine = prim_subgetopt = prim_getopt

    def prim_env_put2(self, E, x, args):
        k, v = self.cstring(E, libtab._one(args[0])), self.cstring(E, libtab._one(args[1]))
        E.set('$env:%s' % (k.decode() if k else '?'), fs(v))
        return [Outcome(ret=fs(1))]

    def prim_quote2(self, E, x, args):
        # the sender of this scenario needs no quoting: the quoted form is the sender itself
        return self._put(E, x, args, self.cstring(E, libtab._one(args[1])), False)

    def prim_now(self, E, x, args):
        return [Outcome(ret=fs(1000))]

    def prim_myctime(self, E, x, args):
        return [Outcome(ret=fs(('str', self.CTIME)))]

    def prim_case_lowerb(self, E, x, args):
        from qv.esp import ptr_add
        p, n = libtab._one(args[0]), libtab._one(args[1])
        m = self.mem(E, p, n) if isinstance(n, int) else None
        if m is None:
            return [Outcome(ret=TOP)]
        st = {}
        for k, b in enumerate(m.lower()):
            st[ptr_add(p, k)[1]] = fs(b)
        return [Outcome(ret=TOP, sets=st)]

    def prim_qmesearch(self, E, x, args):
        env = {k[5:]: libtab._one(v) for k, v in E.store.items() if k.startswith('$env:')}
        self.ends.append(({n: self.sa_bytes(E, 'G:' + n) for n in ('dtline', 'rpline', 'ufline', 'safeext')}, env, E.trace.list()))
        return 'noreturn'

    def _die(self, E, x, args):
        return 'noreturn'

    prim_temp_nomem = prim_usage = prim_strerr_die5x = prim_strerr_die1x = prim_strerr_die = _die


def main_prefix_sites(db, rep, prog):
    mainf = prog.fn('main', 'qmail-local.c')
    argv = [b'qmail-local', b'--', b'user', b'/home/user', b'Lo\ncal', b'-', b'Ex.T-a.B', b'Ho\nst.Example.ORG', b'se nd\ter\n@x', b'./Mailbox']
    bad = {}
    n = 0
    for sender in (b'se nd\ter\n@x', b'', bytes(range(1, 256))):      # the last one: every byte value, so that exactly blank, tab and newline are seen to change
        av = list(argv)
        av[8] = sender
        H = PrefixHooks()
        eng = Engine(db, prog, H, max_states=60000)
        fid = eng.frame_id(mainf)
        # getopt consumed "qmail-local": the operands start at argv[1] ("--" is an operand separator getopt would have eaten; leave it out)
        ops = [av[0]] + av[2:]
        st = {'%s::%s' % (fid, mainf.params[0]): fs(len(ops)), '%s::%s' % (fid, mainf.params[1]): fs(('&', 'ARGV[0]'))}
        for k, a in enumerate(ops):
            st['ARGV[%d]' % k] = fs(('&', 'A%d[0]' % k))
            st.update(libtab.conc_string_cells('A%d' % k, a))
        st['ARGV[%d]' % len(ops)] = fs(0)
        eng.run(mainf, st)
        rep.count_states(eng.states, eng.transitions)
        if len(H.ends) != 1:
            raise AnalysisBroken('qmail-local main: %d ways reach the .qmail search for concrete arguments' % len(H.ends))
        lines, env, tr = H.ends[0]
        n += 1
        local, host, ext = av[4], av[7], av[6]
        scrub = lambda b_: b_.replace(b'\n', b'_')
        want = {'dtline': b'Delivered-To: ' + scrub(local + b'@' + host) + b'\n',
                'rpline': b'Return-Path: <' + scrub(sender) + b'>\n',
                'ufline': b'From ' + (sender.replace(b' ', b'-').replace(b'\t', b'-').replace(b'\n', b'-') if sender else b'MAILER-DAEMON') + b' ' + PrefixHooks.CTIME.encode(),
                'safeext': ext.lower().replace(b'.', b':')}
        names = {'dtline': 'newline-scrub-covers-the-whole-dtline', 'rpline': 'newline-scrub-covers-the-whole-rpline',
                 'ufline': 'From_-line-maps-blank,tab,newline-of-the-sender-to-a-dash', 'safeext': 'search-key=lower-cased-extension-with-dots-as-colons'}
        for k, w in want.items():
            if lines.get(k) != w:
                bad.setdefault(names[k], ('sender %r, recipient %r@%r, extension %r: %s is %r at the .qmail search; documented %r' % (sender, local, host, ext, k, lines.get(k), w), tr))
        for ek, lk in (('DTLINE', 'dtline'), ('RPLINE', 'rpline'), ('UFLINE', 'ufline')):
            if env.get(ek) != want[lk]:
                bad.setdefault('environment-lines-are-the-scrubbed-lines', ('$%s is %r; documented %r' % (ek, env.get(ek), want[lk]), tr))
    out = {}
    for k in ('newline-scrub-covers-the-whole-dtline', 'newline-scrub-covers-the-whole-rpline', 'From_-line-maps-blank,tab,newline-of-the-sender-to-a-dash',
              'search-key=lower-cased-extension-with-dots-as-colons', 'environment-lines-are-the-scrubbed-lines'):
        out[k] = (k not in bad, 'qmail-local.c:main', bad[k][0] if k in bad else '%d scenarios' % n, bad[k][1] if k in bad else [])
    return out


class InterpHooks(PrefixHooks):
    """the whole of qmail-local main() on concrete arguments and a concrete .qmail text: which deliveries are made, in which order, with which arguments"""
    def __init__(self, qmail, xbit, found=True, flag99_after=None):
        super().__init__()
        self.qmail, self.xbit, self.found, self.flag99_after = qmail, xbit, found, flag99_after
        self.runs = []

    def ev(self, E, e):
        E.set('$ev', fs(tuple(g1(E, '$ev', ())) + (e,)))

    def prim_qmesearch(self, E, x, args):
        fdp, cutp = libtab._one(args[0]), libtab._one(args[1])
        if not (isinstance(fdp, tuple) and isinstance(cutp, tuple)):
            raise AnalysisBroken('main: qmesearch() is not handed the addresses of the descriptor and the forward-only flag')
        return [Outcome(ret=TOP, sets={fdp[1]: fs(5 if self.found else -1), cutp[1]: fs(1 if (self.xbit and self.found) else 0)})]

    def prim_qmeox(self, E, x, args):
        return [Outcome(ret=fs(-1))]

    def prim_slurpclose(self, E, x, args):
        sa = libtab._one(args[1])
        return self._put(E, x, [fs(sa)], self.qmail, False)[:1] and [Outcome(ret=fs(0), sets=self._put(E, x, [fs(sa)], self.qmail, False)[0].sets)]

    def prim_calloc(self, E, x, args):
        n = libtab._one(args[0])
        return [Outcome(ret=fs(('&', 'RECIPS[0]')), sets={'$ncalloc': fs(n)})]

    def _deliver(self, E, x, args):
        self.ev(E, (x.callee, self.cstring(E, libtab._one(args[0]))))
        sets = {}
        if x.callee == 'mailprogram' and self.flag99_after is not None and self.cstring(E, libtab._one(args[0])) == self.flag99_after:
            sets['G:flag99'] = fs(1)
        return [Outcome(ret=TOP, sets=sets)]

    prim_maildir = prim_mailfile = prim_mailprogram = _deliver

    def prim_mailforward(self, E, x, args):
        from qv.esp import ptr_add
        p = libtab._one(args[0])
        out = []
        for k in range(16):
            q = ptr_add(p, k) if isinstance(p, tuple) else None
            v = libtab._one(E.get(q[1])) if q else None
            if v == 0:
                break
            out.append(self.cstring(E, v) if isinstance(v, tuple) else None)
            if v is None:
                break
        self.ev(E, ('mailforward', tuple(out), libtab._one(E.get('$ncalloc'))))
        return [Outcome(ret=TOP)]

    def prim_sayit(self, E, x, args):
        n = libtab._one(args[2])
        self.ev(E, ('sayit', self.cstring(E, libtab._one(args[0])), self.mem(E, libtab._one(args[1]), n) if isinstance(n, int) else None))
        return [Outcome(ret=TOP)]

    def prim_count_print(self, E, x, args):
        return [Outcome(ret=TOP)]

    def prim__exit(self, E, x, args):
        self.runs.append((tuple(g1(E, '$ev', ())), ('exit', libtab._one(args[0])), E.trace.list()))
        return 'noreturn'

    def _die1(self, E, x, args):
        self.runs.append((tuple(g1(E, '$ev', ())), ('die', libtab._one(args[0])), E.trace.list()))
        return 'noreturn'

    prim_strerr_die1x = prim_strerr_die5x = prim_strerr_die = _die1      # the strerr_dieNx macros end in strerr_die()

    def prim_stat(self, E, x, args):
        return [Outcome(ret=fs(-1))]


def interp_reference(text, xbit, doit, flag99_after=None):
    """dot-qmail(5) applied to a .qmail text: (events, end)"""
    if not text.endswith(b'\n'):
        text += b'\n'
    ev, fwd = [], []
    fonly = xbit
    lines = text.split(b'\n')[:-1]
    for n_, ln in enumerate(lines):
        ln = ln.rstrip(b' \t')
        if not ln:
            if n_ == 0:
                return ev, ('die', 111)
            continue
        c = ln[:1]
        if c == b'#':
            continue
        if c in (b'.', b'/'):
            if fonly:
                return ev, ('die', 111)
            kind = 'maildir' if ln.endswith(b'/') else 'mailfile'
            ev.append((kind, ln) if doit else ('sayit', b'maildir ' if kind == 'maildir' else b'mbox ', ln))
        elif c == b'|':
            if fonly:
                return ev, ('die', 111)
            ev.append(('mailprogram', ln[1:]) if doit else ('sayit', b'program ', ln[1:]))
            if doit and flag99_after is not None and ln[1:] == flag99_after:
                break
        elif c == b'+':
            if ln[1:] == b'list':
                fonly = True
        else:
            a = ln[1:] if c == b'&' else ln
            if doit:
                fwd.append(a)
            else:
                ev.append(('sayit', b'forward ', a))
    if fwd and doit:
        ev.append(('mailforward', tuple(fwd)))
    return ev, ('exit', 0)


def interp_sites(db, rep, prog):
    mainf = prog.fn('main', 'qmail-local.c')
    base = [b'qmail-local', b'user', b'/home/user', b'local', b'-', b'ext', b'host.example', b'sender@x', b'./Mailbox']
    BIG = b'# c\n./Maildir/ \t\n./Mailbox\n/abs/Md/\n|prog a\n&fwd@x\nplain@y\n+list\n\n&last@z'
    scen = [('every-kind-of-line', BIG, False, True, None), ('+list-then-file', b'+list\n./Mailbox\n', False, True, None), ('+list-then-program', b'&a@b\n+list\n|p\n', False, True, None),
            ('x-bit-and-program', b'|prog\n', True, True, None), ('x-bit-and-file', b'&a@b\n/m/\n', True, True, None), ('x-bit-and-forward', b'&a@b\nc@d\n', True, True, None),
            ('first-line-blank', b'\n./Mailbox\n', False, True, None), ('later-line-blank', b'./Mailbox\n \n\n/m/\n', False, True, None),
            ('+listing-is-not-+list', b'+listing\n./Mailbox\n', False, True, None), ('program-exit-99', b'|one\n|two\n./Mailbox\n&a@b\n', False, True, b'one'),
            ('empty-.qmail-uses-the-default-delivery', b'', True, True, None), ('comment-only', b'#only\n', False, True, None),
            ('-n-says-what-would-be-done', BIG, False, True, None),
            ('only-forward-lines,the-last-one-unterminated', b'&a@b\n&c@d', False, True, None), ('one-unterminated-forward-line', b'e@f', False, True, None)]
    bad = {}
    n = 0
    for name, text, xbit, found, f99 in scen:
        H = InterpHooks(text, xbit, found, f99)
        doit = not name.startswith('-n')
        H.dry_run = not doit
        argv_ = base if doit else base[:1] + [b'-n'] + base[1:]
        eng = Engine(db, prog, H, max_states=60000)      # deterministic: a blow-up means an input was left undetermined
        fid = eng.frame_id(mainf)
        st = {'%s::%s' % (fid, mainf.params[0]): fs(len(argv_)), '%s::%s' % (fid, mainf.params[1]): fs(('&', 'ARGV[0]'))}
        for k, a in enumerate(argv_):
            st['ARGV[%d]' % k] = fs(('&', 'A%d[0]' % k))
            st.update(libtab.conc_string_cells('A%d' % k, a))
        st['ARGV[%d]' % len(argv_)] = fs(0)
        eng.run(mainf, st)
        rep.count_states(eng.states, eng.transitions)
        if len(H.runs) != 1:
            raise AnalysisBroken('qmail-local main: %d ends for the scripted .qmail %r' % (len(H.runs), text))
        ev, end, tr = H.runs[0]
        n += 1
        eff = text if text else base[8] + b'\n'                      # an empty .qmail means the default delivery instruction, without forward-only
        wev, wend = interp_reference(eff, xbit and bool(text), doit, f99)
        gev = [tuple(e[:3]) if e[0] == 'sayit' else (e[0], e[1]) for e in ev]
        what = '.qmail %r%s: ' % (text, ' with the x bit' if xbit else '')
        if gev != wev or end != wend:
            kinds = {'mailprogram': 'first-byte->action', 'maildir': 'trailing-slash-selects-maildir', 'mailfile': 'trailing-slash-selects-maildir'}
            key = 'first-byte->action'
            if wend == ('die', 111) or end == ('die', 111):
                key = 'file-and-program-deliveries-refused-under-forward-only' if (xbit or b'+list' in text) else 'blank-first-line-is-refused'
            elif [e for e in gev if e[0] in ('maildir', 'mailfile')] != [e for e in wev if e[0] in ('maildir', 'mailfile')]:
                key = 'trailing-slash-selects-maildir'
            elif f99:
                key = 'loop-leaves-on-flag99'
            elif not doit:
                key = '-n-delivers-nothing'
            elif [e for e in gev if e[0] == 'mailforward'] != [e for e in wev if e[0] == 'mailforward'] or 'mailforward' in [e[0] for e in gev[:-1]]:
                key = 'mailforward-once-after-all-instructions-with-every-forward-address'
            bad.setdefault(key, (what + 'deliveries %s, end %s; documented %s, end %s' % (gev, end, wev, wend), tr))
        fw = [e for e in ev if e[0] == 'mailforward']
        if fw and isinstance(fw[0][2], int) and fw[0][2] < len(fw[0][1]) + 1:
            bad.setdefault('forward-list-fits-its-allocation', (what + '%d forward addresses and the terminator are stored in an array allocated for %d pointers' % (len(fw[0][1]), fw[0][2]), tr))
    out = {}
    for k in ('first-byte->action', 'trailing-slash-selects-maildir', 'file-and-program-deliveries-refused-under-forward-only', 'blank-first-line-is-refused', 'loop-leaves-on-flag99',
              'forward-list-fits-its-allocation', '-n-delivers-nothing', 'mailforward-once-after-all-instructions-with-every-forward-address'):
        out[k] = (k not in bad, 'qmail-local.c:main', bad[k][0] if k in bad else '%d scripted .qmail files' % n, bad[k][1] if k in bad else [])
    return out


class ForwardHooks(libtab.SAConc, QHooks):
    """mailforward(recips) on a concrete recipient list: what is handed to the queue, and how its verdict ends the delivery"""
    def __init__(self, verdict, read_error=False):
        self.verdict, self.read_error = verdict, read_error
        self.ends = []

    def tracked_global(self, path):
        return True

    def precise_arith(self, path):
        return True

    def ev(self, E, e):
        E.set('$ev', fs(tuple(libtab._one(E.get('$ev')) or ()) + (e,)))

    def _ok0(self, E, x, args):
        return [Outcome(ret=fs(0))]

    def _n(self, E, x, args):
        return [Outcome(ret=TOP)]

    prim_seek_begin = prim_qmail_open = _ok0
    prim_substdio_fdbuf = _n

    def prim_qmail_qp(self, E, x, args):
        return [Outcome(ret=fs(4711))]

    def prim_getln(self, E, x, args):
        k = libtab._one(E.get('$k')) or 0
        mp = libtab._one(args[2])
        lines = [b'Subject: x\n', b'\n', b'body']
        if self.read_error and k == 1:
            return [Outcome(ret=fs(-1), sets={'$k': fs(k + 1)}, log='reading the message fails')]
        o = self._put(E, x, args[1:2], lines[k], False)[0]
        return [Outcome(ret=fs(0), sets=dict(o.sets, **{mp[1]: fs(1 if lines[k].endswith(b'\n') else 0), '$k': fs(k + 1)}))]

    def prim_qmail_put(self, E, x, args):
        n = libtab._one(args[2])
        self.ev(E, ('put', self.mem(E, libtab._one(args[1]), n) if isinstance(n, int) and 0 <= n < 200 else None))
        return [Outcome(ret=TOP)]

    def prim_qmail_puts(self, E, x, args):
        self.ev(E, ('put', self.cstring(E, libtab._one(args[1]))))
        return [Outcome(ret=TOP)]

    def prim_qmail_fail(self, E, x, args):
        self.ev(E, ('fail',))
        return [Outcome(ret=TOP)]

    def prim_qmail_from(self, E, x, args):
        self.ev(E, ('from', self.cstring(E, libtab._one(args[1]))))
        return [Outcome(ret=TOP)]

    def prim_qmail_to(self, E, x, args):
        self.ev(E, ('to', self.cstring(E, libtab._one(args[1]))))
        return [Outcome(ret=TOP)]

    def prim_qmail_close(self, E, x, args):
        self.ev(E, ('close',))
        return [Outcome(ret=fs(('str', self.verdict)))]

    def _die(self, E, x, args):
        self.ends.append((('die', libtab._one(args[0])), tuple(libtab._one(E.get('$ev')) or ()), E.trace.list()))
        return 'noreturn'

    prim_strerr_die = prim_strerr_die3x = prim_strerr_die1x = _die

    def _temp(self, E, x, args):
        return 'noreturn'

    prim_temp_rewind = prim_temp_fork = prim_temp_nomem = _temp

    def on_return(self, E, fn, val):
        if fn.name == 'mailforward':
            self.ends.append((('return',), tuple(libtab._one(E.get('$ev')) or ()), E.trace.list()))


def forward_sites(db, rep, prog):
    fn = prog.fn('mailforward', 'qmail-local.c')
    bad = {}
    for verdict, rerr, want_end in (('', False, ('return',)), ('Dno such user', False, ('die', 100)), ('Ztry later', False, ('die', 111)), ('Zqq read error', True, ('die', 111))):
        H = ForwardHooks(verdict, rerr)
        e = Engine(db, prog, H, max_states=60000)
        st = {'%s::%s' % (e.frame_id(fn), fn.params[0]): fs(('&', 'RECIPS[0]')), 'RECIPS[0]': fs(('&', 'R0[0]')), 'RECIPS[1]': fs(('&', 'R1[0]')), 'RECIPS[2]': fs(0),
              'G:dtline.s': fs(('&', 'G:dtline.s[0]')), 'G:dtline.len': fs(3), 'G:ueo.s': fs(('&', 'G:ueo.s[0]'))}
        st.update(libtab.conc_string_cells('R0', b'a@b'))
        st.update(libtab.conc_string_cells('R1', b'c@d'))
        st.update(libtab.conc_string_cells('G:dtline.s', b'DT\n', terminate=False))
        st.update(libtab.conc_string_cells('G:ueo.s', b'owner@x'))
        e.run(fn, st)
        rep.count_states(e.states, e.transitions)
        if len(H.ends) != 1:
            raise AnalysisBroken('mailforward: %d ends for the queue verdict %r' % (len(H.ends), verdict))
        end, ev, tr = H.ends[0]
        what = 'queue verdict %r%s: ' % (verdict, ', reading the message fails' if rerr else '')
        if end != want_end:
            key = 'forward-success-only-on-empty-qmail_close' if (end == ('return',)) != (want_end == ('return',)) else 'forward-failure:D->100,else->111'
            bad.setdefault(key, (what + 'mailforward() ends with %s; documented %s' % (end, want_end), tr))
        tos = [e_[1] for e_ in ev if e_[0] == 'to']
        frm = [e_[1] for e_ in ev if e_[0] == 'from']
        puts = [e_[1] for e_ in ev if e_[0] == 'put']
        want_puts = [b'DT\n', b'Subject: x\n'] + ([] if rerr else [b'\n', b'body'])
        if tos != [b'a@b', b'c@d'] or frm != [b'owner@x'] or puts != want_puts or (rerr and ('fail',) not in ev):
            bad.setdefault('forward:message=Delivered-To-line+copy,envelope=new-sender+every-forward-address',
                           (what + 'the queue is handed the pieces %s, the sender %s, the recipients %s%s; documented %s, [owner@x], [a@b, c@d]%s' %
                            (puts, frm, tos, '' if not rerr else (', qmail_fail %s' % ('called' if ('fail',) in ev else 'NOT called')), want_puts, ' and qmail_fail after the read error' if rerr else ''), tr))
    return {k: (k not in bad, 'qmail-local.c:mailforward', bad[k][0] if k in bad else '4 verdict scenarios', bad[k][1] if k in bad else [])
            for k in ('forward-failure:D->100,else->111', 'forward-success-only-on-empty-qmail_close', 'forward:message=Delivered-To-line+copy,envelope=new-sender+every-forward-address')}


def run(ctx):
    db, rep = ctx.db, ctx.report
    prog = db.program('qmail-local')
    mainf = prog.fn('main', 'qmail-local.c')
    # ---------------------------------------------------------------- 1. search order
    r1 = rep.rule('C13.1-search-order', 'R-TABLE', 'qmesearch (extension of %d bytes, every dash pattern): exact name first, then prefix+"default" for every prefix ending in "-" from the longest (the whole extension) down to the empty prefix; fd = -1 if nothing exists' % LEN)
    for inst, v in sorted(search_sites(db, rep, prog, LEN).items()):
        r1.check(v[0], inst, v[1], v[2], v[3])
    mps = main_prefix_sites(db, rep, prog)
    v = mps['search-key=lower-cased-extension-with-dots-as-colons']
    r1.check(v[0], 'search-key=lower-cased-extension-with-dots-as-colons', v[1], v[2], v[3])
    from rules import libtab
    for inst, v in sorted(libtab.case_lowerb_sites(db, rep, prog).items()):
        r1.check(v[0], inst, v[1], v[2], v[3])
    r1.expect_min(8)
    rep.exhaustive_rules.append('C13.1-search-order')

    # ---------------------------------------------------------------- 2. safety gates
    r2 = rep.rule('C13.2-safety-gates', 'R-GUARD', 'checkhome precedes every delivery and refuses writable/sticky homes; a writable .qmail is refused; file and program instructions are refused under forward-only')
    ch = prog.fn('checkhome', 'qmail-local.c')
    PATRN, STICKY = 0o022, 0o1000

    class CH(QHooks):
        tracked = frozenset(['G:flagdoit', 'G:auto_patrn'])

        def __init__(self):
            self.tab = {}

        def prim_stat(self, E, x, args):
            sp = None
            if args[1] is not TOP and len(args[1]) == 1:
                (a_,) = args[1]
                if isinstance(a_, tuple) and a_[0] == '&':
                    sp = a_[1]
            outs = [Outcome(ret=fs(-1), sets={'$mode': fs('staterr')})]
            for mode in (0o755, 0o755 | PATRN, 0o755 | STICKY, 0o755 | PATRN | STICKY, 0o775):
                outs.append(Outcome(ret=fs(0), sets={sp + '.st_mode': fs(mode), '$mode': fs(mode)}))
            return outs

        def _die(self, E, x, args):
            self.tab[(g1(E, '$mode'), g1(E, 'G:flagdoit'))] = ('exit', next(iter(args[0])) if args[0] is not TOP and len(args[0]) == 1 else None)
            return 'noreturn'

        prim_strerr_die = _die

        def prim_strerr_warn(self, E, x, args):
            return [Outcome(ret=TOP)]

        def prim_error_str(self, E, x, args):
            return [Outcome(ret=TOP)]

        def on_return(self, E, fn, val):
            self.tab[(g1(E, '$mode'), g1(E, 'G:flagdoit'))] = ('return',)
    chh = CH()
    for doit in (0, 1):
        e = Engine(db, prog, chh)
        e.run(ch, {'G:flagdoit': fs(doit), 'G:auto_patrn': fs(PATRN)})
        rep.count_states(e.states, e.transitions)
    badc = []
    for (mode, doit), out in sorted(chh.tab.items(), key=str):
        if mode == 'staterr':
            want = ('exit', 111)
        elif mode & PATRN or (mode & 0o020):
            want = ('exit', 111)
        elif (mode & STICKY) and doit:
            want = ('exit', 111)
        else:
            want = ('return',)
        if out != want:
            badc.append((oct(mode) if isinstance(mode, int) else mode, doit, out, want))
    r2.check(len(chh.tab) >= 12 and not badc, 'checkhome-refuses-writable-and-sticky-homes', ch.unit + ':checkhome', '(mode, flagdoit) -> outcome deviations: %s' % badc[:4])
    chc = mainf.calls('checkhome')
    dels = mainf.calls(('maildir', 'mailfile', 'mailprogram', 'mailforward', 'qmesearch'))
    r2.check(bool(chc) and all(mainf.dominates(chc[0], d) for d in dels), 'checkhome-before-any-delivery', mainf.unit + ':main', '')
    qsf = prog.fn('qmesearch', 'qmail-local.c')
    MODES = (0o100644, 0o100664, 0o100646, 0o100744, 0o100764, 0o040755, 0o100600, 0o020666)
    qh = SearchHooks()
    qh.mode, qh.only_first = MODES, True
    e = Engine(db, prog, qh, max_states=300000)
    fid = e.frame_id(qsf)
    st_ = {'%s::%s' % (fid, qsf.params[0]): fs(('&', 'FD')), '%s::%s' % (fid, qsf.params[1]): fs(('&', 'CUT')), 'G:auto_patrn': fs(0o022),
           'G:dash': fs(('&', 'DASH[0]')), 'G:ext': fs(('&', 'EXT[0]')), 'G:safeext.s': fs(('&', 'G:safeext.s[0]')), 'G:safeext.len': fs(1)}
    st_.update(libtab.conc_string_cells('DASH', b'-'))
    st_.update(libtab.conc_string_cells('EXT', b'X'))
    st_.update(libtab.conc_string_cells('G:safeext.s', b'x', terminate=False))
    e.run(qsf, st_)
    rep.count_states(e.states, e.transitions)
    tab = {}
    for m_, code in qh.dies:
        tab.setdefault(m_, set()).add(('exit', code))
    for m_, fdv, cut, closed, ignored in getattr(qh, 'rows', []):
        tab.setdefault(m_, set()).add(('found', cut) if fdv == 7 else ('ignored', closed))
    badq = []
    for m_ in MODES:
        got = tab.get(m_, set())
        if (m_ & 0o170000) != 0o100000:
            want = {('ignored', 1)}
        elif m_ & 0o022:
            want = {('exit', 111)}
        else:
            want = {('found', 1 if m_ & 0o100 else 0)}
        if got != want:
            badq.append((oct(m_), sorted(got, key=str), sorted(want, key=str)))
    r2.check(not badq, 'writable-.qmail-refused', 'qmail-local.c:qmesearch',
             '(.qmail mode -> outcome, documented): %s; a group/world-writable .qmail must stop the delivery (111), a non-regular file is closed and ignored, the x bit selects forward-only' % badq[:3])
    its = interp_sites(db, rep, prog)
    v = its['file-and-program-deliveries-refused-under-forward-only']
    r2.check(v[0], 'file-and-program-deliveries-refused-under-forward-only', v[1], v[2], v[3])
    r2.expect_min(4)

    # ---------------------------------------------------------------- 3. dispatch
    r3 = rep.rule('C13.3-dispatch-table', 'R-TABLE', 'first byte of an instruction -> action: # nothing; . / maildir if the line ends in / else mbox; | program; + list; & and everything else forward; blank first line -> 111')
    # the instructions are what slurpclose() read: a read error is an error, not the end of the file
    from rules import libtab as _lt
    for inst_, v_ in sorted(_lt.slurpclose_sites(db, rep, prog).items()):
        r3.check(v_[0], inst_, v_[1], v_[2], v_[3])
    for k_ in ('first-byte->action', 'trailing-slash-selects-maildir', 'blank-first-line-is-refused', 'forward-list-fits-its-allocation'):
        r3.check(its[k_][0], k_, its[k_][1], its[k_][2], its[k_][3])
    r3.expect_min(2)

    # ---------------------------------------------------------------- 4. program status
    r4 = rep.rule('C13.4-program-status-table', 'R-TABLE', 'mailprogram: 0 continue; 99 continue and stop after this instruction; 100,64,65,70,76,77,78,112 -> exit 100; crash and everything else -> exit 111 (all 256 statuses + signals)')
    # the status macros every verdict on a child process goes through (wait.h): as functions of the status word
    from rules import libtab as _lt
    for inst_, v_ in sorted(_lt.waitmacro_sites(db, 'qmail-local.c').items()):
        r4.check(v_[0], inst_, v_[1], v_[2], v_[3])
    mp = prog.fn('mailprogram', 'qmail-local.c')
    SH = StatusHooks('qmail-local.c:mailprogram')
    e4 = Engine(db, prog, SH)
    e4.run(mp, {})
    rep.count_states(e4.states, e4.transitions)
    hard = {100, 64, 65, 70, 76, 77, 78, 112}
    bad = []
    for w, out in sorted(SH.table.items()):
        crashed = (w & 127) != 0
        code = w >> 8
        if crashed:
            want_o = ('exit', 111)
        elif code == 0:
            want_o = ('return', 0)
        elif code == 99:
            want_o = ('return', 1)
        elif code in hard:
            want_o = ('exit', 100)
        else:
            want_o = ('exit', 111)
        if out != want_o:
            bad.append((('sig%d' % (w & 127)) if crashed else code, out, want_o))
    r4.check(len(SH.table) == 260 and not bad, 'program-status-table', mp.unit + ':mailprogram', '%d cells; deviations %s' % (len(SH.table), bad[:5]))
    v = its['loop-leaves-on-flag99']
    r4.check(v[0], 'loop-leaves-on-flag99', v[1], v[2], v[3])
    rep.exhaustive_rules.append('C13.4-program-status-table')

    # ---------------------------------------------------------------- 5. forward last
    r5 = rep.rule('C13.5-forward-last', 'R-ORDER', 'mailforward runs once after the instruction loop, only with recipients and when delivering; a D result exits 100, anything else 111')
    for k_ in ('mailforward-once-after-all-instructions-with-every-forward-address', '-n-delivers-nothing'):
        r5.check(its[k_][0], k_, its[k_][1], its[k_][2], its[k_][3])
    for inst_, v_ in sorted(forward_sites(db, rep, prog).items()):
        r5.check(v_[0], inst_, v_[1], v_[2], v_[3])
    r5.expect_min(3)

    # ---------------------------------------------------------------- 6/7/8
    r6 = rep.rule('C13.6-loop-cut-and-headers', 'R-GUARD', 'bouncexf exits 100 on a header line equal to the Delivered-To line; newlines in Delivered-To and Return-Path are replaced over the whole line before use; no mailbox -> exit 100 before any delivery')
    bx = prog.fn('bouncexf', 'qmail-local.c')

    class BX(QHooks):
        tracked = frozenset(['G:messline', 'G:dtline'])

        def __init__(self):
            self.bad = None
            self.seen = set()

        def prim_lseek(self, E, x, args):
            return [Outcome(ret=fs(0))]

        prim_seek_set = prim_lseek

        def prim_substdio_fdbuf(self, E, x, args):
            return [Outcome(ret=TOP)]

        def prim_getln(self, E, x, args):
            mp = None
            if args[2] is not TOP and len(args[2]) == 1:
                (a_,) = args[2]
                if isinstance(a_, tuple) and a_[0] == '&':
                    mp = a_[1]
            n = g1(E, '$n', 0)
            if n >= 2:
                return [Outcome(ret=fs(0), sets={mp: fs(0), 'G:messline.len': fs(0), '$line': fs('eof')})]
            outs = [Outcome(ret=fs(-1)), Outcome(ret=fs(0), sets={mp: fs(0), 'G:messline.len': fs(3), '$line': fs('eof')})]
            for ln in (1, 5, 9, 12):
                outs.append(Outcome(ret=fs(0), sets={mp: fs(1), 'G:messline.len': fs(ln), '$line': fs(ln), '$n': fs(n + 1), '$eq': TOP}))
            return outs

        def _cmp(self, E, x, args):
            ok_args = {a.path() for a in x.args[:2]} == {'G:messline.s', 'G:dtline.s'} and args[2] == fs(9)
            if not ok_args:
                self.bad = 'the Delivered-To comparison is %s' % x.src()
            return [Outcome(ret=fs(0), sets={'$eq': fs(1)}), Outcome(ret=fs(1), sets={'$eq': fs(0)})]

        prim_strncmp = prim_memcmp = prim_byte_diff = _cmp

        def prim_strerr_die(self, E, x, args):
            code = next(iter(args[0])) if args[0] is not TOP and len(args[0]) == 1 else None
            ln, eq = g1(E, '$line'), g1(E, '$eq')
            self.seen.add(('die', code, ln, eq))
            if code == 100 and not (ln == 9 and eq == 1):
                self.bad = 'exit 100 for a header line of %s bytes (Delivered-To line: 9) with equality=%s' % (ln, eq)
            return 'noreturn'

        def prim_temp_read(self, E, x, args):
            return 'noreturn'

        def on_branch(self, E, cond, truth):
            pass

        def on_return(self, E, fn, val):
            ln, eq = g1(E, '$line'), g1(E, '$eq')
            self.seen.add(('ret', ln, eq))
            if ln == 9 and eq == 1:
                self.bad = 'bouncexf() returns although a header line equals the Delivered-To line'
    bxh = BX()
    e = Engine(db, prog, bxh)
    e.run(bx, {'G:dtline.len': fs(9)})
    rep.count_states(e.states, e.transitions)
    hit = any(s_[0] == 'die' and s_[1] == 100 for s_ in bxh.seen)
    r6.check(bxh.bad is None and hit, 'bouncexf:exit-100-iff-a-header-line-equals-dtline', bx.unit + ':bouncexf', bxh.bad or 'exit 100 never reached')
    # the scan stops at the first line of length <= 1: a matching line after an empty line must not count
    stop_ok = not any(s_[0] == 'die' and s_[1] == 100 and False for s_ in bxh.seen)

    class BX2(BX):
        def prim_getln(self, E, x, args):
            mp = None
            if args[2] is not TOP and len(args[2]) == 1:
                (a_,) = args[2]
                if isinstance(a_, tuple) and a_[0] == '&':
                    mp = a_[1]
            n = g1(E, '$n', 0)
            seq = [1, 9]          # an empty line, then a line that looks like our Delivered-To
            if n >= len(seq):
                return [Outcome(ret=fs(0), sets={mp: fs(0), 'G:messline.len': fs(0), '$line': fs('eof')})]
            return [Outcome(ret=fs(0), sets={mp: fs(1), 'G:messline.len': fs(seq[n]), '$line': fs(seq[n]), '$n': fs(n + 1), '$eq': TOP})]
    b2 = BX2()
    e = Engine(db, prog, b2)
    e.run(bx, {'G:dtline.len': fs(9)})
    rep.count_states(e.states, e.transitions)
    r6.check(not any(s_[0] == 'die' and s_[1] == 100 for s_ in b2.seen) and any(s_[0] == 'ret' for s_ in b2.seen), 'bouncexf:scan-stops-at-the-first-empty-line', bx.unit + ':bouncexf',
             'a Delivered-To look-alike in the body (after the empty line) is taken for a loop: %s' % sorted(b2.seen, key=str))
    # only the empty line ends the header: short lines with any content (CR only, one letter) are header lines and the scan goes on
    class BX3(BX):
        FIRST = None

        def prim_getln(self, E, x, args):
            mp = None
            if args[2] is not TOP and len(args[2]) == 1:
                (a_,) = args[2]
                if isinstance(a_, tuple) and a_[0] == '&':
                    mp = a_[1]
            n = g1(E, '$n', 0)
            if n == 0:
                st = {mp: fs(1), 'G:messline.len': fs(len(self.FIRST)), 'G:messline.s': fs(('&', 'G:messline.s[0]')), '$line': fs(len(self.FIRST)), '$n': fs(1), '$eq': TOP}
                for i_, ch in enumerate(self.FIRST):
                    st['G:messline.s[%d]' % i_] = fs(ord(ch))
                return [Outcome(ret=fs(0), sets=st)]
            if n == 1:
                return [Outcome(ret=fs(0), sets={mp: fs(1), 'G:messline.len': fs(9), '$line': fs(9), '$n': fs(2), '$eq': TOP})]
            return [Outcome(ret=fs(0), sets={mp: fs(0), 'G:messline.len': fs(0), '$line': fs('eof')})]

        def tracked_global(self, path):
            return path.startswith('G:messline') or super().tracked_global(path)
    badl = []
    for first in ('\r\n', 'X\n', ' \n', '\t\n', 'ab\n'):
        b3 = BX3()
        b3.FIRST = first
        e = Engine(db, prog, b3)
        e.run(bx, {'G:dtline.len': fs(9)})
        rep.count_states(e.states, e.transitions)
        if not any(s_[0] == 'die' and s_[1] == 100 and s_[2] == 9 and s_[3] == 1 for s_ in b3.seen):
            badl.append(first)
    r6.check(not badl, 'bouncexf:only-the-empty-line-ends-the-header', bx.unit + ':bouncexf',
             'a header line %s above the matching Delivered-To line ends the scan: the loop is not noticed and the message is delivered again' % [repr(f_) for f_ in badl])
    bc = mainf.calls('bouncexf')
    r6.check(bool(bc) and any(c.path() == 'G:flagdoit' and t is True for c, t in mainf.guards(bc[0]) or []), 'bouncexf-under-flagdoit', mainf.unit + ':main', '')
    # the header lines qmail-local builds from its arguments, newlines replaced (main explored concretely up to the .qmail search)
    for k_ in ('newline-scrub-covers-the-whole-dtline', 'newline-scrub-covers-the-whole-rpline', 'environment-lines-are-the-scrubbed-lines'):
        r6.check(mps[k_][0], k_, mps[k_][1], mps[k_][2], mps[k_][3])
    rp = [c for c in mainf.calls('stralloc_cat') if c.args[0].src() == '&rpline']
    q2 = mainf.calls('quote2')
    r6.check(bool(rp and q2) and rp[0].args[1].src() == '&foo' and q2[0].args[0].src() == '&foo' and q2[0].args[1].path() == 'G:sender' and mainf.dominates(q2[0], rp[0]),
             'Return-Path-is-the-quoted-sender', mainf.unit + ':main', '')
    nm = [d for d in mainf.calls(DIE) if d.args[0].const == 100]
    oknm = False
    for d in nm:
        cv = consistent_values(mainf, d, (-1, 0, 1, 3, 45), key=lambda v: v.strip().path() or v.strip().src())
        fdk = [k for k in cv if k.startswith('L:fd')]
        dk = [k for k in cv if k.replace(' ', '') in ('*dash', 'dash[0]', '*G:dash', 'G:dash[0]')]
        if fdk and dk and all(cv[k] == {-1} for k in fdk) and all(0 not in cv[k] and {1, 45} <= cv[k] for k in dk):
            oknm = all(mainf.dominates(d, c) or not mainf.can_reach(mainf.pos[c.id][0], mainf.pos[d.id][0]) for c in mainf.calls(('maildir', 'mailfile', 'mailprogram')))
    r6.check(oknm, 'no-mailbox->exit-100-before-any-delivery', mainf.unit + ':main', '')
    r6.expect_min(6)
    rep.assume('fixed geometry for the search order (the loop tests i against 0 and one byte against "-")', 'file-system outcomes and /bin/sh behaviour are not decided')
