"""C10 — recipients are routed by the control files (precedence, candidate positions,
bookkeeping; the string arithmetic of routing is not decided)."""
from qv.core import AnalysisBroken
from qv.esp import Engine, Outcome, TOP, fs
from qv.lib import QHooks, lit_of
from rules import qsend
from rules.qsend import attach, g1

LEN, AT = 9, 3        # small-scope geometry for the candidate-position table: a@bb.cc.d style
DOT = ord('.')


class RewriteHooks(QHooks):
    tracked = frozenset(['G:rwline'])

    def __init__(self, geometry):
        self.sites = {}
        self.geo = geometry
        self._addr = '?'
        self.lookups = []
        self.cands = set()
        self.returns = {}

    def site(self, inst, x, ok, detail, E, kill=True):
        prev = self.sites.get(inst)
        if prev is None or (prev[0] and not ok):
            self.sites[inst] = (ok, x.where if x is not None else 'qmail-send.c:rewrite', detail, E.trace.list() if not ok else [])
        if not ok and kill:
            E.kill()

    def precise_arith(self, path):
        return bool(self.geo)      # fixed geometry: every counter is exact

    def materialize_split(self, E, path):
        if self.geo and path.startswith(self._addr + '.s['):
            return [fs(DOT), fs(ord('x'))]
        return None

    def materialize(self, E, path):
        if self.geo and path == self._addr + '.s':
            return fs(('&', self._addr + '.s[0]'))     # so that a helper handed addr.s indexes the same bytes
        return TOP

    def _sa(self, E, x, i=0):
        v = E.val(x.args[i])
        if v is not TOP and len(v) == 1:
            (a,) = v
            if isinstance(a, tuple) and a[0] == '&':
                return a[1]
        return None

    def prim_stralloc_copys(self, E, x, args):
        sa = self._sa(E, x)
        lit = x.args[1].string
        outs = [Outcome(ret=fs(0))]
        if sa == 'G:rwline':
            outs.append(Outcome(ret=fs(1), sets={'$rw': fs((('lit', lit),))}))
        else:
            self._addr = sa
            st = {'$addrset': fs(1)}
            if self.geo:
                st[sa + '.len'] = fs(LEN)
            outs.append(Outcome(ret=fs(1), sets=st))
        return outs

    def _append(self, E, x, item):
        sa = self._sa(E, x)
        outs = [Outcome(ret=fs(0))]
        if sa == 'G:rwline':
            rw = g1(E, '$rw', ())
            outs.append(Outcome(ret=fs(1), sets={'$rw': fs(tuple(rw) + (item,))}))
        else:
            self.site('rewrite:default-host-appended-before-any-lookup', x, g1(E, '$looked', 0) == 0, 'the address is extended after a table lookup', E)
            outs.append(Outcome(ret=fs(1), sets={'$ext': fs(tuple(g1(E, '$ext', ())) + (item,))}))
        return outs

    def prim_stralloc_cats(self, E, x, args):
        lit = x.args[1].string
        if lit is not None:
            return self._append(E, x, ('lit', lit))
        v = args[1]
        if v is not TOP and len(v) == 1 and isinstance(next(iter(v)), tuple) and next(iter(v))[0] == 'str':
            return self._append(E, x, ('tag', next(iter(v))[1]))
        return self._append(E, x, ('expr', x.args[1].src()))

    def prim_stralloc_catb(self, E, x, args):
        # the same append spelt with an explicit length (the literal's own length: a shorter one would be another text)
        lit = x.args[1].string
        n = args[2]
        if lit is not None and n is not TOP and n == fs(len(lit)):
            return self._append(E, x, ('lit', lit))
        return self.prim_stralloc_cats(E, x, args)

    def prim_stralloc_cat(self, E, x, args):
        src = self._sa(E, x, 1)
        return self._append(E, x, ('sa', 'addr' if src == getattr(self, '_addr', None) else src))

    def prim_stralloc_0(self, E, x, args):
        return self._append(E, x, ('nul',))

    def prim_stralloc_append(self, E, x, args):
        if x.args[1].string == '':
            return self._append(E, x, ('nul',))
        return self._append(E, x, ('expr', x.args[1].src()))

    def prim_byte_rchr(self, E, x, args):
        ch = x.args[2].const
        if ch == ord('@'):
            if self.geo:
                return [Outcome(ret=fs(AT))]
            # no-@ case: result == len
            return [Outcome(ret=TOP)]
        return [Outcome(ret=TOP)]

    def prim_constmap(self, E, x, args):
        m = x.args[0].strip()
        mp = m.args[0].path() if m.k == 'un' else m.path()
        order = {'G:mappercenthack': 1, 'G:maplocals': 2, 'G:mapvdoms': 3}
        if mp not in order:
            return [Outcome(ret=fs(0)), Outcome(ret=fs(('str', 'v')))]
        last = g1(E, '$stage', 0)
        self.site('rewrite:precedence-percenthack<locals<virtualdomains', x, order[mp] >= last,
                  'lookup in %s after a lookup in a later table' % mp[2:], E)
        sets = {'$stage': fs(order[mp]), '$looked': fs(1)}
        if mp == 'G:mappercenthack' and self.geo:
            return [Outcome(ret=fs(0), sets=sets)]      # fixed geometry: no percent-hack rewriting in this run
        if mp == 'G:mappercenthack':
            # after a hit the rewritten address is looked up again: lookups = hits + 1 when the function is done
            sets['$pctmiss'] = fs(1)      # the address as it stands now has been looked up
            if g1(E, '$pct', 0) >= 3:
                return [Outcome(ret=fs(0), sets=sets)]
            return [Outcome(ret=fs(0), sets=sets), Outcome(ret=fs(('str', '')), sets=dict(sets, **{'$pct': fs(g1(E, '$pct', 0) + 1)}), log='percenthack hit')]
        if mp == 'G:maplocals':
            if self.geo:
                # arguments must denote the domain part: addr.s + at + 1, len - at - 1
                lv = args[2]
                self.site('rewrite:locals-lookup-is-the-domain-part', x, lv == fs(LEN - AT - 1), 'locals lookup length is %s for len=%d at=%d' % (sorted(lv) if lv is not TOP else '?', LEN, AT), E)
            return [Outcome(ret=fs(0), sets=sets), Outcome(ret=fs(('str', '')), sets=dict(sets, **{'$local': fs(1)}), log='locals hit')]
        # virtualdomains
        self.site('rewrite:no-virtualdomains-lookup-after-a-locals-hit', x, g1(E, '$local', 0) == 0, 'virtualdomains consulted although the domain is local', E)
        self.site('rewrite:empty-tag-entry-ends-the-search', x, g1(E, '$emptyhit', 0) == 0,
                  'a virtualdomains entry with an empty tag (an exception) was found and the search goes on to a less specific entry', E)
        if self.geo:
            lv = args[2]
            ln = next(iter(lv)) if lv is not TOP and len(lv) == 1 and isinstance(next(iter(lv)), int) else None
            iv = LEN - ln if ln is not None else None
            # the key pointer must be addr.s + i for the same i
            pv = args[1]
            pk = None
            if pv is not TOP and len(pv) == 1:
                (a,) = pv
                if isinstance(a, tuple) and a[0] == '&':
                    pk = a[1]
            okp = True
            kx = x.args[1].strip()
            if kx.k == 'bin' and kx.op == '+':
                off = E.val(kx.args[1])
                okp = off is not TOP and off == fs(iv)
            self.site('rewrite:virtualdomains-lookup-is-the-suffix-from-i', x, iv is not None and 0 <= iv <= LEN and okp, 'lookup of %s bytes starting at offset %s (len %d)' % (ln, sorted(E.val(kx.args[1])) if kx.k == 'bin' and E.val(kx.args[1]) is not TOP else '?', LEN), E)
            dot = E.get('%s.s[%d]' % (self._addr, iv)) if iv is not None and iv < LEN else None
            self.cands.add((iv, None if dot is None or dot is TOP or len(dot) != 1 else next(iter(dot)) == DOT))
            prev = g1(E, '$lasti', -1)
            self.site('rewrite:most-specific-first', x, iv is not None and iv > prev, 'candidate positions visited out of order (%s after %s)' % (iv, prev), E)
            sets['$lasti'] = fs(iv)
        return [Outcome(ret=fs(0), sets=sets),
                Outcome(ret=fs(('str', '')), sets=dict(sets, **{'$emptyhit': fs(1)}), log='virtualdomains hit, empty tag'),
                Outcome(ret=fs(('str', 'tag')), sets=dict(sets, **{'$vhit': fs(1)}), log='virtualdomains hit, tag')]

    def on_assign(self, E, x, path, val):
        # the percent hack shortens the address (user%host@domain -> user@host): from here on it is another address
        if path and getattr(self, '_addr', None) and path == self._addr + '.len' and g1(E, '$stage', 0) == 1:
            E.set('$pctmiss', fs(0))
            E.set('$rewrote', fs(min(g1(E, '$rewrote', 0) + 1, 3)))

    def on_return(self, E, fn, val):
        rw = tuple(g1(E, '$rw', ()))
        v = next(iter(val)) if val is not TOP and len(val) == 1 else None
        key = ('local' if g1(E, '$local', 0) else 'vtag' if g1(E, '$vhit', 0) else 'vempty' if g1(E, '$emptyhit', 0) else 'none')
        if v == 0:
            return
        if not self.geo and fn.name == 'rewrite':
            self.site('rewrite:percent-hack-applies-repeatedly', None, g1(E, '$pctmiss', 0) == 1,
                      'after %d percent-hack rewriting(s) the rewritten address is not looked up in control/percenthack again' % g1(E, '$rewrote', 0), E)
            self.pct_max = max(getattr(self, 'pct_max', 0), g1(E, '$rewrote', 0))
        self.returns.setdefault(key, set()).add((v, rw))
        T, A, N = ('lit', 'T'), ('sa', 'addr'), ('nul',)
        if key == 'local':
            self.site('rewrite:locals-hit->local,address-unchanged', None, v == 1 and rw == (T, A, N), 'locals hit returns %s with record %s' % (v, rw), E)
        elif key == 'vtag':
            self.site('rewrite:virtualdomains-tag->local,tag-dash-address', None, v == 1 and rw == (T, ('tag', 'tag'), ('lit', '-'), A, N), 'tagged virtual domain returns %s with record %s' % (v, rw), E)
        else:
            self.site('rewrite:no-match-or-empty-tag->remote,address-unchanged', None, v == 2 and rw == (T, A, N), '%s returns %s with record %s' % (key, v, rw), E)


class ControlFileHooks(QHooks):
    """control_readfile() over a scripted file: which entries reach the list"""
    def __init__(self, lines):
        self.lines = lines
        self.ends = []

    def tracked_global(self, path):
        return True

    def precise_arith(self, path):
        return True

    @staticmethod
    def ptr(v):
        if v is not TOP and v is not None and len(v) == 1:
            (a,) = v
            if isinstance(a, tuple) and a[0] == '&':
                return a[1]
        return None

    def prim_stralloc_copys(self, E, x, args):
        sa = self.ptr(args[0])
        return [Outcome(ret=fs(1), sets={sa + '.len': fs(0), '$out': fs(())})]

    def prim_open_read(self, E, x, args):
        return [Outcome(ret=fs(('fd', 'control')))]

    def prim_substdio_fdbuf(self, E, x, args):
        return [Outcome(ret=TOP)]

    def prim_close(self, E, x, args):
        return [Outcome(ret=TOP)]

    def prim_getln(self, E, x, args):
        sa, mp = self.ptr(args[1]), self.ptr(args[2])
        if sa is None or mp is None:
            raise AnalysisBroken('control_readfile: getln() shape changed')
        n = g1(E, '$n', 0)
        if n >= len(self.lines):
            return [Outcome(ret=fs(0), sets={mp: fs(0), sa + '.len': fs(0)})]
        ln = self.lines[n]
        st = {mp: fs(1 if ln.endswith('\n') else 0), sa + '.len': fs(len(ln)), sa + '.s': fs(('&', sa + '.s[0]')), '$n': fs(n + 1)}
        for i, ch in enumerate(ln):
            st['%s.s[%d]' % (sa, i)] = fs(ord(ch))
        return [Outcome(ret=fs(0), sets=st, log='line %r' % ln)]

    def prim_stralloc_append(self, E, x, args):
        sa = self.ptr(args[0])
        ln = g1(E, sa + '.len')
        if not isinstance(ln, int):
            return [Outcome(ret=fs(1))]
        return [Outcome(ret=fs(1), sets={'%s.s[%d]' % (sa, ln): fs(0), sa + '.len': fs(ln + 1), sa + '.s': fs(('&', sa + '.s[0]'))})]

    prim_stralloc_0 = prim_stralloc_append

    def prim_stralloc_cat(self, E, x, args):
        src = self.ptr(args[1])
        ln = g1(E, src + '.len')
        bs = [g1(E, '%s.s[%d]' % (src, i)) for i in range(ln)] if isinstance(ln, int) and 0 <= ln < 64 else None
        item = ''.join(chr(b) if isinstance(b, int) else '?' for b in bs) if bs is not None else None
        return [Outcome(ret=fs(1), sets={'$out': fs(tuple(g1(E, '$out', ())) + (item,))})]

    def on_return(self, E, fn, val):
        if fn.name == 'control_readfile':
            self.ends.append((g1(E, '$out', ()), next(iter(val)) if val is not TOP and len(val) == 1 else None, E.trace.list()))


def control_file_sites(db, rep, prog):
    fn = db.fn('control.c', 'control_readfile')
    files = [['a.com\n', '\n', '# c\n', 'b.org  \t\n', '   \n', 'last'], [], ['#x'], [' lead\n'], ['\n', '\n'], ['x\n', ' \t']]
    bad = None
    for lines in files:
        H = ControlFileHooks(lines)
        e = Engine(db, prog, H)
        fid = e.frame_id(fn)
        e.run(fn, {'%s::%s' % (fid, fn.params[0]): fs(('&', 'SA')), '%s::%s' % (fid, fn.params[2]): fs(0)})
        rep.count_states(e.states, e.transitions)
        want = []
        for ln in lines:
            t = ln.rstrip('\n \t')
            if t and t[0] != '#':
                want.append(t + '\0')
        if len(H.ends) != 1:
            raise AnalysisBroken('control_readfile: %d ends explored for a scripted file' % len(H.ends))
        out, ret, tr = H.ends[0]
        if list(out) != want or ret != 1:
            bad = bad or ('a control file with the lines %s yields the entries %s (result %s); documented: blank lines and # comments are skipped, trailing blanks removed: %s' % (lines, list(out), ret, want), tr)
    return {'control_readfile:entries=non-empty-non-comment-lines-trimmed': (bad is None, 'control.c:control_readfile', bad[0] if bad else '%d scripted files' % len(files), bad[1] if bad else [])}



def constmap_hash_sites(db, rep, prog):
    """constmap's hash() on one-byte keys, evaluated by the engine for every letter and some other bytes (positional parameters)"""
    hf = db.fn('constmap.c', 'hash')

    class HH(QHooks):
        def __init__(self):
            self.res = {}

        def tracked_global(self, path):
            return True

        def precise_arith(self, path):
            return True

        def on_return(self, E, fn, val):
            if fn.name == 'hash':
                self.res[g1(E, '$b')] = val
    hh = HH()
    for b in list(range(65, 91)) + list(range(97, 123)) + [48, 64, 91, 96, 123, 45, 46, 200 - 256]:
        e = Engine(db, prog, hh)
        fid = e.frame_id(hf)
        e.run(hf, {'%s::%s' % (fid, hf.params[0]): fs(('&', 'BUF[0]')), '%s::%s' % (fid, hf.params[1]): fs(1), 'BUF[0]': fs(b), '$b': fs(b)})
        rep.count_states(e.states, e.transitions)

    def hv(b):
        v = hh.res.get(b)
        return next(iter(v)) if v is not None and v is not TOP and len(v) == 1 else None
    badf = [chr(u) for u in range(65, 91) if hv(u) is None or hv(u) != hv(u + 32)]
    distinct = len({hv(b) for b in (48, 64, 91, 96, 123, 45, 46, 97, 98)}) == 9
    return {'hash-folds-A-Z-onto-a-z': (not badf, 'constmap.c:hash', 'hash("A".."Z") must equal hash("a".."z"); it differs for %s: a list entry and an address that differ in the case of that letter never meet' % badf, []),
            'hash-distinguishes-other-bytes': (distinct, 'constmap.c:hash', 'hash of single non-letter bytes collide', [])}


def constmap_table_sites(db, rep, prog):
    """constmap_init() on a concrete list, then constmap() for concrete keys: a key is found exactly when it equals an entry
    (the part before the colon, for a colon table) up to the case of A-Z, and the value handed back is the text after it"""
    from rules import libtab as _lt
    ci = db.fn('constmap.c', 'constmap_init')
    cm = db.fn('constmap.c', 'constmap')

    class CM(_lt.SAConc, _lt.Conc):
        def prim_alloc(self, E, x, args):
            k = (_lt._one(E.get('$heap')) or 0) + 1
            return [Outcome(ret=fs(('&', 'HEAP%d[0]' % k)), sets={'$heap': fs(k)})]

        def prim_alloc_free(self, E, x, args):
            return [Outcome(ret=TOP)]

        prim_malloc = prim_alloc
        prim_free = prim_alloc_free
    bad = None
    n = 0
    for flagcolon, entries in ((0, [b'Abc', b'x.Y', b'', b'k:v', b'abd']), (1, [b'Abc:one', b'nocolon', b'x.Y:', b':empty', b'abc2:two:2'])):
        tab = b''.join(e + b'\0' for e in entries)
        H = CM('constmap_init')
        st = {0: fs(('&', 'CM')), 1: fs(('&', 'TAB[0]')), 2: fs(len(tab)), 3: fs(flagcolon)}
        st.update(_lt.conc_string_cells('TAB', tab, terminate=False))
        _lt._run_conc(db, rep, prog, ci, st, 'constmap_init', H)
        if len(H.ends) != 1 or _lt.one(H.ends[0][1]) != 1:
            raise AnalysisBroken('constmap_init: %d ends (result %s) for a %d-entry list' % (len(H.ends), [e[1] for e in H.ends][:2], len(entries)))
        built = {k: v for k, v in H.ends[0][0].items() if '::' not in k}
        want = {}
        off = 0
        for e in entries:
            start, off = off, off + len(e) + 1
            if flagcolon:
                if b':' not in e:
                    continue
                key, val = e.split(b':', 1)
            else:
                key, val = e, None
            want[key.lower()] = (val, start + len(key) + 1)       # a later entry with the same key is found first
        keys = [b'abc', b'ABC', b'aBc', b'abd', b'abe', b'ab', b'abcd', b'X.y', b'x.y', b'', b'k', b'k:v', b'nocolon', b'abc2', b'abc:one', b'[bc', b'ABC2']
        for key in keys:
            H2 = CM('constmap')
            st2 = dict(built)
            st2.update({0: fs(('&', 'CM')), 1: fs(('&', 'KEY[0]')), 2: fs(len(key))})
            st2.update(_lt.conc_string_cells('KEY', key + b'#', terminate=False))
            _lt._run_conc(db, rep, prog, cm, st2, 'constmap', H2)
            n += 1
            if len(H2.ends) != 1:
                raise AnalysisBroken('constmap: %d ends for the key %r' % (len(H2.ends), key))
            got = _lt.one(H2.ends[0][1])
            exp = want.get(key.lower())
            if exp is None:
                okk = got == 0
            else:
                okk = got == ('&', 'TAB[%d]' % exp[1])
            if not okk and bad is None:
                bad = 'list %r (%s): the key %r gives %s; documented: %s' % ([e.decode() for e in entries], 'key:value entries' if flagcolon else 'plain entries', key.decode(), got,
                                                                              'not listed (0)' if exp is None else 'the text after the entry %r' % key.decode())
    return {'constmap:found-iff-listed-up-to-case,value-is-the-text-after-the-key': (bad is None, 'constmap.c', bad or '%d lookups in 2 tables' % n, [])}


def run(ctx):
    db, rep = ctx.db, ctx.report
    prog = db.program('qmail-send')
    fn = prog.fn('rewrite', 'qmail-send.c')
    r1 = rep.rule('C10.1-precedence-and-outcomes', 'R-TABLE', 'rewrite(): default host first, percent hack (a loop) before locals before virtualdomains; outcome table over abstract lookup results; an empty tag ends the search')
    # rewrite() finds the @ and the % with byte_rchr()
    from rules import libtab as _lt
    for inst_, v_ in sorted(_lt.byte_rchr_sites(db, rep, prog).items()):
        r1.check(v_[0], inst_, v_[1], v_[2], v_[3])
    H = RewriteHooks(False)
    eng = Engine(db, prog, H)
    eng.run(fn, {})
    rep.count_states(eng.states, eng.transitions)
    for inst, v in sorted(H.sites.items()):
        r1.check(v[0], inst, v[1], v[2], v[3])
    if getattr(H, 'pct_max', 0) < 2 and all(v[0] for v in H.sites.values()):
        raise AnalysisBroken('rewrite: repeated percent-hack rewriting not explored')
    # default host appended iff no @
    ap = [c for c in fn.calls('stralloc_cat') if 'envnoathost' in c.args[1].src()]
    okd = False
    for c in ap:
        for cc, t in fn.guards(c) or []:
            cs = cc.strip()
            if cs.k == 'bin' and cs.op == '==' and t is True and 'addr.len' in cs.src():
                okd = True
    r1.check(okd, 'rewrite:default-host-iff-no-@', fn.unit + ':rewrite', 'envnoathost must be appended exactly when byte_rchr found no @ (i == addr.len)')
    r1.expect_min(8)
    rep.sample({'rewrite() outcome table': {k: sorted(str(x) for x in v) for k, v in H.returns.items()}})

    r2 = rep.rule('C10.2-candidate-positions', 'R-TABLE', 'virtualdomains candidates: position 0 (whole address), at+1 (domain), every dot after the @, len (catch-all), visited in increasing order; lookups cover the suffix from i (geometry len=%d, at=%d, every dot pattern)' % (LEN, AT))
    H2 = RewriteHooks(True)
    eng2 = Engine(db, prog, H2, max_states=400000)
    eng2.run(fn, {})
    rep.count_states(eng2.states, eng2.transitions)
    for inst, v in sorted(H2.sites.items()):
        if inst in ('rewrite:locals-lookup-is-the-domain-part', 'rewrite:virtualdomains-lookup-is-the-suffix-from-i', 'rewrite:most-specific-first'):
            r2.check(v[0], inst, v[1], v[2], v[3])
    always = {i for i, d in H2.cands}
    want_always = {0, AT + 1, LEN}
    dots = {i for i, d in H2.cands if d is True}
    nondots = {i for i, d in H2.cands if d is False}
    r2.check(want_always <= always, 'candidates-include-whole,domain,catch-all', fn.unit + ':rewrite', 'candidate positions seen: %s' % sorted(always))
    r2.check(set(range(AT + 2, LEN)) <= dots, 'every-dot-after-the-@-is-a-candidate', fn.unit + ':rewrite', 'dot positions tried: %s' % sorted(dots))
    r2.check(not (nondots - want_always), 'non-dot-positions-are-not-candidates', fn.unit + ':rewrite', 'non-dot positions tried: %s' % sorted(nondots - want_always))
    r2.check(not ({i for i in always if 0 < i <= AT}), 'no-candidate-inside-the-local-part', fn.unit + ':rewrite', 'positions inside the local part tried: %s' % sorted(i for i in always if 0 < i <= AT))
    r2.expect_min(6)
    rep.exhaustive_rules.append('C10.2-candidate-positions')

    r3 = rep.rule('C10.3-case-folding', 'R-SIBLING', 'constmap: the hash folds A-Z onto a-z (evaluated for every letter), lookups and table construction use the same hash, matches use case_diffb')
    # the comparison constmap() ends in
    from rules import libtab as _lt
    for inst_, v_ in sorted(_lt.case_diffb_sites(db, rep, prog).items()):
        r3.check(v_[0], inst_, v_[1], v_[2], v_[3])
    hf = db.fn('constmap.c', 'hash')
    cm = db.fn('constmap.c', 'constmap')
    ci = db.fn('constmap.c', 'constmap_init')
    for inst_, v_ in sorted(constmap_table_sites(db, rep, prog).items()):
        r3.check(v_[0], inst_, v_[1], v_[2], v_[3])
    for inst_, v_ in sorted(constmap_hash_sites(db, rep, prog).items()):
        r3.check(v_[0], inst_, v_[1], v_[2], v_[3])
    r3.expect_min(3)

    r6 = rep.rule('C10.6-control-files', 'R-TABLE', 'control_readfile(): the list handed to constmap holds exactly the non-empty, non-comment lines with trailing blanks removed (so an empty domain is never "listed")')
    for inst, v in sorted(control_file_sites(db, rep, prog).items()):
        r6.check(v[0], inst, v[1], v[2], v[3])
    from rules import C14 as _c14c
    v_ = _c14c.control_value_sites(db, rep)['controls:only-locals-defaults-to-me']
    r6.check(v_[0], 'controls:only-locals-defaults-to-me', v_[1], v_[2], v_[3])
    r6.expect_min(2)
    r7 = rep.rule('C10.7-per-recipient-senders', 'R-TABLE', 'senderadd() over a sequence of deliveries with the sender buffer reused: owner-@host-@[] becomes owner-box=domain@host from this call\'s sender and recipient, every other sender is copied unchanged (VERP expansion as documented in addresses(5))')
    for inst_, v_ in sorted(qsend.senderadd_sites(db, rep).items()):
        r7.check(v_[0], inst_, v_[1], v_[2], v_[3])
    r7.expect_min(1)
    r4 = rep.rule('C10.4-one-record-per-recipient', 'R-TYPESTATE', 'todo_do: exactly one channel record (rwline) per T record, to the channel rewrite() chose, in file order')
    td = qsend.analyse_todo_do(db, rep)
    attach(r4, td, only={'todo:exactly-one-channel-record-per-T', 'todo:no-channel-record-for-non-T', 'todo:channel-record-is-rwline',
                         'todo:record-goes-to-the-channel-rewrite-chose', 'todo:rewrite-only-for-T-records',
                         # a channel file left over from an interrupted attempt would keep recipients the new routing sends elsewhere
                         'todo:nothing-removed-after-files-are-being-written', 'todo:old-files-removed-only-after-todo-opened-and-mess-stat',
                         'todo:removes-only-info-and-channel-files'})
    r4.expect_min(7)

    r5 = rep.rule('C10.5-HUP', 'R-SIBLING', 'HUP sets flagreadasap; the loop calls reread -> regetcontrols, which re-reads both files before freeing, and rebuilds each map with the same colon flag as getcontrols')
    for inst_, v_ in sorted(qsend.reread_sites(db, rep).items()):
        r5.check(v_[0], inst_, v_[1], v_[2], v_[3])
    attach(r5, qsend.analyse_main(db, rep), only={'main:HUP-flag-cleared-before-the-controls-are-re-read', 'main:HUP-handled-before-the-wakeup-time-is-computed'})
    gc = prog.fn('getcontrols', 'qmail-send.c')
    rg = prog.resolve('regetcontrols', 'qmail-send.c') or prog.fn('reread', 'qmail-send.c')       # the re-read may live in reread() itself

    class MapHooks(QHooks):
        """getcontrols()/regetcontrols() over the outcomes of reading the two list files: which maps are freed and rebuilt, from what, with which colon flag"""
        def __init__(self, outcomes):
            self.outcomes = outcomes          # control file name -> result of control_readfile
            self.ends = []

        def tracked_global(self, path):
            return True

        def precise_arith(self, path):
            return True

        def ev(self, E, e):
            E.set('$ev', fs(tuple(g1(E, '$ev', ())) + (e,)))

        def materialize(self, E, path):
            if path.endswith('.s') and path.startswith('G:'):
                return fs(('&', path + '[0]'))         # the text of a list: recognisable by the object it belongs to
            return TOP

        def prim_control_readfile(self, E, x, args):
            fnm = lit_of(E, x.args[1])
            dst = g1v(args[0])
            r_ = self.outcomes.get(fnm, 1)
            self.ev(E, ('read', fnm, r_, dst[1] if isinstance(dst, tuple) else None))
            return [Outcome(ret=fs(r_), sets={'$from:%s' % (dst[1] if isinstance(dst, tuple) else dst): fs(fnm)} if r_ == 1 else {})]

        def prim_stralloc_copy(self, E, x, args):
            dst, src = g1v(args[0]), g1v(args[1])
            if isinstance(dst, tuple) and isinstance(src, tuple):
                f_ = g1(E, '$from:%s' % src[1])
                return [Outcome(ret=fs(1), sets={'$from:%s' % dst[1]: fs(f_)} if f_ else {})]
            return [Outcome(ret=fs(1))]

        def prim_constmap_free(self, E, x, args):
            self.ev(E, ('free', g1v(args[0])))
            return [Outcome(ret=TOP)]

        def prim_constmap_init(self, E, x, args):
            src = g1v(args[1])
            origin = None
            base = None
            if isinstance(src, tuple) and src[0] == '&':
                base = src[1][:-len('.s[0]')] if src[1].endswith('.s[0]') else src[1]
                origin = g1(E, '$from:%s' % base)
            elif isinstance(src, tuple) and src[0] == 'str':
                origin = ('lit', src[1])
            self.ev(E, ('init', g1v(args[0]), origin, g1v(args[3]), g1v(args[2]), base))
            return [Outcome(ret=fs(1))]

        def _ok1(self, E, x, args):
            return [Outcome(ret=fs(1))]

        def _ok0(self, E, x, args):
            return [Outcome(ret=fs(0))]

        def _n(self, E, x, args):
            return [Outcome(ret=TOP)]

        prim_control_rldef = prim_control_readint = prim_control_readline = prim_stralloc_cats = prim_stralloc_cat = prim_stralloc_0 = prim_stralloc_copys = prim_stralloc_append = _ok1
        prim_stralloc_catb = prim_stralloc_copyb = prim_stralloc_ready = prim_stralloc_readyplus = _ok1
        prim_control_init = prim_chdir = _ok0
        prim_log1 = prim_log2 = prim_log3 = prim_nomem = _n

        def on_return(self, E, fn, val):
            if fn.name in ('getcontrols', rg.name):
                self.ends.append((g1v(val) if val is not TOP else None, tuple(g1(E, '$ev', ())), E.trace.list()))

    from rules.qsend import g1v
    LOC, VD = 'control/locals', 'control/virtualdomains'

    def maps(fn_, outcomes):
        H_ = MapHooks(outcomes)
        e_ = Engine(db, prog, H_, max_states=200000)
        e_.run(fn_, {})
        rep.count_states(e_.states, e_.transitions)
        if len(H_.ends) != 1:
            raise AnalysisBroken('%s: %d ends explored for read outcomes %s' % (fn_.name, len(H_.ends), outcomes))
        return H_.ends[0]
    # start-up: which flag each map gets
    _, ev0, _ = maps(gc, {LOC: 1, VD: 1})
    flags0 = {e[1]: e[3] for e in ev0 if e[0] == 'init'}
    if not {('&', 'G:maplocals'), ('&', 'G:mapvdoms')} <= set(flags0):
        raise AnalysisBroken('getcontrols: maps initialised: %s' % sorted(flags0))
    r5.check(flags0[('&', 'G:maplocals')] == 0 and flags0[('&', 'G:mapvdoms')] == 1, 'start-up-colon-flags', gc.unit + ':getcontrols',
             'locals must be a plain list (flag 0) and virtualdomains a key:value list (flag 1); found %s' % flags0)
    bad5 = {}
    for oc in ({LOC: 1, VD: 1}, {LOC: 1, VD: 0}, {LOC: -1, VD: 1}, {LOC: 0, VD: 1}, {LOC: 1, VD: -1}):
        _, ev, tr = maps(rg, oc)
        frees = [e[1] for e in ev if e[0] == 'free']
        inits = [e for e in ev if e[0] == 'init']
        reads_ok = oc[LOC] == 1 and oc[VD] != -1
        txt = 'control/locals read with result %d, control/virtualdomains with %d' % (oc[LOC], oc[VD])
        if not reads_ok:
            if frees or inits:
                bad5.setdefault('reread-succeeds-before-anything-is-freed', ('%s: maps freed %s, rebuilt %s although the re-read failed: the daemon goes on with empty or half-built routing tables' % (txt, frees, [i[1] for i in inits]), tr))
            continue
        # nothing is freed before both files were read
        first_free = min([k for k, e in enumerate(ev) if e[0] == 'free'] or [len(ev)])
        n_reads_before = len([e for e in ev[:first_free] if e[0] == 'read'])
        if n_reads_before < 2:
            bad5.setdefault('reread-succeeds-before-anything-is-freed', ('%s: a map is freed after %d of the 2 files were read' % (txt, n_reads_before), tr))
        got = {i[1]: i for i in inits}
        if set(got) != {('&', 'G:maplocals'), ('&', 'G:mapvdoms')} or len(inits) != 2:
            bad5.setdefault('both-maps-rebuilt', ('%s: maps rebuilt on HUP: %s' % (txt, [i[1] for i in inits]), tr))
            continue
        for m_, i_ in got.items():
            if i_[3] != flags0[m_]:
                bad5.setdefault('colon-flag-agrees:%s' % m_[1][2:], ('%s: constmap_init(&%s,..,%s) on HUP, %s at start-up' % (txt, m_[1][2:], i_[3], flags0[m_]), tr))
            k_init = ev.index(i_)
            if m_ not in [e[1] for e in ev[:k_init] if e[0] == 'free']:
                bad5.setdefault('free-before-init:%s' % m_[1][2:], ('%s: map %s re-initialised without being freed' % (txt, m_[1][2:]), tr))
        # a constmap keeps pointers into the text it was built from: that text must not be a buffer the next re-read fills before it
        # knows whether it will succeed (a failed second HUP would leave the live tables pointing into overwritten or freed memory)
        scratch = {e[3] for e in ev if e[0] == 'read' and len(e) > 3 and e[3]}
        shared = sorted(i_[1][1][2:] for i_ in inits if len(i_) > 5 and i_[5] in scratch)
        if shared:
            bad5.setdefault('live-maps-own-their-text', ('%s: %s built directly on the buffer control_readfile() reads into (%s): the next re-read overwrites or reallocates that buffer first and returns early on an error, leaving the table in use pointing into it' % (
                txt, shared, sorted(b_[2:] for b_ in scratch)), tr))
        want_l, want_v = LOC, (VD if oc[VD] == 1 else ('lit', ''))
        if got[('&', 'G:maplocals')][2] != want_l or (got[('&', 'G:mapvdoms')][2] != want_v and not (oc[VD] == 0 and got[('&', 'G:mapvdoms')][4] == 0)):
            bad5.setdefault('maps-rebuilt-from-the-files-just-read', ('%s: maplocals is rebuilt from %s, mapvdoms from %s (documented: the new contents of the two files; no virtualdomains file = empty map)' %
                                                                      (txt, got[('&', 'G:maplocals')][2], got[('&', 'G:mapvdoms')][2]), tr))
    for k_ in ('reread-succeeds-before-anything-is-freed', 'both-maps-rebuilt', 'colon-flag-agrees:maplocals', 'colon-flag-agrees:mapvdoms',
               'free-before-init:maplocals', 'free-before-init:mapvdoms', 'maps-rebuilt-from-the-files-just-read', 'live-maps-own-their-text'):
        r5.check(k_ not in bad5, k_, rg.unit + ':regetcontrols', bad5[k_][0] if k_ in bad5 else '', bad5[k_][1] if k_ in bad5 else None)
    sh = prog.fn('sighup', 'qmail-send.c')
    r5.check(any(x.k == 'asg' and x.args[0].path() == 'G:flagreadasap' and x.args[1].const == 1 for x in sh.all_x()), 'sighup-sets-flagreadasap', sh.unit + ':sighup', '')
    mainf = prog.fn('main', 'qmail-send.c')
    from qv.lib import deep_calls, guards_through, branch_zero_test
    rr = deep_calls(prog, mainf, 'reread', depth=2)
    okrr = bool(rr) and all(any(branch_zero_test(c, t, lambda v: v.path() == 'G:flagreadasap') == 'nonzero' for c, t in guards_through(prog, mainf, f_, c_, fresh=False)) for f_, c_ in rr)
    r5.check(okrr, 'loop-calls-reread-when-flagged', mainf.unit + ':main', 'reread() is not reached under "flagreadasap is set" from the main loop')
    rrf = prog.fn('reread', 'qmail-send.c')
    r5.check(rg is rrf or bool(rrf.calls(rg.name)), 'reread-calls-regetcontrols', rrf.unit + ':reread', '')
    r5.expect_min(11)
    rep.assume('which entry wins for a given address, the percent-hack arithmetic and VERP expansion text are string computations and are not decided',
               'constmap_init stores keys up to the colon when flagcolon is set')
