"""C17 — address quoting and parsing agree; header recipients become the envelope
(table-agreement clauses only; the round trip over all strings is not decidable here)."""
from qv.core import AnalysisBroken
from qv.esp import Engine, Outcome, TOP, fs
from qv.lib import QHooks

CHARS = frozenset(range(-128, 128))


def g1(E, k, d=None):
    v = E.get(k)
    return next(iter(v)) if v else d


def disjunct_consts(fn, body_block, lhs_pred):
    """constants K such that a block testing `lhs == K` jumps to body_block when true"""
    out = set()
    for b in fn.blocks.values():
        c = b.cond
        if c is None:
            continue
        s = c.strip()
        if s.k == 'bin' and s.op == '==' and s.args[1].const is not None and lhs_pred(s.args[0]) and b.succs and b.succs[0] == body_block:
            out.add(s.args[1].const)
    return out


def switch_cases(fn, blk):
    s = set()
    for t in blk.succs:
        lab = fn.blocks[t].label if t is not None else None
        if lab and lab.get('k') == 'case' and lab.get('lo') is not None:
            s |= set(range(lab['lo'], lab['hi'] + 1))
    # nested fall-through labels: blocks reached only through empty case blocks
    for b in fn.blocks.values():
        lab = b.label
        if lab and lab.get('k') == 'case' and lab.get('lo') is not None and any(p in {x.id for x in fn.blocks.values()} for p in b.preds):
            pass
    return s


def run(ctx):
    db, rep = ctx.db, ctx.report
    prog = db.program('qmail-inject')
    # ---------------------------------------------------------------- 1. character classes
    r1 = rep.rule('C17.1-character-class-agreement', 'R-SIBLING', 'every byte quote_need() leaves unquoted is an atom byte for token822 and not special to qmail-smtpd\'s addrparse; bytes >= 128 are quoted; doit() escapes at least what the parsers treat specially inside quotes; addresses are split at the LAST @')
    qu = db.unit('quote.c')
    okt = qu.globals.get('ok')
    if not okt or okt.get('init', {}).get('k') != 'list' or len(okt['init']['v']) != 128:
        raise AnalysisBroken('quote.c: ok[128] table not found')
    ok = [e.get('v') for e in okt['init']['v']]
    unq = {b for b in range(128) if ok[b]}
    # atomok partition over all bytes
    ao = db.fn('token822.c', 'atomok')

    class AH(QHooks):
        def __init__(self):
            self.part = []

        def on_return(self, E, fn, val):
            self.part.append((val, E.get(self.key)))
    ah = AH()
    eng = Engine(db, prog, ah)
    eng.keep_dead = True
    ah.key = '%s::%s' % (eng.frame_id(ao), ao.params[0])
    eng.run(ao, {ah.key: CHARS})
    rep.count_states(eng.states, eng.transitions)
    atom = set()
    cov = set()
    for val, ch in ah.part:
        if ch is TOP:
            raise AnalysisBroken('atomok(): partition lost')
        cov |= ch
        if val is TOP or any(v != 0 for v in val):
            atom |= {c for c in ch}
    if cov != CHARS:
        raise AnalysisBroken('atomok(): partition incomplete')
    r1.check((unq - {ord('.')}) <= atom, 'unquoted-bytes-are-atom-bytes', 'quote.c/token822.c', 'bytes left unquoted by quote_need() but not atom bytes for token822: %s' % [chr(b) for b in sorted(unq - atom - {ord('.')})])
    # dots are allowed only between atoms: leading, trailing and doubled dots force quoting
    qn0 = db.fn('quote.c', 'quote_need')
    dot_rules = 0
    for x in qn0.all_x():
        if x.k == 'ret' and x.args and x.args[0].const == 1:
            if any(c.strip().k == 'bin' and c.strip().op == '==' and c.strip().args[1].const == ord('.') and t is True for c, t in qn0.guards(x) or []):
                dot_rules += 1
    r1.check(dot_rules >= 3, 'leading,trailing,doubled-dots-are-quoted', 'quote.c:quote_need', '%d dot rules found' % dot_rules)
    smtpd_special = {ord(c) for c in '<> "\\@:'}
    r1.check(not (unq & smtpd_special), 'unquoted-bytes-are-not-special-to-addrparse', 'quote.c/qmail-smtpd.c', 'left unquoted although special to addrparse: %s' % [chr(b) for b in sorted(unq & smtpd_special)])
    r1.check(not any(ok[b] for b in range(0, 33)) and not ok[127], 'controls-and-space-are-quoted', 'quote.c', '')
    qn = db.fn('quote.c', 'quote_need')
    hi = False
    for x in qn.all_x():
        if x.k == 'ret' and x.args and x.args[0].const == 1:
            for c, t in qn.guards(x) or []:
                s = c.strip()
                if s.k == 'bin' and s.op == '>=' and s.args[1].const == 128 and t is True:
                    hi = True
    r1.check(hi, 'bytes>=128-are-quoted', 'quote.c:quote_need', '')
    dt = db.fn('quote.c', 'doit')
    esc = [x for x in dt.all_x() if x.k == 'asg' and x.args[1].const == ord('\\')]
    if not esc:
        raise AnalysisBroken('quote.c doit(): escape store not found')
    escset = disjunct_consts(dt, dt.pos[esc[0].id][0], lambda v: (v.var or '').startswith('L:ch'))
    r1.check({ord('"'), ord('\\')} <= escset, 'quoted-string-escapes-cover-quote-and-backslash', 'quote.c:doit', 'doit() escapes %s' % sorted(escset))
    q2 = db.fn('quote.c', 'quote2')
    jdef = [x.args[1].strip() for x in q2.all_x() if x.k == 'asg' and (x.args[0].var or '').startswith('L:j')]
    r1.check(bool(jdef) and jdef[0].k == 'call' and jdef[0].callee in ('str_rchr', 'byte_rchr', 'strrchr') and jdef[0].args[-1].const == ord('@'), 'quote2-splits-at-the-last-@', 'quote.c:quote2',
             'the local part is everything before the position found by %s: with the FIRST @ the rest of a local part containing "@" is emitted unquoted' % (jdef[0].callee if jdef and jdef[0].k == 'call' else '?'))
    r1.expect_min(7)
    rep.exhaustive_rules.append('C17.1-character-class-agreement')

    # ---------------------------------------------------------------- 1c. two-pass agreement in token822_unparse / unquote
    r2 = rep.rule('C17.2-two-pass-agreement', 'R-SIBLING', 'token822_unparse and token822_unquote: the length pre-computation and the emission handle the same token kinds and escape the same bytes; the escape set covers what the parser treats specially')
    tm = {k: db.unit('token822.c').macro_int(k) for k in db.unit('token822.c').macros if k.startswith('TOKEN822_')}
    for fname in ('token822_unparse', 'token822_unquote'):
        fn = db.fn('token822.c', fname)
        outer, inner = [], []
        for b in fn.blocks.values():
            if b.term and b.term.get('k') == 'switch' and b.cond is not None:
                src = b.cond.src()
                cs = set()
                for t in b.succs:
                    lab = fn.blocks[t].label if t is not None else None
                    if lab and lab.get('k') == 'case' and lab.get('lo') is not None:
                        cs |= set(range(lab['lo'], lab['hi'] + 1))
                # fall-through labels: a case block whose only predecessor is another case block
                work = [t for t in b.succs if t is not None]
                seen = set()
                while work:
                    t = work.pop()
                    if t in seen:
                        continue
                    seen.add(t)
                    blk = fn.blocks[t]
                    if blk.label and blk.label.get('k') == 'case' and blk.label.get('lo') is not None:
                        cs |= set(range(blk.label['lo'], blk.label['hi'] + 1))
                        if not blk.elems:
                            work.extend(s for s in blk.succs if s is not None)
                (outer if 'type' in src else inner).append(frozenset(cs))
        r2.check(len(outer) == 2, '%s:has-a-length-pass-and-an-emission-pass' % fname, 'token822.c:' + fname, 'switches over the token kind: %d' % len(outer))
        if inner:
            r2.check(len(inner) == 2 and inner[0] == inner[1], '%s:both-passes-escape-the-same-bytes' % fname, 'token822.c:' + fname, 'escaped bytes per pass: %s' % [sorted(s) for s in inner])
            r2.check({ord('"'), ord('\\'), ord('('), ord(')'), ord('['), ord(']')} <= inner[0], '%s:escapes-cover-the-parser-specials' % fname, 'token822.c:' + fname, 'escaped: %s' % [chr(c) for c in sorted(inner[0])])
    r2.expect_min(3)

    # ---------------------------------------------------------------- 1d. display-name skipping
    r3 = rep.rule('C17.3-phrase-skipping', 'R-TABLE', 'token822_addrlist: after a route address the display-name phrase to its left is skipped as a whole: the skipped token kinds include atoms, quoted strings and comments')
    al = db.fn('token822.c', 'token822_addrlist')
    # the skipping loop: the only while-loop whose condition tests t->type == COMMENT
    best = None
    for b in al.blocks.values():
        c = b.cond
        if c is None:
            continue
        s = c.strip()
        if s.k == 'bin' and s.op == '==' and s.args[0].src().endswith('t->type') and s.args[1].const == tm.get('TOKEN822_ATOM') and b.succs:
            body = b.succs[0]
            ks = disjunct_consts(al, body, lambda v: v.src().endswith('t->type'))
            if len(ks) >= 2:
                best = ks
    if best is None:
        raise AnalysisBroken('token822_addrlist: phrase-skipping loop not found')
    names = {v: k for k, v in tm.items()}
    need = {tm['TOKEN822_ATOM'], tm['TOKEN822_QUOTE'], tm['TOKEN822_COMMENT']}
    r3.check(need <= best, 'phrase=atoms,quoted-strings,comments', 'token822.c:token822_addrlist',
             'the loop skips %s; missing %s: a comment inside a display name ("John Smith (home) <js@x>") would end the skip and the words of the name become extra recipients' %
             (sorted(names.get(k, k) for k in best), sorted(names.get(k, k) for k in need - best)))
    r3.expect_min(1)

    # ---------------------------------------------------------------- 2. header -> envelope table
    r4 = rep.rule('C17.4-header-to-envelope', 'R-TABLE', 'doheaderfield: To/Cc -> recipient + tocc list; Bcc/Apparently-To -> recipient; Resent-To/Cc/Bcc -> resent list; Bcc, Resent-Bcc, Return-Path, Content-Length not saved; the resent list is used iff flagresent; hname[] agrees with H_*')
    iu = db.unit('qmail-inject.c')
    hm = {k: iu.macro_int(k) for k in iu.macros if k.startswith('H_') and k != 'H_NUM'}
    df = prog.fn('doheaderfield', 'qmail-inject.c')

    class DH(QHooks):
        def __init__(self):
            self.tab = {}

        def prim_hfield_known(self, E, x, args):
            return [Outcome(ret=fs(v), sets={'$h': fs(v)}) for v in range(0, 29)]

        def prim_hfield_valid(self, E, x, args):
            return [Outcome(ret=fs(1))]

        def prim_token822_parse(self, E, x, args):
            return [Outcome(ret=fs(1))]

        def prim_token822_addrlist(self, E, x, args):
            v = args[3]
            E.set('$rw', fs(next(iter(v)) if v is not TOP and len(v) == 1 else '?'))
            return [Outcome(ret=fs(1))]

        def prim_doordie_rh(self, E, x, args):
            return [Outcome(ret=fs(1))]

        def prim_token822_unparse(self, E, x, args):
            return [Outcome(ret=fs(1))]

        def prim_savedh_append(self, E, x, args):
            E.set('$saved', fs(1))
            return [Outcome(ret=TOP)]

        def on_return(self, E, fn, val):
            h = g1(E, '$h')
            if g1(E, '$early'):
                return
            self.tab.setdefault(h, set()).add((g1(E, '$rw'), g1(E, '$saved', 0)))

        def on_branch(self, E, cond, truth):
            if cond.path() in ('G:flagdeletefrom', 'G:flagdeletemessid', 'G:flagdeletesender') and truth is True:
                E.set('$early', fs(1))
    dh = DH()
    e = Engine(db, prog, dh)
    e.run(df, {})
    rep.count_states(e.states, e.transitions)
    inv = {v: k for k, v in hm.items()}
    want_rw = {}
    for k in ('H_TO', 'H_CC'):
        want_rw[hm[k]] = ('fn', 'rwtocc')
    for k in ('H_BCC', 'H_APPARENTLYTO'):
        want_rw[hm[k]] = ('fn', 'rwhr')
    for k in ('H_R_TO', 'H_R_CC', 'H_R_BCC'):
        want_rw[hm[k]] = ('fn', 'rwhrr')
    nosave = {hm[k] for k in ('H_BCC', 'H_R_BCC', 'H_RETURNPATH', 'H_CONTENTLENGTH')}
    bad = []
    for h in range(0, 29):
        outs = dh.tab.get(h, set())
        if not outs:
            bad.append((inv.get(h, h), 'no outcome'))
            continue
        for rw, saved in outs:
            if h in want_rw and rw != want_rw[h]:
                bad.append((inv.get(h, h), 'rewriter %s, expected %s' % (rw, want_rw[h])))
            if h not in want_rw and rw in (('fn', 'rwtocc'), ('fn', 'rwhr'), ('fn', 'rwhrr')):
                bad.append((inv.get(h, h), 'unexpectedly feeds a recipient list via %s' % (rw,)))
            if (saved == 1) == (h in nosave):
                bad.append((inv.get(h, h), 'saved=%s' % saved))
    r4.check(not bad, 'header-kind->(recipient-list,saved)', 'qmail-inject.c:doheaderfield', 'deviations: %s' % bad[:6])
    lists = {}
    for nm in ('rwtocc', 'rwhr', 'rwhrr'):
        f = prog.fn(nm, 'qmail-inject.c')
        lists[nm] = sorted(c.args[1].src() for c in f.calls('rwappend'))
    r4.check(lists == {'rwtocc': ['&hrlist', '&tocclist'], 'rwhr': ['&hrlist'], 'rwhrr': ['&hrrlist']}, 'rewriters-feed-the-documented-lists', 'qmail-inject.c', '%s' % lists)
    en = prog.fn('exitnicely', 'qmail-inject.c')
    tos = en.calls('qmail_to')
    okr = False
    for c in tos:
        src = c.args[1].src()
        g = en.guards(c) or []
        if 'hrrlist' in src:
            okr = any(cc.path() == 'G:flagresent' and t is True for cc, t in g)
    okn = any('hrlist' in c.args[1].src() and 'hrrlist' not in c.args[1].src() and any(cc.path() == 'G:flagresent' and t is False for cc, t in en.guards(c) or []) for c in tos)
    r4.check(okr and okn, 'resent-list-iff-flagresent', 'qmail-inject.c:exitnicely', '')
    hn = db.unit('hfield.c').globals.get('hname')
    names = [e.get('v') for e in hn['init']['v']] if hn and hn.get('init', {}).get('k') == 'list' else []
    mism = []
    for k, v in hm.items():
        want = k[2:].lower()
        if want.startswith('r_'):
            want = 'resent' + want[2:]
        got = (names[v] or '').replace('-', '') if v < len(names) and isinstance(names[v], str) else None
        if got != want.replace('_', ''):
            mism.append((k, v, names[v] if v < len(names) else None))
    r4.check(len(hm) == 28 and not mism, 'hname[]-agrees-with-H_*', 'hfield.c/hfield.h', 'mismatches: %s' % mism[:5])
    r4.expect_min(4)

    # ---------------------------------------------------------------- 3. rwgeneric order
    r5 = rep.rule('C17.5-rewrite-order', 'R-ORDER', 'rwgeneric: route, extra dot, extra at, no-at (default host), plus, no-dot (default domain), in that order')
    rg = prog.fn('rwgeneric', 'qmail-inject.c')
    order = [c.callee for c in rg.calls() if c.callee and c.callee.startswith('rw')]
    r5.check(order == ['rwroute', 'rwextradot', 'rwextraat', 'rwnoat', 'rwplus', 'rwnodot'], 'rewrite-steps-in-documented-order', 'qmail-inject.c:rwgeneric', 'order: %s' % order)
    rep.assume('the inverse property quote/parse for all addresses and RFC 822 grammar coverage are not decided; only the table agreements that are necessary for it')
