"""C17 — address quoting and parsing agree; header recipients become the envelope
(table-agreement clauses only; the round trip over all strings is not decidable here)."""
from qv.core import AnalysisBroken
from qv.esp import Engine, Outcome, TOP, fs, ptr_add
from qv.lib import QHooks

CHARS = frozenset(range(-128, 128))


def g1(E, k, d=None):
    v = E.get(k)
    return next(iter(v)) if v else d


def disjunct_consts(fn, body_block, lhs_pred):
    """constants K such that a block testing `lhs == K` jumps to body_block when true"""
    out = set()
    for b in fn.blocks.values():
        c = b.cond
        if c is None:
            continue
        s = c.strip()
        if s.k == 'bin' and s.op == '==' and s.args[1].const is not None and lhs_pred(s.args[0]) and b.succs and b.succs[0] == body_block:
            out.add(s.args[1].const)
    return out


def switch_cases(fn, blk):
    s = set()
    for t in blk.succs:
        lab = fn.blocks[t].label if t is not None else None
        if lab and lab.get('k') == 'case' and lab.get('lo') is not None:
            s |= set(range(lab['lo'], lab['hi'] + 1))
    # nested fall-through labels: blocks reached only through empty case blocks
    for b in fn.blocks.values():
        lab = b.label
        if lab and lab.get('k') == 'case' and lab.get('lo') is not None and any(p in {x.id for x in fn.blocks.values()} for p in b.preds):
            pass
    return s


def g1v(v):
    return next(iter(v)) if v is not TOP and v is not None and len(v) == 1 else None


class StrHooks(QHooks):
    """concrete byte strings behind pointers; stralloc objects as (s, len) cells"""
    def __init__(self):
        self.returns = []
        self.events = []

    @staticmethod
    def sa_bytes_of(store, obj):
        n = g1v(store.get(obj + '.len'))
        if not isinstance(n, int) or not 0 <= n < 256:
            return None
        bs = [g1v(store.get('%s.s[%d]' % (obj, k))) for k in range(n)]
        return bytes(b & 255 for b in bs) if all(isinstance(b, int) for b in bs) else None

    def tracked_global(self, path):
        return True

    def precise_arith(self, path):
        return True

    def rd(self, E, p, n):
        out = []
        for i in range(n):
            q = ptr_add(p, i)
            b = g1v(E.get(q[1])) if q is not None else None
            out.append(b if isinstance(b, int) else None)
        return out

    def cstr(self, E, p):
        out = []
        for i in range(64):
            q = ptr_add(p, i) if isinstance(p, tuple) else None
            b = g1v(E.get(q[1])) if q is not None else None
            if not isinstance(b, int):
                return None
            if b == 0:
                return out
            out.append(b)
        return None

    def _ovf(self, E, x, args, f):
        a, b, o = g1v(args[0]), g1v(args[1]), g1v(args[2])
        if not (isinstance(a, int) and isinstance(b, int) and isinstance(o, tuple) and o[0] == '&'):
            return [Outcome(ret=fs(0)), Outcome(ret=fs(1))]
        return [Outcome(ret=fs(0), sets={o[1]: fs(f(a, b))})]

    def prim___builtin_mul_overflow(self, E, x, args):
        return self._ovf(E, x, args, lambda a, b: a * b)

    def prim___builtin_add_overflow(self, E, x, args):
        return self._ovf(E, x, args, lambda a, b: a + b)

    def prim_stralloc_ready(self, E, x, args):
        sa = g1v(args[0])
        if not (isinstance(sa, tuple) and sa[0] == '&'):
            return [Outcome(ret=fs(0)), Outcome(ret=fs(1))]
        return [Outcome(ret=fs(0)), Outcome(ret=fs(1), sets={sa[1] + '.s': fs(('&', sa[1] + '.s[0]')), '$cap:' + sa[1]: fs(g1v(args[1]))})]

    prim_stralloc_readyplus = prim_stralloc_ready

    def prim_str_rchr(self, E, x, args):
        s_, c = self.cstr(E, g1v(args[0])), g1v(args[1])
        if s_ is None or c is None:
            return [Outcome(ret=TOP)]
        return [Outcome(ret=fs(len(s_) - 1 - s_[::-1].index(c) if c in s_ else len(s_)))]

    def prim_str_chr(self, E, x, args):
        s_, c = self.cstr(E, g1v(args[0])), g1v(args[1])
        if s_ is None or c is None:
            return [Outcome(ret=TOP)]
        return [Outcome(ret=fs(s_.index(c) if c in s_ else len(s_)))]

    def prim_byte_rchr(self, E, x, args):
        p, n, c = g1v(args[0]), g1v(args[1]), g1v(args[2])
        if not (isinstance(p, tuple) and isinstance(n, int)):
            return [Outcome(ret=TOP)]
        bs = self.rd(E, p, n)
        pos = n
        for i, b in enumerate(bs):
            if b == c:
                pos = i
        return [Outcome(ret=fs(pos))]

    def prim_str_len(self, E, x, args):
        s_ = self.cstr(E, g1v(args[0]))
        return [Outcome(ret=fs(len(s_)) if s_ is not None else TOP)]

    prim_strlen = prim_str_len

    def prim_stralloc_copys(self, E, x, args):
        sa, src = g1v(args[0]), g1v(args[1])
        s_ = self.cstr(E, src)
        if not (isinstance(sa, tuple) and sa[0] == '&') or s_ is None:
            return [Outcome(ret=fs(0)), Outcome(ret=fs(1))]
        st = {sa[1] + '.s': fs(('&', sa[1] + '.s[0]')), sa[1] + '.len': fs(len(s_))}
        for i, b in enumerate(s_):
            st['%s.s[%d]' % (sa[1], i)] = fs(b)
        return [Outcome(ret=fs(0)), Outcome(ret=fs(1), sets=st)]

    def on_return(self, E, fn, val):
        if fn.name == self.entry:
            self.returns.append((g1v(val) if val is not None else None, dict(E.store), E.trace.list()))


def addrparse_sites(db, rep):
    """qmail-smtpd addrparse() on concrete MAIL/RCPT arguments, against the quoting rules quote() writes by (RFC 821): inside <...>
    (or after the colon), a backslash makes the next byte literal - that byte only -, double quotes toggle quoting and are dropped,
    an unquoted terminator ends the address, a leading source route is skipped.  What qmail-remote's quote() produced for an
    address comes back as that address."""
    from rules import libtab as _lt
    prog = db.program('qmail-smtpd')
    fn = prog.fn('addrparse', 'qmail-smtpd.c')

    def ref(arg):
        i = arg.find(b'<')
        if i >= 0:
            term, rest = b'>', arg[i + 1:]
        else:
            term = b' '
            j = arg.find(b':')
            rest = arg[j + 1:] if j >= 0 else b''
            rest = rest.lstrip(b' ')
        if rest[:1] == b'@':
            j = rest.find(b':')
            rest = rest[j + 1:] if j >= 0 else b''
        out, esc, q = b'', False, False
        for k in range(len(rest)):
            ch = rest[k:k + 1]
            if esc:
                out, esc = out + ch, False
            elif not q and ch == term:
                break
            elif ch == b'\\':
                esc = True
            elif ch == b'"':
                q = not q
            else:
                out += ch
        return out
    args = [b'FROM:<a@b.c>', b'FROM:<"a b"@x.y>', b'FROM:<"a\\"b"@x.y>', b'TO:<"a\\\\b"@x.y>', b'TO:<@r1.example,@r2.example:u@h.example>', b'FROM: u@h.example', b'FROM:<a\\>b@x.y>',
            b'FROM:<"a>b"@x.y> SIZE=1', b'FROM:<>', b'TO:<"\\\r"@x.y>', b'TO:<"a\\"b\\"c d"@x.y>', b'TO:<\\"q@x.y>', b'TO:<"<>"@x.y>', b'FROM:<"a\\\\"@x.y>']
    bad = None
    for arg in args:
        objs = []

        class AP(_lt.SAConc, _lt.Conc):
            def prim_stralloc_append(self_, E, x, args):
                o_ = _lt._one(args[0])
                if isinstance(o_, tuple) and o_[1] not in objs:
                    objs.append(o_[1])
                return _lt.SAConc.prim_stralloc_append(self_, E, x, args)
        H = AP('addrparse')
        st = {0: fs(('&', 'ARG[0]')), 'G:liphostok': fs(0)}
        st.update(_lt.conc_string_cells('ARG', arg))
        _lt._run_conc(db, rep, prog, fn, st, 'addrparse', H)
        if len(H.ends) != 1:
            raise AnalysisBroken('addrparse(%r): %d ends' % (arg, len(H.ends)))
        end, val, tr = H.ends[0]
        if len(objs) != 1:
            raise AnalysisBroken('addrparse(%r): the address is appended to %s' % (arg, objs))
        n_ = _lt.one(end.get(objs[0] + '.len'))
        got = bytes((_lt.one(end.get('%s.s[%d]' % (objs[0], k))) or 0) & 255 for k in range(n_)) if isinstance(n_, int) and 0 <= n_ < 300 else None
        want = ref(arg) + b'\0'
        if (got != want or _lt.one(val) != 1) and bad is None:
            bad = 'argument %r: the address taken is %r (result %s); by the quoting rules it is %r - the address the client quoted does not come back' % (arg, got, _lt.one(val), want)
    return {'addrparse:unquotes-what-quote()-quoted(backslash-covers-one-byte)': (bad is None, 'qmail-smtpd.c:addrparse', bad or '%d MAIL/RCPT arguments' % len(args), [])}


def rwnodot_sites(db, rep):
    """qmail-inject rwnodot() on concrete (token-reversed) addresses: the default domain is appended exactly when the HOST part -
    the tokens before the @ in the reversed list - holds neither a dot nor a domain literal; dots in the local part do not count"""
    from rules import libtab as _lt
    prog = db.program('qmail-inject')
    fn = prog.fn('rwnodot', 'qmail-inject.c')
    u = db.unit('qmail-inject.c')
    T = {k: u.macro_int('TOKEN822_' + k) for k in ('ATOM', 'DOT', 'AT', 'LITERAL', 'QUOTE')}
    if any(v is None for v in T.values()):
        raise AnalysisBroken('TOKEN822_* constants not found')
    cases = [('first.last@host', ['ATOM', 'AT', 'ATOM', 'DOT', 'ATOM'], True), ('joe@host.com', ['ATOM', 'DOT', 'ATOM', 'AT', 'ATOM'], False), ('joe@[1.2.3.4]', ['LITERAL', 'AT', 'ATOM'], False),
             ('joe@host', ['ATOM', 'AT', 'ATOM'], True), ('"a.b"@host', ['ATOM', 'AT', 'QUOTE'], True), ('a.b.c@host', ['ATOM', 'AT', 'ATOM', 'DOT', 'ATOM', 'DOT', 'ATOM'], True),
             ('a.b@host.com', ['ATOM', 'DOT', 'ATOM', 'AT', 'ATOM', 'DOT', 'ATOM'], False)]
    bad = None
    for text, toks, extend in cases:
        class RH(_lt.SAConc, _lt.Conc):
            def prim_token822_readyplus(self_, E, x, args):
                return [Outcome(ret=fs(1))]
        H = RH('rwnodot')
        st = {0: fs(('&', 'AD')), 'AD.t': fs(('&', 'TK[0]')), 'AD.len': fs(len(toks)), 'G:defaultdomain.t': fs(('&', 'DD[0]')), 'G:defaultdomain.len': fs(2),
              'DD[0].type': fs(T['ATOM']), 'DD[0].s': fs(('&', 'DDTXT[0]')), 'DD[0].slen': fs(2), 'DD[1].type': fs(T['DOT']), 'DD[1].s': fs(0), 'DD[1].slen': fs(0)}
        for k, t_ in enumerate(toks):
            st.update({'TK[%d].type' % k: fs(T[t_]), 'TK[%d].s' % k: fs(('&', 'TXT%d[0]' % k)), 'TK[%d].slen' % k: fs(1)})
        _lt._run_conc(db, rep, prog, fn, st, 'rwnodot', H)
        if len(H.ends) != 1:
            raise AnalysisBroken('rwnodot(%s): %d ends' % (text, len(H.ends)))
        end = H.ends[0][0]
        n_ = _lt.one(end.get('AD.len'))
        got = [_lt.one(end.get('TK[%d].type' % k)) for k in range(n_)] if isinstance(n_, int) and 0 <= n_ < 20 else None
        want = ([T['DOT'], T['ATOM']] if extend else []) + [T[t_] for t_ in toks]
        if got != want and bad is None:
            inv = {v: k for k, v in T.items()}
            bad = 'address %s: after the default-domain step the (reversed) token list is %s; documented: %s - the default domain is %s because the host part %s' % (
                text, [inv.get(g, g) for g in (got or [])], [inv[w] for w in want], 'appended' if extend else 'not appended', 'has no dot' if extend else 'is qualified already')
    return {'rwnodot:default-domain-iff-host-part-has-no-dot-or-literal': (bad is None, 'qmail-inject.c:rwnodot', bad or '%d addresses' % len(cases), [])}


def run(ctx):
    db, rep = ctx.db, ctx.report
    prog = db.program('qmail-inject')
    # ---------------------------------------------------------------- 1. character classes
    r1 = rep.rule('C17.1-character-class-agreement', 'R-SIBLING', 'every byte quote_need() leaves unquoted is an atom byte for token822 and not special to qmail-smtpd\'s addrparse; bytes >= 128 are quoted; doit() escapes at least what the parsers treat specially inside quotes; addresses are split at the LAST @')
    qu = db.unit('quote.c')
    okt = qu.globals.get('ok')
    if not okt or okt.get('init', {}).get('k') != 'list' or len(okt['init']['v']) != 128:
        raise AnalysisBroken('quote.c: ok[128] table not found')
    ok = [e.get('v') for e in okt['init']['v']]
    unq = {b for b in range(128) if ok[b]}
    # atomok partition over all bytes
    ao = db.fn('token822.c', 'atomok')

    class AH(QHooks):
        def __init__(self):
            self.part = []

        def on_return(self, E, fn, val):
            self.part.append((val, E.get(self.key)))
    ah = AH()
    eng = Engine(db, prog, ah)
    eng.keep_dead = True
    ah.key = '%s::%s' % (eng.frame_id(ao), ao.params[0])
    eng.run(ao, {ah.key: CHARS})
    rep.count_states(eng.states, eng.transitions)
    atom = set()
    cov = set()
    for val, ch in ah.part:
        if ch is TOP:
            raise AnalysisBroken('atomok(): partition lost')
        cov |= ch
        if val is TOP or any(v != 0 for v in val):
            atom |= {c for c in ch}
    if cov != CHARS:
        raise AnalysisBroken('atomok(): partition incomplete')
    r1.check((unq - {ord('.')}) <= atom, 'unquoted-bytes-are-atom-bytes', 'quote.c/token822.c', 'bytes left unquoted by quote_need() but not atom bytes for token822: %s' % [chr(b) for b in sorted(unq - atom - {ord('.')})])
    # quote_need() as a function of the string, for every string of up to 3 bytes over {atom byte, ".", space, quote, byte >= 128}
    import itertools
    qn = db.fn('quote.c', 'quote_need')
    ALPHA = [ord('a'), ord('.'), ord(' '), ord('"'), 0xE9 - 256, -128]
    badq = []
    nq = 0
    for n in range(0, ctx.deep(3, 4) + 1):
        for t in itertools.product(ALPHA, repeat=n):
            H = StrHooks()
            H.entry = 'quote_need'
            e = Engine(db, prog, H)
            fid = e.frame_id(qn)
            st = {'%s::%s' % (fid, qn.params[0]): fs(('&', 'S[0]')), '%s::%s' % (fid, qn.params[1]): fs(n)}
            for i_, b_ in enumerate(t):
                st['S[%d]' % i_] = fs(b_)
            for b_ in range(128):
                st['S:quote_c:%s[%d]' % ('ok', b_)] = fs(ok[b_])
            e.run(qn, st)
            rep.count_states(e.states, e.transitions)
            u_ = [b_ & 255 for b_ in t]
            want = 1 if (n == 0 or any(b_ >= 128 or not ok[b_] for b_ in u_) or u_[0] == 46 or u_[-1] == 46 or any(u_[i_] == 46 and u_[i_ + 1] == 46 for i_ in range(n - 1))) else 0
            got = sorted({(1 if r_[0] else 0) if isinstance(r_[0], int) else '?' for r_ in H.returns})
            nq += 1
            if got != [want]:
                badq.append((bytes(u_), got, want))
    r1.check(nq == ctx.deep(259, 1555) and not badq, 'quote_need=documented-predicate(empty,non-atom,>=128,leading/trailing/doubled-dot)', 'quote.c:quote_need',
             'deviations (string, result, documented): %s' % badq[:4])
    smtpd_special = {ord(c) for c in '<> "\\@:'}
    r1.check(not (unq & smtpd_special), 'unquoted-bytes-are-not-special-to-addrparse', 'quote.c/qmail-smtpd.c', 'left unquoted although special to addrparse: %s' % [chr(b) for b in sorted(unq & smtpd_special)])
    r1.check(not any(ok[b] for b in range(0, 33)) and not ok[127], 'controls-and-space-are-quoted', 'quote.c', '')
    # doit(): every byte of the box arrives between the quotes, and quote / backslash are preceded by a backslash
    dt = db.fn('quote.c', 'doit')
    badd = []
    nd = 0
    for b_ in list(range(-128, 128)):
        H = StrHooks()
        H.entry = 'doit'
        e = Engine(db, prog, H)
        fid = e.frame_id(dt)
        st = {'%s::%s' % (fid, dt.params[0]): fs(('&', 'OUT')), '%s::%s' % (fid, dt.params[1]): fs(('&', 'IN')),
              'IN.s': fs(('&', 'IN.s[0]')), 'IN.len': fs(2), 'IN.s[0]': fs(ord('a')), 'IN.s[1]': fs(b_), 'OUT.len': fs(0)}
        e.run(dt, st)
        rep.count_states(e.states, e.transitions)
        okr = [r_ for r_ in H.returns if r_[0] == 1]
        nd += 1
        if len(okr) != 1:
            badd.append((b_ & 255, 'no unique successful return'))
            continue
        store = okr[0][1]
        ln = g1v(store.get('OUT.len'))
        out = [g1v(store.get('OUT.s[%d]' % i_)) for i_ in range(ln)] if isinstance(ln, int) and 0 <= ln < 16 else None
        must = b_ in (ord('"'), ord('\\'))
        alts = [[34, 97, 92, b_, 34]] + ([] if must else [[34, 97, b_, 34]])
        cap = g1v(store.get('$cap:OUT'))
        if out not in alts or not (isinstance(cap, int) and cap >= ln):
            badd.append((b_ & 255, out, cap))
    r1.check(nd == 256 and not badd, 'quoted-string-escapes-cover-quote-and-backslash', 'quote.c:doit', 'doit("a" + byte) deviates for (byte, output, reserved): %s' % badd[:4])
    # quote2(): the local part handed to quote() is everything before the LAST @
    q2 = db.fn('quote.c', 'quote2')

    from rules import libtab

    class Q2(libtab.SAConc, StrHooks):
        """quote2() on a concrete address, down to the bytes it produces"""
        inline_depth = 8

        def _ovf(self, E, x, args, op):
            a_, b_, p_ = g1v(args[0]), g1v(args[1]), g1v(args[2])
            if not (isinstance(a_, int) and isinstance(b_, int) and isinstance(p_, tuple) and p_[0] == '&'):
                return [Outcome(ret=TOP)]
            r_ = op(a_, b_)
            return [Outcome(ret=fs(int(r_ > 0xffffffff)), sets={p_[1]: fs(r_ & 0xffffffff)})]

        def prim___builtin_mul_overflow(self, E, x, args):
            return self._ovf(E, x, args, lambda u, v: u * v)

        def prim___builtin_add_overflow(self, E, x, args):
            return self._ovf(E, x, args, lambda u, v: u + v)

    def ref_quote(box):
        specials = b'()<>@,;:\\"[] '
        need = len(box) == 0 or any(c >= 127 or c <= 32 or c in specials for c in box) or box[:1] == b'.' or box[-1:] == b'.' or b'..' in box
        if not need:
            return box
        return b'"' + b''.join((b'\\' if c in b'\r\n"\\' else b'') + bytes([c]) for c in box) + b'"'

    def ref_quote2(a_):
        if not a_:
            return b''
        j = a_.rfind(b'@')
        return ref_quote(a_) if j < 0 else ref_quote(a_[:j]) + a_[j:]
    badj = []
    for addr_ in (b'a@b', b'a@b@c', b'ab', b'@', b'x y@z', b'a@', b'a"b@c', b'.a@b', b'a.@b', b'a..b@c', b'a.b@c', b'a\nb@c', b'a\\b@c', b'\xe9@x', b'a(b@c@d', b'', b'x y'):
        H = Q2()
        H.entry = 'quote2'
        e = Engine(db, prog, H, max_states=60000)
        fid = e.frame_id(q2)
        st = {'%s::%s' % (fid, q2.params[0]): fs(('&', 'OUT')), '%s::%s' % (fid, q2.params[1]): fs(('&', 'A[0]'))}
        st.update(libtab.conc_string_cells('A', addr_))
        e.run(q2, st)
        rep.count_states(e.states, e.transitions)
        outs_ = {H.sa_bytes_of(r_[1], 'OUT') for r_ in H.returns if r_[0] == 1}
        want_ = ref_quote2(addr_)
        if outs_ != {want_}:
            badj.append((addr_, sorted(map(str, outs_)), want_))
    r1.check(not badj, 'quote2-splits-at-the-last-@', 'quote.c:quote2',
             'deviations (address, result, documented): %s; the local part is everything before the LAST @ and is quoted as a whole when it needs it (with the FIRST @ the rest of a local part containing "@" is emitted unquoted)' % badj[:3])
    r1.expect_min(6)
    rep.exhaustive_rules.append('C17.1-character-class-agreement')

    # ---------------------------------------------------------------- 1c. two-pass agreement in token822_unparse / unquote
    r2 = rep.rule('C17.2-two-pass-agreement', 'R-SIBLING', 'token822_unparse and token822_unquote: the length pre-computation and the emission handle the same token kinds and escape the same bytes; the escape set covers what the parser treats specially')
    tm = {k: db.unit('token822.c').macro_int(k) for k in db.unit('token822.c').macros if k.startswith('TOKEN822_')}
    for fname in ('token822_unparse', 'token822_unquote'):
        fn = db.fn('token822.c', fname)
        outer, inner = [], []
        for b in fn.blocks.values():
            if b.term and b.term.get('k') == 'switch' and b.cond is not None:
                src = b.cond.src()
                cs = set()
                for t in b.succs:
                    lab = fn.blocks[t].label if t is not None else None
                    if lab and lab.get('k') == 'case' and lab.get('lo') is not None:
                        cs |= set(range(lab['lo'], lab['hi'] + 1))
                # fall-through labels: a case block whose only predecessor is another case block
                work = [t for t in b.succs if t is not None]
                seen = set()
                while work:
                    t = work.pop()
                    if t in seen:
                        continue
                    seen.add(t)
                    blk = fn.blocks[t]
                    if blk.label and blk.label.get('k') == 'case' and blk.label.get('lo') is not None:
                        cs |= set(range(blk.label['lo'], blk.label['hi'] + 1))
                        if not blk.elems:
                            work.extend(s for s in blk.succs if s is not None)
                (outer if 'type' in src else inner).append(frozenset(cs))
        r2.check(len(outer) == 2, '%s:has-a-length-pass-and-an-emission-pass' % fname, 'token822.c:' + fname, 'switches over the token kind: %d' % len(outer))
        if inner:
            r2.check(len(inner) == 2 and inner[0] == inner[1], '%s:both-passes-escape-the-same-bytes' % fname, 'token822.c:' + fname, 'escaped bytes per pass: %s' % [sorted(s) for s in inner])
            r2.check({ord('"'), ord('\\'), ord('('), ord(')'), ord('['), ord(']')} <= inner[0], '%s:escapes-cover-the-parser-specials' % fname, 'token822.c:' + fname, 'escaped: %s' % [chr(c) for c in sorted(inner[0])])
    r2.expect_min(3)

    # ---------------------------------------------------------------- 1d. display-name skipping
    r3 = rep.rule('C17.3-phrase-skipping', 'R-TABLE', 'token822_addrlist: after a route address the display-name phrase to its left is skipped as a whole: the skipped token kinds include atoms, quoted strings and comments')
    al = db.fn('token822.c', 'token822_addrlist')

    class AL(QHooks):
        """token822_addrlist on a concrete token list; the caller's callback records the address it is shown"""
        def __init__(self):
            self.rows = []

        def tracked_global(self, path):
            return True

        def precise_arith(self, path):
            return True

        def prim_token822_readyplus(self, E, x, args):
            o = g1v(args[0])
            if not (isinstance(o, tuple) and o[0] == '&'):
                return [Outcome(ret=fs(1))]
            return [Outcome(ret=fs(1), sets={o[1] + '.t': fs(('&', o[1] + '.t[0]'))})]

        prim_token822_ready = prim_token822_readyplus

        def on_call(self, E, x, args):
            if x.callee is None:          # callback(taaddr)
                o = g1v(args[0])
                n = g1v(E.get(o[1] + '.len')) if isinstance(o, tuple) else None
                ids = tuple(g1v(E.get('%s.t[%d].slen' % (o[1], k))) for k in range(n)) if isinstance(n, int) and 0 <= n < 32 else None
                E.set('$cb', fs(tuple(g1v(E.get('$cb')) or ()) + (ids,)))
                return [Outcome(ret=fs(1))]
            return super().on_call(E, x, args)

        def on_return(self, E, fn, val):
            if fn.name == 'token822_addrlist':
                self.rows.append((g1v(val), tuple(g1v(E.get('$cb')) or ()), E.trace.list()))

    T_ = lambda k: tm['TOKEN822_' + k]
    scen = [('"John Smith (home)" display name before a route address',
             ['ATOM', 'COLON', 'ATOM', 'QUOTE', 'COMMENT', 'ATOM', 'LEFT', 'ATOM', 'AT', 'ATOM', 'RIGHT'], [{7, 8, 9}]),
            ('a plain address, then a display name with a comment and a route address',
             ['ATOM', 'COLON', 'ATOM', 'AT', 'ATOM', 'COMMA', 'ATOM', 'COMMENT', 'LEFT', 'ATOM', 'AT', 'ATOM', 'RIGHT'], [{2, 3, 4}, {9, 10, 11}]),
            ('two plain addresses', ['ATOM', 'COLON', 'ATOM', 'AT', 'ATOM', 'COMMA', 'ATOM', 'AT', 'ATOM'], [{2, 3, 4}, {6, 7, 8}])]
    bad3 = None
    for what, kinds, want in scen:
        H3 = AL()
        e3 = Engine(db, prog, H3, max_states=60000)
        fid = e3.frame_id(al)
        st = {'%s::%s' % (fid, al.params[0]): fs(('&', 'TAOUT')), '%s::%s' % (fid, al.params[1]): fs(('&', 'TAADDR')), '%s::%s' % (fid, al.params[2]): fs(('&', 'TA')),
              '%s::%s' % (fid, al.params[3]): fs(('fn', 'CB')), 'TA.t': fs(('&', 'TA.t[0]')), 'TA.len': fs(len(kinds)), 'TAOUT.len': fs(0), 'TAADDR.len': fs(0)}
        for k, kd in enumerate(kinds):
            st['TA.t[%d].type' % k] = fs(T_(kd))
            st['TA.t[%d].slen' % k] = fs(k)          # the token's position doubles as its identity
            st['TA.t[%d].s' % k] = fs(0)
        e3.run(al, st)
        rep.count_states(e3.states, e3.transitions)
        if len(H3.rows) != 1:
            raise AnalysisBroken('token822_addrlist: %d ends for a concrete token list' % len(H3.rows))
        ret, cbs, tr = H3.rows[0]
        got = sorted((sorted(c) if c is not None else None) for c in cbs if c != ())
        if ret != 1 or got != sorted(sorted(w) for w in want):
            bad3 = bad3 or ('%s (token kinds %s): the addresses reported are the tokens %s, result %s; documented: %s (the words and comments of a display name are not recipients)' %
                            (what, kinds[2:], got, ret, sorted(sorted(w) for w in want)), tr)
    r3.check(bad3 is None, 'phrase=atoms,quoted-strings,comments', 'token822.c:token822_addrlist', bad3[0] if bad3 else '%d token lists' % len(scen), bad3[1] if bad3 else None)
    r3.expect_min(1)

    # ---------------------------------------------------------------- 2. header -> envelope table
    r4 = rep.rule('C17.4-header-to-envelope', 'R-TABLE', 'doheaderfield: To/Cc -> recipient + tocc list; Bcc/Apparently-To -> recipient; Resent-To/Cc/Bcc -> resent list; Bcc, Resent-Bcc, Return-Path, Content-Length not saved; the resent list is used iff flagresent; hname[] agrees with H_*')
    iu = db.unit('qmail-inject.c')
    hm = {k: iu.macro_int(k) for k in iu.macros if k.startswith('H_') and k != 'H_NUM'}
    df = prog.fn('doheaderfield', 'qmail-inject.c')

    class DH(QHooks):
        def __init__(self):
            self.tab = {}
            self.seen = {}

        def tracked_global(self, path):
            return path.startswith('G:htypeseen') or path.startswith('$')

        def precise_arith(self, path):
            return True

        def prim_hfield_known(self, E, x, args):
            return [Outcome(ret=fs(v), sets={'$h': fs(v)}) for v in range(0, 29)]

        def prim_hfield_valid(self, E, x, args):
            return [Outcome(ret=fs(1))]

        def prim_token822_parse(self, E, x, args):
            return [Outcome(ret=fs(1))]

        def prim_token822_addrlist(self, E, x, args):
            v = args[3]
            E.set('$rw', fs(next(iter(v)) if v is not TOP and len(v) == 1 else '?'))
            return [Outcome(ret=fs(1))]

        def prim_doordie_rh(self, E, x, args):
            return [Outcome(ret=fs(1))]

        def prim_token822_unparse(self, E, x, args):
            return [Outcome(ret=fs(1))]

        def prim_savedh_append(self, E, x, args):
            E.set('$saved', fs(1))
            return [Outcome(ret=TOP)]

        def on_return(self, E, fn, val):
            h = g1(E, '$h')
            if g1(E, '$early'):
                return
            self.tab.setdefault(h, set()).add((g1(E, '$rw'), g1(E, '$saved', 0)))
            self.seen.setdefault(h, set()).add(g1(E, 'G:htypeseen[%s]' % h, 0))

        def on_branch(self, E, cond, truth):
            if cond.path() in ('G:flagdeletefrom', 'G:flagdeletemessid', 'G:flagdeletesender') and truth is True:
                E.set('$early', fs(1))
    dh = DH()
    e = Engine(db, prog, dh)
    e.run(df, {})
    rep.count_states(e.states, e.transitions)
    inv = {v: k for k, v in hm.items()}
    want_rw = {}
    for k in ('H_TO', 'H_CC'):
        want_rw[hm[k]] = ('fn', 'rwtocc')
    for k in ('H_BCC', 'H_APPARENTLYTO'):
        want_rw[hm[k]] = ('fn', 'rwhr')
    for k in ('H_R_TO', 'H_R_CC', 'H_R_BCC'):
        want_rw[hm[k]] = ('fn', 'rwhrr')
    nosave = {hm[k] for k in ('H_BCC', 'H_R_BCC', 'H_RETURNPATH', 'H_CONTENTLENGTH')}
    bad = []
    for h in range(0, 29):
        outs = dh.tab.get(h, set())
        if not outs:
            bad.append((inv.get(h, h), 'no outcome'))
            continue
        for rw, saved in outs:
            if h in want_rw and rw != want_rw[h]:
                bad.append((inv.get(h, h), 'rewriter %s, expected %s' % (rw, want_rw[h])))
            if h not in want_rw and rw in (('fn', 'rwtocc'), ('fn', 'rwhr'), ('fn', 'rwhrr')):
                bad.append((inv.get(h, h), 'unexpectedly feeds a recipient list via %s' % (rw,)))
            if (saved == 1) == (h in nosave):
                bad.append((inv.get(h, h), 'saved=%s' % saved))
    # token lists that live for the whole run must each own the text buffer their tokens point into
    owners = {}
    ncalls = 0
    for f_ in prog.functions():
        if f_.unit != 'qmail-inject.c':
            continue
        for c in f_.calls('token822_parse'):
            ncalls += 1
            a0, a2 = c.args[0].strip(), c.args[2].strip()
            lst = a0.args[0].path() if a0.k == 'un' and a0.op == '&' else None
            buf = a2.args[0].path() if a2.k == 'un' and a2.op == '&' else None
            if lst and buf and lst.startswith('G:') and buf.startswith('G:'):
                owners.setdefault(buf, set()).add(lst)
    if ncalls < 3:
        raise AnalysisBroken('qmail-inject.c: token822_parse() calls not found')
    # lists parsed once at start-up and used later (controls) versus the per-header scratch list: a buffer may serve several
    # lists only if all of them are re-parsed for every header field (the scratch pattern: same function as the use)
    parsed_in = {}
    for f_ in prog.functions():
        if f_.unit == 'qmail-inject.c':
            for c in f_.calls('token822_parse'):
                a0 = c.args[0].strip()
                if a0.k == 'un' and a0.op == '&' and a0.args[0].path():
                    parsed_in.setdefault(a0.args[0].path(), set()).add(f_.name)

    def long_lived(lst):
        # referenced in a function that does not parse it: the tokens must survive until then
        for f_ in prog.functions():
            if f_.unit == 'qmail-inject.c' and f_.name not in parsed_in.get(lst, ()):
                if any(lst in (x.refs() if hasattr(x, 'refs') else ()) for x in f_.all_x() if x.k in ('ref',)) or any(x.k == 'ref' and x.n.get('d') == lst for x in f_.all_x()):
                    return True
        return False
    shared = {b: sorted(l) for b, l in owners.items() if len(l) > 1 and any(long_lived(x_) for x_ in l)}
    r4.check(not shared, 'long-lived-token-lists-own-their-text-buffer', 'qmail-inject.c', 'text buffers filled for more than one global token list: %s; tokens are pointers into the buffer, so parsing the second list rewrites the atoms of the first (default domain and plus domain garbled in rewritten addresses)' % shared)
    r4.check(not bad, 'header-kind->(recipient-list,saved)', 'qmail-inject.c:doheaderfield', 'deviations: %s' % bad[:6])
    notseen = [inv.get(h, h) for h in range(1, 29) if dh.seen.get(h) != {1}]
    r4.check(not notseen, 'every-recognised-field-is-recorded-as-seen', 'qmail-inject.c:doheaderfield',
             'fields processed without htypeseen[] being set: %s; the choice between the Resent- recipients and the original ones (and the fields added at the end) is made from these marks, also for fields that are not copied to the output such as Resent-Bcc' % notseen[:8])
    # the rewriting callbacks hand the address back in the order they received it (token822_addrlist goes on to print it), and what they
    # store in the recipient lists is the address in reading order: token reversals come in pairs around token822_unquote()
    class RW(QHooks):
        def __init__(self):
            self.ends = []
            self.unq = []
            self.slots = []

        def tracked_global(self, path):
            return True

        def prim_token822_reverse(self, E, x, args):
            E.set('$rev', fs(1 - g1(E, '$rev', 0)))
            return [Outcome(ret=TOP)]

        LISTS = {'G:hrlist': 'HR', 'G:hrrlist': 'HRR', 'G:tocclist': 'TOCC', 'G:reciplist': 'RCP', 'G:savedh': 'SAV'}

        def precise_arith(self, path):
            return True

        def materialize(self, E, path):
            for g_, tag in self.LISTS.items():
                if path == g_ + '.sa':
                    return fs(('&', tag + '[0]'))
                if path == g_ + '.len':
                    return fs(0)
            return TOP

        def prim_token822_unquote(self, E, x, args):
            self.unq.append(g1(E, '$rev', 0))
            slot = g1v(args[0])
            self.slots.append(slot[1] if isinstance(slot, tuple) and slot[0] == '&' else None)
            return [Outcome(ret=fs(1))]

        def _n(self, E, x, args):
            return [Outcome(ret=TOP)]

        prim_rwgeneric = _n

        def prim_saa_readyplus(self, E, x, args):
            return [Outcome(ret=fs(1))]

        def on_return(self, E, fn, val):
            if fn.name == self.entry:
                self.ends.append(g1(E, '$rev', 0))
    badrw = []
    fed = {}
    for cb in ('rwhr', 'rwhrr', 'rwtocc'):
        f_ = prog.fn(cb, 'qmail-inject.c')
        hrw = RW()
        hrw.entry = cb
        e_ = Engine(db, prog, hrw, max_states=20000)
        e_.run(f_, {'%s::%s' % (e_.frame_id(f_), f_.params[0]): fs(('&', 'ADDR')), '$rev': fs(0)})
        rep.count_states(e_.states, e_.transitions)
        if not hrw.ends or not hrw.unq:
            raise AnalysisBroken('qmail-inject %s: no return / no token822_unquote() reached' % cb)
        fed[cb] = sorted(str(s_) for s_ in hrw.slots)
        if any(r_ != 0 for r_ in hrw.ends) or any(u_ != 1 for u_ in hrw.unq):
            badrw.append((cb, 'returns with the address %s' % ('reversed' if any(hrw.ends) else 'in order'), 'stores it %s' % ('in reading order' if all(u_ == 1 for u_ in hrw.unq) else 'reversed')))
    r4.check(fed == {'rwtocc': ['HR[0]', 'TOCC[0]'], 'rwhr': ['HR[0]'], 'rwhrr': ['HRR[0]']}, 'rewriters-feed-the-documented-lists', 'qmail-inject.c',
             'list slots the rewritten address is stored in (every list empty before): %s; documented: To/Cc/Bcc addresses go to the header recipient list and the To/Cc list, other recipient fields to the header recipient list, Resent- fields to the resent list' % fed)
    r4.check(not badrw, 'rewriters-hand-the-address-back-as-they-got-it', 'qmail-inject.c', 'callback behaviour: %s; an address left reversed is printed back to front in the rewritten header field (al@one.example becomes example.one@al)' % badrw)
    en = prog.fn('exitnicely', 'qmail-inject.c')

    class EN(QHooks):
        LISTS = {'G:reciplist': 'RCP', 'G:hrlist': 'HR', 'G:hrrlist': 'HRR', 'G:tocclist': 'TOCC', 'G:savedh': 'SAV'}
        LENS = {'RCP': 2, 'HR': 1, 'HRR': 3, 'TOCC': 2, 'SAV': 2}

        def __init__(self):
            self.tos = {}

        def tracked_global(self, path):
            return True

        def precise_arith(self, path):
            return True

        def materialize(self, E, path):
            for g_, tag in self.LISTS.items():
                if path == g_ + '.sa':
                    return fs(('&', tag + '[0]'))
                if path == g_ + '.len':
                    return fs(self.LENS[tag])           # every list has its own length: a loop over one list bounded by another shows
            import re
            mm = re.match(r'^(RCP|HRR|HR|TOCC|SAV)\[(\d+)\]\.s$', path)
            if mm:
                return fs(('addr', mm.group(1), int(mm.group(2))))
            return TOP

        def prim_qmail_to(self, E, x, args):
            v = g1v(args[1])
            key = (g1(E, 'G:flagrh'), g1(E, 'G:flagresent'))
            self.tos.setdefault(key, []).append(v)
            cur = tuple(g1(E, '$to', ()))
            E.set('$to', fs(cur + (v,)))
            return [Outcome(ret=TOP)]

        def prim_qmail_from(self, E, x, args):
            return [Outcome(ret=TOP)]

        def prim_stralloc_append(self, E, x, args):
            return [Outcome(ret=fs(1))]

        prim_stralloc_0 = prim_stralloc_append

        def prim_qmail_close(self, E, x, args):
            key = (g1(E, 'G:flagrh'), g1(E, 'G:flagresent'))
            self.closed = getattr(self, 'closed', {})
            self.closed.setdefault(key, set()).add(tuple(g1(E, '$to', ())))
            return 'noreturn'
    bad_en = []
    for frh in (0, 1):
        for frs in (0, 1):
            H = EN()
            e = Engine(db, prog, H)
            e.run(en, {'G:flagqueue': fs(1), 'G:flagrh': fs(frh), 'G:flagresent': fs(frs)})
            rep.count_states(e.states, e.transitions)
            want = [('addr', 'RCP', 0), ('addr', 'RCP', 1)]
            if frh:
                tag_ = 'HRR' if frs else 'HR'
                want += [('addr', tag_, k_) for k_ in range(EN.LENS[tag_])]
            got = getattr(H, 'closed', {}).get((frh, frs))
            if got != {tuple(want)}:
                bad_en.append(((frh, frs), sorted(got) if got else got, want))
    r4.check(not bad_en, 'resent-list-iff-flagresent', 'qmail-inject.c:exitnicely',
             'envelope recipients at qmail_close() for (flagrh, flagresent): %s (documented: the command-line list, then with -h/-H the Resent- header list if the message is resent, else the To/Cc/Bcc header list)' % bad_en[:2])
    hn = db.unit('hfield.c').globals.get('hname')
    names = [e.get('v') for e in hn['init']['v']] if hn and hn.get('init', {}).get('k') == 'list' else []
    mism = []
    for k, v in hm.items():
        want = k[2:].lower()
        if want.startswith('r_'):
            want = 'resent' + want[2:]
        got = (names[v] or '').replace('-', '') if v < len(names) and isinstance(names[v], str) else None
        if got != want.replace('_', ''):
            mism.append((k, v, names[v] if v < len(names) else None))
    r4.check(len(hm) == 28 and not mism, 'hname[]-agrees-with-H_*', 'hfield.c/hfield.h', 'mismatches: %s' % mism[:5])
    r4.expect_min(4)

    # ---------------------------------------------------------------- 3. rwgeneric order
    r6 = rep.rule('C17.6-smtp-unquoting', 'R-TABLE', 'qmail-smtpd addrparse() on concrete MAIL/RCPT arguments: the address taken is what the RFC 821 quoting rules say (backslash covers exactly the next byte, double quotes toggle, unquoted terminator ends, source route skipped) - so an address quoted by quote() for the wire is parsed back to itself')
    for inst_, v_ in sorted(addrparse_sites(db, rep).items()):
        r6.check(v_[0], inst_, v_[1], v_[2], v_[3])
    r6.expect_min(1)
    r5 = rep.rule('C17.5-rewrite-order', 'R-ORDER', 'rwgeneric: route, extra dot, extra at, no-at (default host), plus, no-dot (default domain), in that order')
    rg = prog.fn('rwgeneric', 'qmail-inject.c')
    STEPS = ['rwroute', 'rwextradot', 'rwextraat', 'rwnoat', 'rwplus', 'rwnodot']
    STEPS = [s_ for s_ in STEPS if prog.resolve(s_, 'qmail-inject.c') is not None]      # a step written out inside rwgeneric() is not an event; the others keep their order
    if len(STEPS) < 4:
        raise AnalysisBroken('qmail-inject.c: only the rewriting steps %s exist as functions' % STEPS)

    class RG(QHooks):
        """rwgeneric() on an ordinary address (three tokens, none of the early-return shapes): the steps as events, each leaving the address non-empty"""
        def __init__(self):
            self.seqs = []

        def tracked_global(self, path):
            return True

        def precise_arith(self, path):
            return True

        def _step(self, E, x, args):
            E.set('$seq', fs(tuple(g1(E, '$seq', ())) + (x.callee,)))
            return [Outcome(ret=TOP)]

        def on_return(self, E, fn, val):
            if fn.name == 'rwgeneric':
                self.seqs.append(tuple(g1(E, '$seq', ())))
    for st_ in STEPS:
        setattr(RG, 'prim_' + st_, RG._step)
    hrg = RG()
    e_ = Engine(db, prog, hrg, max_states=20000)
    e_.run(rg, {'%s::%s' % (e_.frame_id(rg), rg.params[0]): fs(('&', 'AD')), 'AD.len': fs(3), 'AD.t': fs(('&', 'TK[0]')),
                'TK[0].type': fs(tm['TOKEN822_ATOM']), 'TK[0].slen': fs(1), 'TK[1].type': fs(tm['TOKEN822_AT']), 'TK[2].type': fs(tm['TOKEN822_ATOM']), 'TK[2].slen': fs(1)})
    rep.count_states(e_.states, e_.transitions)
    order = sorted(set(hrg.seqs))
    r5.check(order == [tuple(STEPS)], 'rewrite-steps-in-documented-order', 'qmail-inject.c:rwgeneric', 'steps applied to an ordinary address a@b: %s; documented: %s' % (order, STEPS))
    for inst_, v_ in sorted(rwnodot_sites(db, rep).items()):
        r5.check(v_[0], inst_, v_[1], v_[2], v_[3])
    rep.assume('the inverse property quote/parse for all addresses and RFC 822 grammar coverage are not decided; only the table agreements that are necessary for it')
