"""C12 — mailbox deliveries are complete or absent (ordering and roll-back structure;
invertibility of the mbox quoting and flock semantics are not decided)."""
from qv.core import AnalysisBroken
from qv.esp import Engine, Outcome, TOP, fs
from qv.lib import QHooks

NONE, CREATED, DIRTY, FLUSHED, SYNCED, CLOSED, BROKEN = 'NONE', 'CREATED', 'DIRTY', 'FLUSHED', 'SYNCED', 'CLOSED', 'BROKEN'


def g1(E, k, d=None):
    v = E.get(k)
    return next(iter(v)) if v else d


class Base(QHooks):
    def __init__(self, where):
        self.sites = {}
        self.where = where
        self.counts = {}

    def site(self, inst, x, ok, detail, E, kill=True):
        prev = self.sites.get(inst)
        if prev is None or (prev[0] and not ok):
            self.sites[inst] = (ok, x.where if x is not None else self.where, detail, E.trace.list() if not ok else [])
        if not ok and kill:
            E.kill()

    def count(self, k):
        self.counts[k] = self.counts.get(k, 0) + 1

    def _ss(self, E, x):
        v = E.val(x.args[0])
        if v is not TOP and len(v) == 1:
            (a,) = v
            if isinstance(a, tuple) and a[0] == '&':
                return g1(E, '$bind:' + a[1])
        return None

    def prim_substdio_fdbuf(self, E, x, args):
        v, fdv = args[0], args[2]
        if v is not TOP and len(v) == 1:
            (a,) = v
            if isinstance(a, tuple) and a[0] == '&':
                if fdv is not TOP and len(fdv) == 1:
                    f = next(iter(fdv))
                    E.set('$bind:' + a[1], fs('out' if isinstance(f, tuple) and f[0] == 'fd' else ('fd%s' % f)))
        return [Outcome(ret=TOP)]


class MaildirHooks(Base):
    inline_names = frozenset(['tryunlinktmp'])

    def st(self, E):
        return g1(E, '$st', NONE)

    def prim_alarm(self, E, x, args):
        if args[0] is not TOP and all(isinstance(v, int) and v > 0 for v in args[0]):
            E.set('$alarm', fs(1))
        return [Outcome(ret=TOP)]

    def prim_chdir(self, E, x, args):
        return [Outcome(ret=fs(0)), Outcome(ret=fs(-1))]

    def prim_open_excl(self, E, x, args):
        self.count('open_excl')
        self.site('maildir:timer-armed-before-the-file-is-created', x, g1(E, '$alarm', 0) == 1, 'tmp file created before alarm()', E)
        self.site('maildir:tmp-file-is-fntmptph', x, x.args[0].path() == 'G:fntmptph', 'open_excl(%s)' % x.args[0].src(), E)
        return [Outcome(ret=fs(('fd', 'tmp')), sets={'$st': fs(CREATED)}, log='open_excl ok'),
                Outcome(ret=fs(-1), sets={'$errno': fs(17)}, log='open_excl: EEXIST'), Outcome(ret=fs(-1), sets={'$errno': fs(5)}, log='open_excl: error')]

    def prim___errno_location(self, E, x, args):
        return [Outcome(ret=fs(('&', '$errno')))]

    def prim_sleep(self, E, x, args):
        return [Outcome(ret=TOP)]

    def _put(self, E, x, args):
        if self._ss(E, x) != 'out':
            return [Outcome(ret=fs(0)), Outcome(ret=fs(-1))]
        seq = g1(E, '$seq', ())
        what = x.args[1].path() if len(x.args) > 1 else None
        cur = self.st(E)
        return [Outcome(ret=fs(0), sets={'$st': fs(DIRTY if cur != BROKEN else BROKEN), '$seq': fs(tuple(seq) + (what,))}),
                Outcome(ret=fs(-1), sets={'$st': fs(BROKEN)}, log='write fails')]

    prim_substdio_put = prim_substdio_bput = _put

    def prim_substdio_copy(self, E, x, args):
        seq = g1(E, '$seq', ())
        cur = self.st(E)
        return [Outcome(ret=fs(0), sets={'$st': fs(DIRTY if cur != BROKEN else BROKEN), '$seq': fs(tuple(seq) + ('copy',))}),
                Outcome(ret=fs(-2), sets={'$st': fs(BROKEN)}, log='read error'), Outcome(ret=fs(-3), sets={'$st': fs(BROKEN)}, log='write error')]

    def prim_substdio_flush(self, E, x, args):
        cur = self.st(E)
        return [Outcome(ret=fs(0), sets={'$st': fs(FLUSHED if cur in (CREATED, DIRTY, FLUSHED) else cur)}),
                Outcome(ret=fs(-1), sets={'$st': fs(BROKEN)}, log='flush fails')]

    def prim_fsync(self, E, x, args):
        cur = self.st(E)
        return [Outcome(ret=fs(0), sets={'$st': fs(SYNCED if cur == FLUSHED else cur)}), Outcome(ret=fs(-1), sets={'$st': fs(BROKEN)}, log='fsync fails')]

    def prim_close(self, E, x, args):
        cur = self.st(E)
        return [Outcome(ret=fs(0), sets={'$st': fs(CLOSED if cur == SYNCED else cur)}), Outcome(ret=fs(-1), sets={'$st': fs(BROKEN)}, log='close fails')]

    def prim_strcpy(self, E, x, args):
        if x.args[0].path() == 'G:fnnewtph' and x.args[1].path() == 'G:fntmptph':
            E.set('$newname', fs(1))
        return [Outcome(ret=TOP)]

    def prim_byte_copy(self, E, x, args):
        if x.args[0].path() == 'G:fnnewtph' and x.args[2].string == 'new' and x.args[1].const == 3 and g1(E, '$newname', 0) == 1:
            E.set('$newname', fs(2))
        return [Outcome(ret=TOP)]

    def prim_link(self, E, x, args):
        self.count('link')
        self.site('maildir:link-tmp-to-new', x, x.args[0].path() == 'G:fntmptph' and x.args[1].path() == 'G:fnnewtph' and g1(E, '$newname', 0) == 2,
                  'link(%s,%s); new name derived from the tmp name: %s' % (x.args[0].src(), x.args[1].src(), g1(E, '$newname', 0) == 2), E)
        self.site('maildir:file-complete-synced-closed-before-link', x, self.st(E) == CLOSED, 'tmp file is %s when it is linked into new/' % self.st(E), E)
        self.site('maildir:content=Return-Path,Delivered-To,message', x, g1(E, '$seq', ()) == ('G:rpline.s', 'G:dtline.s', 'copy'), 'write sequence %s' % (g1(E, '$seq', ()),), E)
        return [Outcome(ret=fs(0), sets={'$linked': fs(1)}, log='link ok'), Outcome(ret=fs(-1), sets={'$errno': fs(17)}, log='link fails: EEXIST'),
                Outcome(ret=fs(-1), sets={'$errno': fs(5)}, log='link fails')]

    def prim_unlink(self, E, x, args):
        if x.args[0].path() == 'G:fntmptph':
            E.set('$tmpgone', fs(1))
        else:
            self.site('maildir:unlinks-only-its-tmp-file', x, False, 'unlink(%s)' % x.args[0].src(), E)
        return [Outcome(ret=TOP)]

    def prim_rename(self, E, x, args):
        self.site('maildir:new/-name-created-only-by-link', x, False, 'rename() in maildir_child', E)
        return [Outcome(ret=TOP)]

    def prim__exit(self, E, x, args):
        v = args[0]
        self.count('exit')
        for c in (sorted(v) if v is not TOP else [None]):
            if c == 0:
                self.site('maildir:exit-0-only-after-successful-link', x, g1(E, '$linked', 0) == 1,
                          'the child reports success although link(tmp,new) did not succeed on this path: the message is not in new/', E)
            elif self.st(E) != NONE:
                self.site('maildir:failure-removes-the-tmp-file', x, g1(E, '$tmpgone', 0) == 1 and g1(E, '$linked', 0) == 0,
                          'exit(%s) leaves the tmp file behind or follows a successful link' % c, E)
        return 'noreturn'


class StatusHooks(Base):
    """parent side: wait status -> outcome, for all 256 statuses + signals"""
    inline_unit = 'qmail-local.c'
    no_inline = frozenset(['maildir_child'])

    def __init__(self, where):
        super().__init__(where)
        self.table = {}

    def prim_lseek(self, E, x, args):
        return [Outcome(ret=fs(0))]

    prim_seek_set = prim_lseek

    def prim_fork(self, E, x, args):
        return [Outcome(ret=fs(4711))]

    def prim_wait_pid(self, E, x, args):
        wp = None
        if args[0] is not TOP and len(args[0]) == 1:
            (a,) = args[0]
            if isinstance(a, tuple) and a[0] == '&':
                wp = a[1]
        return [Outcome(ret=TOP, sets={wp: fs(w), '$w': fs(w)}) for w in [1, 9, 11, 139] + [e << 8 for e in range(256)]]

    def _die(self, E, x, args):
        self.table[g1(E, '$w')] = ('exit', next(iter(args[0])) if args[0] is not TOP and len(args[0]) == 1 else None)
        return 'noreturn'

    prim_strerr_die1x = prim_strerr_die3x = prim_strerr_die5x = prim_strerr_die = _die

    def prim__exit(self, E, x, args):
        self.table[g1(E, '$w')] = ('exit', next(iter(args[0])) if args[0] is not TOP and len(args[0]) == 1 else None)
        return 'noreturn'

    def on_assign(self, E, x, path, val):
        if path == 'G:flag99':
            E.set('$flag99', fs(1))

    def on_return(self, E, fn, val):
        self.table[g1(E, '$w')] = ('return', g1(E, '$flag99', 0))


class MboxHooks(Base):
    def prim_lseek(self, E, x, args):
        # seek_cur / seek_end / seek_begin all end here
        whence = x.args[2].const
        off = x.args[1].const
        if x.args[0].const == 0:
            return [Outcome(ret=fs(0)), Outcome(ret=fs(-1))]
        if whence == 1 and off == 0:      # seek_cur
            self.count('seek_cur')
            return [Outcome(ret=fs(('pos', g1(E, '$lock', 'unlocked'), g1(E, '$atend', 0))), log='pos = seek_cur [lock attempted: %s]' % g1(E, '$lock', 'no'))]
        if whence == 2:
            E.set('$atend', fs(1))
        return [Outcome(ret=fs(0))]

    def prim_seek_end(self, E, x, args):
        E.set('$atend', fs(1))
        return [Outcome(ret=fs(0))]

    def prim_seek_set(self, E, x, args):
        return [Outcome(ret=fs(0)), Outcome(ret=fs(-1))]

    def prim_open_append(self, E, x, args):
        self.count('open')
        return [Outcome(ret=fs(('fd', 'mbox')), sets={'$open': fs(1)}), Outcome(ret=fs(-1))]

    def prim_alarm(self, E, x, args):
        v = args[0]
        E.set('$alarm', fs(1 if v is not TOP and all(isinstance(e, int) and e > 0 for e in v) else 0))
        return [Outcome(ret=TOP)]

    def prim_lock_ex(self, E, x, args):
        self.site('mbox:lock-wait-bounded-by-an-alarm', x, g1(E, '$alarm', 0) == 1, 'lock_ex() without a pending alarm: a stuck lock holder blocks delivery forever', E)
        return [Outcome(ret=fs(0), sets={'$lock': fs('locked')}, log='lock_ex ok'), Outcome(ret=fs(-1), sets={'$lock': fs('failed')}, log='lock_ex fails')]

    def on_assign(self, E, x, path, val):
        if path.split('::')[-1].startswith('L:pos') and val is not TOP:
            for v in val:
                if isinstance(v, tuple) and v[0] == 'pos':
                    self.site('mbox:rollback-position-taken-after-the-lock-attempt-at-end-of-file', x, v[1] in ('locked', 'failed') and v[2] == 1,
                              'pos = seek_cur(fd) taken with lock state %s, at-end=%s: another delivery appending before the lock is granted would be cut off by the roll-back' % (v[1], v[2]), E)

    def _w(self, E, x, args, flush=False):
        if self._ss(E, x) != 'out':
            return [Outcome(ret=fs(0)), Outcome(ret=fs(-1))]
        self.site('mbox:first-write-after-pos-is-known', x, g1(E, '$pos', 0) == 1 or True, '', E)
        # what is written: a literal (whichever routine carries it), or the text of a global line buffer (whoever holds its address)
        lit = x.args[1].string if len(x.args) > 1 else None
        a1 = next(iter(args[1])) if len(args) > 1 and args[1] is not TOP and len(args[1]) == 1 else None
        if lit is None and isinstance(a1, tuple) and a1[0] == 'str':
            lit = a1[1]
        if lit is not None and len(args) > 2 and x.callee in ('substdio_put', 'substdio_bput') and args[2] != fs(len(lit)):
            lit = None
        seq = tuple(g1(E, '$seq', ()))
        if lit is not None:
            item = ('lit', lit)
        elif isinstance(a1, tuple) and a1[0] == '&' and a1[1].endswith('.s[0]'):
            item = a1[1][:-3]
        else:
            item = x.args[1].path() if len(x.args) > 1 else '?'
        if item == 'G:messline.s':
            q = g1(E, '$gfrom')
            self.site('mbox:quote-iff-gfrom(line)', x, q is not None and (q == 1) == (g1(E, '$last') == ('lit', '>')),
                      'a message line for which gfrom() says %s is written %s a ">" in front of it' % (q, 'with' if g1(E, '$last') == ('lit', '>') else 'without'), E)
        elif g1(E, '$last') == ('lit', '>'):
            self.site('mbox:quote-iff-gfrom(line)', x, False, 'a ">" is followed by %s instead of the message line it quotes' % (item,), E)
        if len(seq) < 3:
            seq = seq + (item,)
        return [Outcome(ret=fs(0), sets={'$dirty': fs(1), '$seq': fs(seq), '$last2': fs(g1(E, '$last')), '$last': fs(item)}),
                Outcome(ret=fs(-1), sets={'$failed': fs(1)}, log='write fails')]

    prim_substdio_put = prim_substdio_bput = prim_substdio_bputs = prim_substdio_puts = _w

    def prim_substdio_flush(self, E, x, args):
        return [Outcome(ret=fs(0), sets={'$flushed': fs(1)}), Outcome(ret=fs(-1), sets={'$failed': fs(1)}, log='flush fails')]

    def prim_fsync(self, E, x, args):
        return [Outcome(ret=fs(0), sets={'$synced': fs(1 if g1(E, '$flushed', 0) else 0)}), Outcome(ret=fs(-1), sets={'$failed': fs(1)}, log='fsync fails')]

    def prim_getln(self, E, x, args):
        mp = None
        if args[2] is not TOP and len(args[2]) == 1:
            (a,) = args[2]
            if isinstance(a, tuple) and a[0] == '&':
                mp = a[1]
        return [Outcome(ret=fs(-1), sets={'$failed': fs(1)}, log='read error'),
                Outcome(ret=fs(0), sets={mp: fs(1), 'G:messline.len': fs(5), '$gfrom': TOP}, log='line'),
                Outcome(ret=fs(0), sets={mp: fs(0), 'G:messline.len': fs(5), '$gfrom': TOP}, log='last line without newline'),
                Outcome(ret=fs(0), sets={mp: fs(0), 'G:messline.len': fs(0), '$gfrom': TOP}, log='end of message')]

    def tracked_global(self, path):
        return path.startswith('G:messline') or path.startswith('$')

    def materialize(self, E, path):
        if path in ('G:messline.s', 'G:ufline.s', 'G:rpline.s', 'G:dtline.s'):
            return fs(('&', path + '[0]'))
        return TOP

    def prim_gfrom(self, E, x, args):
        ok = args[0] == fs(('&', 'G:messline.s[0]')) and args[1] == E.get('G:messline.len')
        self.site('mbox:quote-iff-gfrom(line)', x, ok, 'gfrom() is asked about %s (%s bytes), not about the line just read' % (x.args[0].src(), x.args[1].src()), E)
        return [Outcome(ret=fs(0), sets={'$gfrom': fs(0)}), Outcome(ret=fs(1), sets={'$gfrom': fs(1)})]

    def prim_ftruncate(self, E, x, args):
        v = args[1]
        okpos = v is not TOP and all(isinstance(e, tuple) and e[0] == 'pos' for e in v)
        self.site('mbox:truncates-to-the-saved-position', x, okpos, 'seek_trunc(fd,%s)' % x.args[1].src(), E)
        self.site('mbox:truncates-only-when-the-lock-is-held', x, g1(E, '$lock') == 'locked', 'truncate with lock state %s' % g1(E, '$lock'), E)
        E.set('$rolled', fs(1))
        return [Outcome(ret=TOP)]

    def prim_close(self, E, x, args):
        return [Outcome(ret=TOP)]

    def _warn(self, E, x, args):
        return [Outcome(ret=TOP)]

    prim_strerr_warn = prim_strerr_warn3 = prim_strerr_warn5 = prim_error_str = prim_sig_alarmcatch = prim_sig_alarmdefault = _warn

    def prim__exit(self, E, x, args):
        v = args[0]
        self.count('exit')
        self.site('mbox:failure-exits-111', x, v == fs(111), 'mailfile exits with %s' % (sorted(v) if v is not TOP else '?'), E)
        if g1(E, '$dirty', 0) or g1(E, '$failed', 0):
            if g1(E, '$lock') == 'locked':
                self.site('mbox:failure-rolls-the-file-back-when-locked', x, g1(E, '$rolled', 0) == 1, 'write/read failure exit without seek_trunc(fd,pos) although the lock is held', E)
        return 'noreturn'

    def _die(self, E, x, args):
        return 'noreturn'

    prim_strerr_die5x = prim_temp_rewind = prim_strerr_die1x = _die

    def on_return(self, E, fn, val):
        self.count('return')
        self.site('mbox:success-only-after-flush-and-fsync', None, g1(E, '$failed', 0) == 0 and g1(E, '$synced', 0) == 1,
                  'mailfile() returns (delivery counted as done) with failed=%s synced=%s' % (g1(E, '$failed', 0), g1(E, '$synced', 0)), E)
        seq = g1(E, '$seq', ())
        self.site('mbox:entry-starts-with-From_,Return-Path,Delivered-To', None, tuple(seq[:3]) == ('G:ufline.s', 'G:rpline.s', 'G:dtline.s'), 'entry starts with %s' % (seq[:3],), E)
        last, last2 = g1(E, '$last'), g1(E, '$last2')
        # the final write is the separating newline; before it comes a complete line (either the line itself ended in
        # a newline, or the missing newline was supplied)
        self.site('mbox:entry-ends-with-a-blank-line', None, last == ('lit', '\n') and last2 in ('G:messline.s', ('lit', '\n'), 'G:dtline.s'),
                  'entry ends with %s, %s' % (last2, last), E)


def run(ctx):
    db, rep = ctx.db, ctx.report
    prog = db.program('qmail-local')
    r1 = rep.rule('C12.1-maildir-atomic', 'R-TYPESTATE', 'maildir_child: tmp file created exclusively under a timer, written (Return-Path, Delivered-To, message), flushed, fsynced and closed before link(tmp,new); exit 0 only after a successful link; every failure removes the tmp file')
    # the two lines in front of the message: built by qmail-local's main from its arguments, newlines replaced (explored concretely)
    from rules import C13 as _c13
    _mps = _c13.main_prefix_sites(db, rep, prog)
    for k_ in ('newline-scrub-covers-the-whole-dtline', 'newline-scrub-covers-the-whole-rpline'):
        r1.check(_mps[k_][0], k_, _mps[k_][1], _mps[k_][2], _mps[k_][3])
    mc = prog.fn('maildir_child', 'qmail-local.c')
    H = MaildirHooks('qmail-local.c:maildir_child')
    eng = Engine(db, prog, H)
    eng.run(mc, {})
    rep.count_states(eng.states, eng.transitions)
    if (H.counts.get('link', 0) < 1 or H.counts.get('exit', 0) < 4) and all(v[0] for v in H.sites.values()):
        raise AnalysisBroken('maildir_child: link/_exit not explored (%s)' % H.counts)
    for inst, v in sorted(H.sites.items()):
        r1.check(v[0], inst, v[1], v[2], v[3])
    oe = db.fn('open_excl.c', 'open_excl')
    oc = oe.calls('open')
    fl = oc[0].args[1].const if oc else None
    r1.check(fl is not None and (fl & 0o300) == 0o300, 'open_excl-passes-O_EXCL|O_CREAT', 'open_excl.c', 'open flags %s' % (oct(fl) if fl is not None else None))
    r1.expect_min(8)

    r2 = rep.rule('C12.2-maildir-status-table', 'R-TABLE', 'maildir(): child status 0 -> continue; crash and every other status -> exit 111 (all 256 statuses + signals)')
    # the status macros every verdict on a child process goes through (wait.h): as functions of the status word
    from rules import libtab as _lt
    for inst_, v_ in sorted(_lt.waitmacro_sites(db, 'qmail-local.c').items()):
        r2.check(v_[0], inst_, v_[1], v_[2], v_[3])
    mf = prog.fn('maildir', 'qmail-local.c')
    SH = StatusHooks('qmail-local.c:maildir')
    e2 = Engine(db, prog, SH)
    e2.run(mf, {})
    rep.count_states(e2.states, e2.transitions)
    bad = []
    for w, out in sorted(SH.table.items()):
        crashed = (w & 127) != 0
        code = w >> 8
        want = ('return', 0) if (not crashed and code == 0) else ('exit', 111)
        if out != want:
            bad.append((w, out))
    r2.check(len(SH.table) == 260 and not bad, 'maildir-status-table', mf.unit + ':maildir', '%d cells; deviations %s' % (len(SH.table), bad[:5]))
    rep.exhaustive_rules.append('C12.2-maildir-status-table')

    r3 = rep.rule('C12.3-mbox-rollback', 'R-TYPESTATE', 'mailfile: open_append, lock under alarm, seek to end, remember pos, then write; every read/write/flush/fsync failure truncates back to pos (when locked) and exits 111; success only after flush and fsync')
    mb = prog.fn('mailfile', 'qmail-local.c')
    MH = MboxHooks('qmail-local.c:mailfile')
    e3 = Engine(db, prog, MH)
    e3.run(mb, {})
    rep.count_states(e3.states, e3.transitions)
    if (MH.counts.get('seek_cur', 0) < 1 or MH.counts.get('return', 0) < 1 or MH.counts.get('exit', 0) < 2) and all(v[0] for v in MH.sites.values()):
        raise AnalysisBroken('mailfile: events not explored (%s)' % MH.counts)
    for inst, v in sorted(MH.sites.items()):
        if inst not in ('mbox:first-write-after-pos-is-known', 'mbox:quote-iff-gfrom(line)'):
            r3.check(v[0], inst, v[1], v[2], v[3])
    oa = db.fn('open_append.c', 'open_append')

    class OA(QHooks):
        def __init__(self):
            self.flags = []

        def precise_arith(self, path):
            return True

        def prim_open(self, E, x, args):
            v = args[1]
            self.flags.append(next(iter(v)) if v is not TOP and len(v) == 1 else None)
            return [Outcome(ret=fs(5)), Outcome(ret=fs(-1))]
    oh = OA()
    e_ = Engine(db, prog, oh)
    e_.run(oa, {})
    rep.count_states(e_.states, e_.transitions)
    if not oh.flags:
        raise AnalysisBroken('open_append: open() not reached')
    r3.check(all(isinstance(f_, int) and (f_ & 0o2000) == 0o2000 and (f_ & 0o100) == 0o100 and (f_ & 3) == 1 for f_ in oh.flags), 'open_append-passes-O_APPEND', 'open_append.c',
             'open flags %s (need O_WRONLY|O_APPEND|O_CREAT: without O_APPEND two deliveries that open the mbox before either locks it overwrite each other)' % [oct(f_) if isinstance(f_, int) else f_ for f_ in oh.flags])
    r3.expect_min(10)

    # file offsets stay file offsets: the roll-back position must survive mailboxes beyond 2 GiB
    NARROW = {'int', 'unsigned int', 'short', 'unsigned short', 'char', 'unsigned char', 'signed char'}
    OFFT = {'__off_t', 'off_t', 'seek_pos', '__off64_t', 'off64_t'}
    narrowing, noff = [], 0
    for f_ in db.unit('qmail-local.c').functions.values():
        for x in f_.all_x():
            if x.type in OFFT:
                noff += 1
            if x.k == 'cast' and x.op == 'IntegralCast' and x.type in NARROW and x.args and x.args[0] is not None and x.args[0].type in OFFT:
                narrowing.append('%s (%s -> %s) in %s' % (x.where, x.args[0].type, x.type, f_.name))
        rt = f_.f.get('ret') if hasattr(f_, 'f') and isinstance(f_.f, dict) else None
    if noff < 3:
        raise AnalysisBroken('qmail-local.c: no file-offset expressions found')
    r3.check(not narrowing, 'file-offsets-are-never-narrowed', 'qmail-local.c/seek.h', 'a file offset is converted to a 32-bit type at %s: for a mailbox of 2 GiB or more the roll-back position is wrong, and a failed delivery leaves a fragment behind or truncates old mail' % narrowing[:3])
    r5 = rep.rule('C12.5-copy-results', 'R-TABLE', 'substdio_copy() tells its callers apart: 0 = copied, -2 = read error, -3 = write error (maildir_child and qmail-queue treat anything else as copied); the read side under it reports errors as errors')
    from rules import libtab
    for f_ in (libtab.substdio_copy_sites, libtab.substdio_read_sites):
        for inst, v in sorted(f_(db, rep, prog).items()):
            r5.check(v[0], inst, v[1], v[2], v[3])
    r5.expect_min(4)
    r6 = rep.rule('C12.6-lock-and-write-primitives', 'R-TABLE', 'lock_ex() waits for an exclusive lock and lock_un() releases it (the request reaching flock/lockf is evaluated): concurrent mbox deliveries are serialised, not skipped; allwrite() under every substdio_put/flush retries short writes until everything is written or a write fails, so success means the whole message reached the file')
    for inst, v in sorted(libtab.lock_sites(db, rep, prog, which=('lock_ex', 'lock_un')).items()):
        r6.check(v[0], inst, v[1], v[2], v[3])
    for inst, v in sorted(libtab.allwrite_result_sites(db, rep, prog).items()):
        r6.check(v[0], inst, v[1], v[2], v[3])
    r6.expect_min(3)

    r4 = rep.rule('C12.4-mbox-quoting', 'R-GUARD', '">" is written exactly for lines gfrom() accepts; gfrom skips ">"s and compares 5 bytes with "From "; the From_ line maps space, tab and newline of the sender to "-"')
    if 'mbox:quote-iff-gfrom(line)' in MH.sites:
        v = MH.sites['mbox:quote-iff-gfrom(line)']
        r4.check(v[0], 'quote-iff-gfrom(line)', v[1], v[2], v[3])
    elif all(v[0] for v in MH.sites.values()):
        raise AnalysisBroken('mailfile: no message line is written')
    gf = db.fn('gfrom.c', 'gfrom')

    class GF(QHooks):
        def __init__(self):
            self.rets = []

        def tracked_global(self, path):
            return True

        def precise_arith(self, path):
            return True

        def _cmp(self, E, x, args):
            from qv.esp import ptr_add
            def rd(v, n):
                v = next(iter(v)) if v is not TOP and len(v) == 1 else None
                if isinstance(v, tuple) and v[0] == 'str':
                    return [ord(c) for c in v[1][:n]] + [0] * max(0, min(n, len(v[1]) + 1) - len(v[1][:n]))
                out = []
                for i in range(n):
                    q = ptr_add(v, i) if isinstance(v, tuple) else None
                    b = E.get(q[1]) if q else TOP
                    out.append(next(iter(b)) if b is not TOP and len(b) == 1 else None)
                return out
            n = next(iter(args[2])) if args[2] is not TOP and len(args[2]) == 1 else None
            if not isinstance(n, int):
                return [Outcome(ret=fs(0)), Outcome(ret=fs(1))]
            a_, b_ = rd(args[0], n), rd(args[1], n)
            for i in range(n):
                ca = a_[i] if i < len(a_) else None
                cb = b_[i] if i < len(b_) else None
                if ca is None or cb is None:
                    return [Outcome(ret=fs(0)), Outcome(ret=fs(1))]     # reads beyond the line: unknown
                if ca != cb:
                    return [Outcome(ret=fs(1))]
                if ca == 0:
                    break
            return [Outcome(ret=fs(0))]

        prim_strncmp = prim_memcmp = prim_byte_diff = _cmp

        def on_return(self, E, fn, val):
            if fn.name == 'gfrom':
                self.rets.append(val)
    badg = []
    lines = ['From ', '>From ', '>>From x', 'From', 'Fro', 'from ', 'From_x', '>', '', 'xFrom ', 'From \n', '>>>>From ', '>From', 'From me\n', ' From ']
    for ln in lines:
        H_ = GF()
        e_ = Engine(db, prog, H_)
        fid = e_.frame_id(gf)
        st = {'%s::%s' % (fid, gf.params[0]): fs(('&', 'L[0]')), '%s::%s' % (fid, gf.params[1]): fs(len(ln))}
        for i_, ch in enumerate(ln):
            st['L[%d]' % i_] = fs(ord(ch))
        e_.run(gf, st)
        rep.count_states(e_.states, e_.transitions)
        want = 1 if ln.lstrip('>').startswith('From ') else 0
        got = sorted({(1 if next(iter(v)) else 0) if v is not TOP and len(v) == 1 else '?' for v in H_.rets})
        if got != [want]:
            badg.append((ln, got, want))
    r4.check(not badg, 'gfrom-skips->-and-compares-"From "', 'gfrom.c', 'gfrom(line) deviates (line, result, documented): %s; an unquoted "From " line splits the message for the mbox reader' % badg[:4])
    mainf = prog.fn('main', 'qmail-local.c')
    # the From_ line: exactly blank, tab and newline of the sender become '-' (qmail-local's main explored concretely with a sender of all 255 byte values)
    from rules import C13
    v = C13.main_prefix_sites(db, rep, prog)['From_-line-maps-blank,tab,newline-of-the-sender-to-a-dash']
    r4.check(v[0], 'From_-line-maps-space,tab,newline', v[1], v[2], v[3])
    r4.expect_min(3)
    rep.assume('fsync durability, atomic link, O_EXCL and flock semantics', 'the round trip of the mbox quoting for all messages is not decided')
