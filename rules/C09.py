"""C09 — remote delivery verdicts are sound for every server behaviour.

1/2. smtp(): decision table extracted over reply-code classes per protocol phase.
3.   connection loss: safe read/write wrappers call dropped(); dropped() is a Z report with
     "Possible duplicate" iff flagcritical; flagcritical window.
4.   smtpcode(): multi-line reply framing as a transducer over {DASH, LF, other}.
5.   qmail-rspawn report(): folding table over exit status and (small-scope, all byte
     values) qmail-remote output; spawn.c: one report group per exited child.
"""
from qv.core import AnalysisBroken
from qv.esp import Engine, Outcome, TOP, fs
from qv.lib import QHooks, transitive_callees, lit_of, branch_zero_test

REPS = [199, 220, 221, 250, 354, 399, 400, 450, 499, 500, 550, 999]


def cls(code):
    return '5xx' if code >= 500 else ('4xx' if code >= 400 else 'ok')


class SmtpHooks(QHooks):
    tracked = frozenset(['G:reciplist'])
    NRCPT = 2       # the conversation is explored for a message with two recipients

    def __init__(self):
        self.sites = {}
        self.table = {}
        self.quits = 0

    def precise_arith(self, path):
        return True         # recipient counters (an index, a remaining count, a number accepted) are concrete for two recipients

    def materialize(self, E, path):
        if path == 'G:reciplist.len':
            return fs(self.NRCPT)
        if path == 'G:reciplist.sa':
            return fs(('&', 'RCPT[0]'))
        return TOP

    def site(self, inst, x, ok, detail, E):
        prev = self.sites.get(inst)
        if prev is None or (prev[0] and not ok):
            self.sites[inst] = (ok, x.where if x is not None else 'qmail-remote.c:smtp', detail, E.trace.list() if not ok else [])
        if not ok:
            E.kill()

    def g(self, E, k, d=None):
        v = E.get(k)
        return next(iter(v)) if v else d

    def expected(self, phase, code):
        """-> 'continue' or the letter the property demands"""
        if phase == 'greeting':
            return 'continue' if code == 220 else 'Z'
        if phase == 'helo':
            return 'continue' if code == 250 else 'Z'
        if phase in ('mail', 'data'):
            return {'5xx': 'D', '4xx': 'Z', 'ok': 'continue'}[cls(code)]
        if phase == 'rcpt':
            return {'5xx': 'h', '4xx': 's', 'ok': 'r'}[cls(code)]
        if phase == 'final':
            return {'5xx': 'D', '4xx': 'Z', 'ok': 'K'}[cls(code)]
        raise AnalysisBroken('unknown phase %s' % phase)

    def resolve_pending(self, E, x, action):
        """an action (send next command / blast / recipient letter / quit letter) happens: is it
        what the pending reply demands?"""
        pend = self.g(E, '$pending')
        if pend is None:
            return
        phase, code = pend
        exp = self.expected(phase, code)
        self.table[(phase, code)] = action
        if exp == 'continue':
            ok = action in ('send', 'blast')
        else:
            ok = action == exp
        self.site('verdict:%s:%s' % (phase, cls(code) if phase not in ('greeting', 'helo') else ('220' if code == 220 else '250' if code == 250 else 'other')),
                  x, ok, 'after a %d reply in phase %s the client does "%s", the property demands "%s"' % (code, phase, action, exp), E)
        E.set('$pending', TOP)

    def prim_smtpcode(self, E, x, args):
        pend = self.g(E, '$pending')
        phase = self.g(E, '$phase', 'greeting')
        if pend is not None:
            self.site('one-action-per-reply', x, False, 'a reply was read in phase %s without acting on the previous one' % phase, E)
            return [Outcome(ret=TOP)]
        if phase == 'final':
            self.site('flagcritical-during-final-reply', x, True, '', E)
        return [Outcome(ret=fs(c), sets={'$pending': fs((phase, c))}, log='server replies %d (phase %s)' % (c, phase)) for c in REPS]

    def _send(self, E, x, lit):
        if lit is None:
            return
        ph = None
        if lit.startswith('HELO') or lit.startswith('EHLO'):
            ph = 'helo'
        elif lit.startswith('MAIL'):
            ph = 'mail'
        elif lit.startswith('RCPT'):
            ph = 'rcpt'
        elif lit.startswith('DATA'):
            ph = 'data'
        if ph:
            self.resolve_pending(E, x, 'send')
            if ph == 'rcpt':
                n = self.g(E, '$rcptopen', 0)
                self.site('one-letter-per-recipient', x, n == 0, 'next RCPT sent without a report for the previous recipient', E)
                E.set('$rcptopen', fs(1))
            if ph == 'data':
                self.site('DATA-needs-an-accepted-recipient', x, self.g(E, '$anyr', 0) == 1, 'DATA sent although no recipient was accepted', E)
            E.set('$phase', fs(ph))

    def _to_server(self, E, x, args):
        a0 = x.args[0].strip()
        if a0.k == 'un' and a0.args and a0.args[0].path() == 'G:smtpto':
            return True
        v = args[0]
        return v is not TOP and len(v) == 1 and next(iter(v)) == ('&', 'G:smtpto')

    def prim_substdio_puts(self, E, x, args):
        # a command is recognised by its verb, whichever output routine carries it (puts, put with the length, a helper's parameter)
        if self._to_server(E, x, args):
            self._send(E, x, lit_of(E, x.args[1]))
        return [Outcome(ret=TOP)]

    prim_substdio_putsflush = prim_substdio_put = prim_substdio_putflush = prim_substdio_bput = prim_substdio_bputs = prim_substdio_puts

    def prim_substdio_flush(self, E, x, args):
        return [Outcome(ret=TOP)]

    def prim_blast(self, E, x, args):
        self.resolve_pending(E, x, 'blast')
        self.site('blast-only-after-DATA-accepted', x, self.g(E, '$phase') == 'data', 'blast() in phase %s' % self.g(E, '$phase'), E)
        E.set('$phase', fs('final'))
        E.set('$blasted', fs(1))
        return [Outcome(ret=TOP, log='blast()')]

    def prim_out(self, E, x, args):
        lit = lit_of(E, x.args[0])
        if lit in ('h', 's', 'r') and self.g(E, '$phase') == 'rcpt':
            self.resolve_pending(E, x, lit)
            self.site('one-letter-per-recipient', x, self.g(E, '$rcptopen', 0) == 1, 'recipient letter without a RCPT', E)
            E.set('$rcptopen', fs(2))
            if lit == 'r':
                E.set('$anyr', fs(1))
        return [Outcome(ret=TOP, log='out(%r)' % (lit[:20] if lit else None))]

    def prim_zero(self, E, x, args):
        if self.g(E, '$rcptopen', 0) == 2:
            E.set('$rcptopen', fs(0))
        return [Outcome(ret=TOP)]

    def prim_outhost(self, E, x, args):
        return [Outcome(ret=TOP)]

    prim_outsmtptext = prim_outhost

    def prim_quit(self, E, x, args):
        self.quits += 1
        lit = lit_of(E, x.args[0])
        letter = lit[0] if lit else '?'
        pend = self.g(E, '$pending')
        if pend is None:
            # the only verdict not caused by a reply: giving up because no recipient was accepted
            ok = letter == 'D' and self.g(E, '$anyr', 0) == 0 and self.g(E, '$phase') == 'rcpt' or \
                 (letter == 'D' and self.g(E, '$anyr', 0) == 0 and self.g(E, '$phase') == 'mail')
            self.site('quit-without-reply-only-when-no-recipient-accepted', x, ok, 'quit(%r) with no reply pending (phase %s, accepted=%s)' % (lit, self.g(E, '$phase'), self.g(E, '$anyr', 0)), E)
        elif self.expected(*pend) == 'continue' and pend[0] == 'mail' and letter == 'D' and self.g(E, '$anyr', 0) == 0:
            # MAIL accepted, empty recipient loop: giving up is the documented outcome
            self.resolve_pending(E, x, 'send')
        else:
            self.resolve_pending(E, x, letter)
        if letter == 'K':
            self.site('K-needs-recipient+DATA+blast+final-2xx', x,
                      self.g(E, '$anyr', 0) == 1 and self.g(E, '$blasted', 0) == 1 and self.g(E, '$phase') == 'final',
                      'K with accepted=%s blasted=%s phase=%s' % (self.g(E, '$anyr', 0), self.g(E, '$blasted', 0), self.g(E, '$phase')), E)
        return 'noreturn'

    def on_return(self, E, fn, val):
        self.site('smtp()-always-ends-in-a-verdict', None, False, 'smtp() returns without quit()', E)


# ---------------------------------------------------------------- smtpcode framing
class CodeHooks(QHooks):
    """smtpcode() fed one reply byte at a time through the library read it ends in (whatever helper wraps it): the first line
    carries the digits of `code`, continuation lines carry 999; the byte behind the code is "-", LF or something else; the rest
    of a line is any bytes up to LF"""
    def __init__(self, code):
        self.code = code
        self.sites = {}
        self.gets = 0
        self.returns = 0

    def tracked_global(self, path):
        return True

    def precise_arith(self, path):
        return True

    def site(self, inst, x, ok, detail, E):
        prev = self.sites.get(inst)
        if prev is None or (prev[0] and not ok):
            self.sites[inst] = (ok, x.where if x is not None else 'qmail-remote.c:smtpcode', detail, E.trace.list() if not ok else [])
        if not ok:
            E.kill()

    def g(self, E, k, d=None):
        v = E.get(k)
        return next(iter(v)) if v else d

    def _one(self, E, x, args):
        return [Outcome(ret=fs(1))]

    prim_stralloc_copys = prim_stralloc_copyb = prim_stralloc_append = prim_stralloc_catb = prim_stralloc_cats = _one

    def prim_substdio_get(self, E, x, args):
        self.gets += 1
        chp = None
        if len(args) > 1 and args[1] is not TOP and len(args[1]) == 1:
            (a,) = args[1]
            if isinstance(a, tuple) and a[0] == '&':
                chp = a[1]
        if chp is None:
            raise AnalysisBroken('smtpcode: the reply is not read byte by byte through substdio_get(stream, &byte, 1)')
        if self.g(E, '$done', 0):
            self.site('stop-at-end-of-reply', x, False, 'smtpcode() reads beyond the LF that ends the reply (the next reply would be consumed)', E)
            return [Outcome(ret=TOP)]
        pos = self.g(E, '$pos', 0)
        line = self.g(E, '$line', 0)
        final = self.g(E, '$final', 0)
        BYTE = frozenset(range(-128, 128))
        if pos in (0, 1, 2):
            d = ord(('%03d' % self.code)[pos]) if line == 0 else ord('9')
            return [Outcome(ret=fs(1), sets={chp: fs(d), '$pos': fs(pos + 1)}, log='reply line %d: digit %s' % (line, chr(d)))]
        outs = []
        for name, vals in (('DASH', fs(45)), ('LF', fs(10)), ('other', BYTE - {45, 10})):
            st = {chp: vals}
            if pos == 3:
                if name == 'DASH':
                    st['$final'] = fs(0)
                    st['$pos'] = fs(4)
                elif name == 'LF':
                    st['$final'] = fs(1)
                    st['$done'] = fs(1)
                else:
                    st['$final'] = fs(1)
                    st['$pos'] = fs(4)
            elif name == 'LF':
                if final:
                    st['$done'] = fs(1)
                else:
                    st['$pos'] = fs(0)
                    st['$line'] = fs(min(line + 1, 2))
            outs.append(Outcome(ret=fs(1), sets=st, log='reply byte %s (line %d pos %s)' % (name, line, pos)))
        return outs

    def on_return(self, E, fn, val):
        if fn.name != 'smtpcode':
            return
        self.returns += 1
        self.site('return-exactly-at-end-of-reply', None, self.g(E, '$done', 0) == 1,
                  'smtpcode() returns in the middle of a reply (line %s, pos %s, final=%s): the rest would be taken for the next reply' %
                  (self.g(E, '$line', 0), self.g(E, '$pos', 0), self.g(E, '$final', 0)), E)
        got = next(iter(val)) if val is not TOP and len(val) == 1 else None
        self.site('code-from-first-three-bytes', None, got == self.code,
                  'a reply whose first line starts with %d (continuation lines with 999) is returned as %s' % (self.code, got if got is not None else sorted(val)[:4] if val is not TOP else 'undetermined'), E)


# ---------------------------------------------------------------- rspawn report()
ALPHA = {'NUL': 0, 'K': ord('K'), 'Z': ord('Z'), 'D': ord('D'), 's': ord('s'), 'h': ord('h'), 'r': ord('r'), 'x': ord('x')}
CHARS = frozenset(range(-128, 128))


def ref_allows_K(buf):
    """buf: list of ints. True iff relaying K is sound: first report with initial K/Z/D is K, and
    the first byte is neither 's' nor 'h'"""
    if not buf or buf[0] in (ord('s'), ord('h')):
        return False
    j = 0
    for k, b in enumerate(buf):
        if b == 0:
            if buf[j] == ord('K'):
                return True
            if buf[j] in (ord('Z'), ord('D')):
                return False
            j = k + 1
    return False


class ReportHooks(QHooks):
    tracked = frozenset(['RO'])

    def precise_arith(self, path):
        return True         # report() has two counters whatever they are called; the output length bounds both

    def __init__(self):
        self.sites = {}
        self.puts = 0
        self.samples = []
        self.strings = 0
        self.over = 0

    def site(self, inst, x, ok, detail, E):
        prev = self.sites.get(inst)
        if prev is None or (prev[0] and not ok):
            self.sites[inst] = (ok, x.where if x is not None else 'qmail-rspawn.c:report', detail, E.trace.list() if not ok else [])

    def g(self, E, k, d=None):
        v = E.get(k)
        return next(iter(v)) if v else d

    def materialize(self, E, path):
        if path.startswith('RO['):
            k = int(path[3:-1])
            n = self.g(E, '$len')
            if n is not None and k >= n:
                self.site('reads-only-the-len-bytes-of-the-output', None, False, 'byte %d of a %d-byte output is read' % (k, n), E)
                return fs(0)
            return CHARS
        return TOP

    def cstring(self, E, x, ptr):
        """substdio_puts() of a string inside the output: it is read up to its first NUL, which must lie inside the len bytes"""
        n = self.g(E, '$len')
        k0 = int(ptr[1][3:-1])
        outs = []
        sets = {}
        for k in range(k0, n):
            v = E.get('RO[%d]' % k)
            if v is None or v is TOP:
                v = CHARS
            if 0 in v:
                outs.append(Outcome(ret=TOP, sets=dict(sets, **{'RO[%d]' % k: fs(0)})))
            nz = frozenset(v) - {0}
            if not nz:
                return outs
            sets['RO[%d]' % k] = nz
        self.over += 1
        self.site('reads-only-the-len-bytes-of-the-output', x, False,
                  'the string written from byte %d of a %d-byte output has no NUL inside the output (bytes %s): substdio_puts() reads on behind it' %
                  (k0, n, [sorted(E.get('RO[%d]' % k) or [])[:3] if E.get('RO[%d]' % k) is not TOP else '*' for k in range(n)]), E)
        return outs or 'noreturn'

    def first_output(self, E, x, letter):
        if self.g(E, '$wrote', 0):
            return
        E.set('$wrote', fs(1))
        self.puts += 1
        kind = self.g(E, '$kind')
        n = self.g(E, '$len')
        if kind == 'crash':
            self.site('crash->Z', x, letter == 'Z', 'crashed qmail-remote reported as %s' % letter, E)
        elif kind == 'exit111':
            self.site('exit111->Z', x, letter == 'Z', 'exit 111 reported as %s' % letter, E)
        elif kind == 'exitother':
            self.site('other-exit->D', x, letter == 'D', 'unexpected exit status reported as %s' % letter, E)
        elif n == 0:
            self.site('no-output->Z', x, letter == 'Z', 'empty output reported as %s' % letter, E)
        elif letter == 'K':
            # every concretisation of the bytes left undetermined on this path must justify K
            sets = []
            for k in range(n):
                v = E.get('RO[%d]' % k)
                if v is TOP or v is None:
                    v = CHARS
                reps = sorted({b for b in ALPHA.values() if b in v}) or [sorted(v)[0]]
                sets.append(reps)
            import itertools
            bad = None
            cnt = 0
            for combo in itertools.product(*sets):
                cnt += 1
                if not ref_allows_K(list(combo)):
                    bad = combo
                    break
            self.site('K-only-if-first-K/Z/D-report-is-K-and-no-s/h', x, bad is None,
                      'K relayed for qmail-remote output %r' % (''.join(chr(b) if b else '\\0' for b in bad) if bad else ''), E)
            if len(self.samples) < 6:
                self.samples.append('K for %s' % [sorted(s)[:3] for s in sets])

    def prim_substdio_puts(self, E, x, args):
        lit = x.args[1].string
        if lit:
            self.first_output(E, x, lit[0])
            return [Outcome(ret=TOP)]
        p = args[1]
        p = next(iter(p)) if p is not TOP and len(p) == 1 else None
        if isinstance(p, tuple) and p[0] == '&' and p[1].startswith('RO['):
            self.strings += 1
            return self.cstring(E, x, p)
        return [Outcome(ret=TOP)]

    def prim_byte_chr(self, E, x, args):
        """byte_chr(s,n,c): index of the first c in s[0..n), or n"""
        p, cnt, c = args[0], args[1], args[2]
        p = next(iter(p)) if p is not TOP and len(p) == 1 else None
        cnt = next(iter(cnt)) if cnt is not TOP and len(cnt) == 1 else None
        c = next(iter(c)) if c is not TOP and len(c) == 1 else None
        if not (isinstance(p, tuple) and p[0] == '&' and p[1].startswith('RO[')) or not isinstance(cnt, int) or not isinstance(c, int):
            return [Outcome(ret=TOP)]
        k0 = int(p[1][3:-1])
        n = self.g(E, '$len')
        if cnt < 0 or k0 + cnt > n:
            self.site('reads-only-the-len-bytes-of-the-output', x, False, 'byte_chr() searches %d bytes from byte %d of a %d-byte output' % (cnt, k0, n), E)
            return 'noreturn'
        outs = []
        sets = {}
        for t in range(cnt):
            v = E.get('RO[%d]' % (k0 + t))
            if v is None or v is TOP:
                v = CHARS
            if c in v:
                outs.append(Outcome(ret=fs(t), sets=dict(sets, **{'RO[%d]' % (k0 + t): fs(c)})))
            rest = frozenset(v) - {c}
            if not rest:
                return outs
            sets['RO[%d]' % (k0 + t)] = rest
        outs.append(Outcome(ret=fs(cnt), sets=dict(sets)))
        return outs

    def prim_substdio_put(self, E, x, args):
        lit = x.args[1].string
        if lit:
            self.first_output(E, x, lit[0])
            return [Outcome(ret=TOP)]
        p = args[1]
        p = next(iter(p)) if p is not TOP and len(p) == 1 else None
        if isinstance(p, tuple) and p[0] == '&' and p[1].startswith('RO['):
            self.strings += 1
            k0 = int(p[1][3:-1])
            n = self.g(E, '$len')
            cnt = args[2]
            hi = None if cnt is TOP or not cnt or not all(isinstance(c, int) for c in cnt) else max(cnt)
            if hi is None or k0 + hi > n or min(cnt) < 0:
                self.site('reads-only-the-len-bytes-of-the-output', x, False,
                          '%s bytes are written from byte %d of a %d-byte output' % ('an undetermined number of' if hi is None else sorted(cnt), k0, n), E)
        return [Outcome(ret=TOP)]


def g1v(v):
    return next(iter(v)) if v is not TOP and v is not None and len(v) == 1 else None


def g1(E, k, d=None):
    v = E.get(k)
    return next(iter(v)) if v is not TOP and v is not None and len(v) == 1 else d


class ConnectHooks(QHooks):
    """qmail-remote main(): from the DNS answer to the first connection, over small MX geometries"""
    SCEN = [(), (10,), (10, 20), (10, 10), (20, 10)]

    def __init__(self, dns):
        self.dns = dns          # DNS_* values of the tree
        self.ends = []

    def tracked_global(self, path):
        return True

    def precise_arith(self, path):
        return True

    def _nop(self, E, x, args):
        return [Outcome(ret=TOP)]

    prim_sig_pipeignore = prim_getcontrols = prim_addrmangle = prim_tcpto_err = prim_close = prim_now = prim_getpid = prim_scan_ulong = _nop
    prim_outhost = prim_outsafe = prim_zero = prim_substdio_flush = _nop

    def prim_chdir(self, E, x, args):
        return [Outcome(ret=fs(0))]

    def prim_stralloc_copys(self, E, x, args):
        sa = g1v(args[0])
        if isinstance(sa, tuple) and sa[0] == '&':
            return [Outcome(ret=fs(1), sets={sa[1] + '.s': fs(('&', 'HOSTB[0]')), sa[1] + '.len': fs(1), 'HOSTB[0]': fs(ord('h'))})]
        return [Outcome(ret=fs(1))]

    def prim_constmap(self, E, x, args):
        if g1(E, '$route') is not None:
            return [Outcome(ret=fs(0))]
        return [Outcome(ret=fs(0), sets={'$route': fs(0)}), Outcome(ret=fs(('&', 'RH[0]')), sets={'$route': fs(1), 'RH[0]': fs(ord('r')), 'RH[1]': fs(0)})]

    def prim_str_chr(self, E, x, args):
        return [Outcome(ret=fs(1))]

    def prim_saa_readyplus(self, E, x, args):
        return [Outcome(ret=fs(1))]

    def prim_ipme_init(self, E, x, args):
        return [Outcome(ret=fs(1))]

    def _dns(self, E, x, args):
        ipp = g1v(args[0])
        if not (isinstance(ipp, tuple) and ipp[0] == '&'):
            raise AnalysisBroken('qmail-remote main: dns_ip/dns_mxip not handed the address list object')
        outs = [Outcome(ret=fs(self.dns['DNS_MEM']), sets={'$dns': fs('MEM')}), Outcome(ret=fs(self.dns['DNS_SOFT']), sets={'$dns': fs('SOFT')}),
                Outcome(ret=fs(self.dns['DNS_HARD']), sets={'$dns': fs('HARD')})]
        for r in (0, 1):
            for k, sc in enumerate(self.SCEN):
                st = {'$dns': fs(r), '$scen': fs(k), ipp[1] + '.len': fs(len(sc)), ipp[1] + '.ix': fs(('&', 'IX[0]'))}
                for i, pf in enumerate(sc):
                    st['IX[%d].pref' % i] = fs(pf)
                outs.append(Outcome(ret=fs(r), sets=st, log='DNS: result %d, %d address(es) with preferences %s' % (r, len(sc), list(sc))))
        return outs

    prim_dns_ip = prim_dns_mxip = _dns

    @staticmethod
    def idx(v):
        import re
        if isinstance(v, tuple) and v[0] == '&':
            m = re.match(r'^IX\[(\d+)\]', v[1])
            if m:
                return int(m.group(1))
        return None

    def _per_host(self, key, vals, argi):
        def prim(E, x, args):
            i = self.idx(g1v(args[argi]))
            if i is None:
                return [Outcome(ret=fs(v)) for v in vals]
            prev = g1(E, '$%s:%d' % (key, i))
            if prev is not None:
                return [Outcome(ret=fs(prev))]
            return [Outcome(ret=fs(v), sets={'$%s:%d' % (key, i): fs(v)}) for v in vals]
        return prim

    def on_call(self, E, x, args):
        if x.callee == 'ipme_is':
            return self._per_host('me', (0, 1), 0)(E, x, args)
        if x.callee == 'tcpto':
            return self._per_host('to', (0, 1), 0)(E, x, args)
        if x.callee == 'timeoutconn':
            i = self.idx(g1v(args[1]))
            return [Outcome(ret=fs(0), sets={'$conn': fs(i)}), Outcome(ret=fs(-1), sets={'$fail:%s' % i: fs(1)})]
        return super().on_call(E, x, args)

    def prim_socket(self, E, x, args):
        return [Outcome(ret=fs(-1), sets={'$sockfail': fs(1)}), Outcome(ret=fs(('fd', 'smtp')))]

    def prim___errno_location(self, E, x, args):
        return [Outcome(ret=fs(('&', '$errno')))]

    def prim_out(self, E, x, args):
        v = g1v(args[0])
        if g1(E, '$verdict') is None and isinstance(v, tuple) and v[0] == 'str' and v[1]:
            E.set('$verdict', fs(v[1][0]))
        return [Outcome(ret=TOP)]

    def end(self, E, what):
        self.ends.append((what, {k: g1v(v) for k, v in E.store.items() if k.startswith('$')}, E.trace.list()))
        return 'noreturn'

    def prim_smtp(self, E, x, args):
        return self.end(E, 'smtp')

    def prim_zerodie(self, E, x, args):
        return self.end(E, g1(E, '$verdict') or '?')

    def prim__exit(self, E, x, args):
        return self.end(E, g1(E, '$verdict') or '?')


def connect_expected(st):
    """documented verdict class for one explored scenario: 'Z', 'D' or ('smtp', i)"""
    d = st.get('$dns')
    if d in ('MEM', 'SOFT'):
        return 'Z'
    if d == 'HARD':
        return 'D'
    sc = ConnectHooks.SCEN[st['$scen']]
    if not sc:
        return 'Z' if d == 1 else 'D'
    me = [sc[i] for i in range(len(sc)) if st.get('$me:%d' % i)]
    if any(st.get('$me:%d' % i) is None for i in range(len(sc))):
        return None
    prefme = 300000 if st.get('$route') == 1 else min(me + [100000])
    cands = [i for i in range(len(sc)) if sc[i] < prefme]
    if not cands:
        return 'D'
    for i in cands:
        if st.get('$to:%d' % i) is None:
            return None
        if st.get('$to:%d' % i):
            continue
        if st.get('$sockfail'):
            return 'Z'
        if st.get('$conn') == i:
            return ('smtp', i)
        if not st.get('$fail:%d' % i):
            return None
    return 'Z'



class RelayHooks(QHooks):
    """spawn.c main() with one delivery slot, through one round of the select loop: what happens to the bytes a child wrote"""
    def __init__(self):
        self.bad = None
        self.rounds = 0
        self.reads = 0

    def tracked_global(self, path):
        return True

    def precise_arith(self, path):
        return True

    def materialize(self, E, path):
        if path == 'G:auto_spawn':
            return fs(1)
        if path == 'G:flagreading':
            return fs(1)
        if path == 'G:truncreport':
            return fs(3000)
        return TOP

    def _ok0(self, E, x, args):
        return [Outcome(ret=fs(0))]

    prim_chdir = _ok0

    def _one(self, E, x, args):
        return [Outcome(ret=fs(1))]

    prim_stralloc_copys = prim_stralloc_cats = _one

    def prim_malloc(self, E, x, args):
        return [Outcome(ret=fs(('&', 'D[0]')))]

    prim_alloc = prim_malloc

    def _n(self, E, x, args):
        return [Outcome(ret=TOP)]

    prim_substdio_fdbuf = prim_sig_pipeignore = prim_sig_childcatch = prim_initialize = prim_substdio_putflush = prim_sig_childunblock = prim_sig_childblock = _n
    prim_substdio_put = prim_substdio_flush = prim_report = prim_close = prim_str_len = prim_strlen = prim_sig_catch = prim_sig_block = prim_sig_unblock = _n

    def prim_getcmd(self, E, x, args):
        return [Outcome(ret=TOP, sets={'D[0].used': fs(1), 'D[0].fdin': fs(7), 'D[0].output.len': fs(40), 'D[0].output.s': fs(('&', 'OUT[0]'))}, log='a delivery is running in slot 0; 40 bytes of its report collected so far')]

    def check(self, E, x):
        r = g1(E, '$r')
        if r:
            ok = g1(E, '$copied') == (('&', 'OUT[40]'), r) and g1(E, 'D[0].output.len') == 40 + r
            if not ok and self.bad is None:
                self.bad = ('%d bytes were read from the child and the round ends with %s copied and the collected length %s (documented: appended behind the 40 bytes already collected, length %d): the report relayed to qmail-send has a hole, and its first letter decides the verdict' %
                            (r, g1(E, '$copied'), g1(E, 'D[0].output.len'), 40 + r), E.trace.list())

    def prim_select(self, E, x, args):
        self.rounds += 1
        if g1(E, '$round', 0) >= 1:
            self.check(E, x)
            return 'noreturn'
        return [Outcome(ret=fs(1), sets={'$round': fs(1)})]

    def prim__exit(self, E, x, args):
        self.check(E, x)
        return 'noreturn'

    def prim_read(self, E, x, args):
        self.reads += 1
        if g1(E, '$r') is not None:
            return 'noreturn'
        return [Outcome(ret=fs(-1), sets={'$r': fs(0)}), Outcome(ret=fs(0), sets={'$r': fs(0)}), Outcome(ret=fs(5), sets={'$r': fs(5)}, log='the child wrote 5 bytes')]

    def prim_stralloc_readyplus(self, E, x, args):
        if g1(E, '$rpfail', 0) >= 2:
            return [Outcome(ret=fs(1))]
        return [Outcome(ret=fs(1)), Outcome(ret=fs(0), sets={'$rpfail': fs(g1(E, '$rpfail', 0) + 1)}, log='no memory for the report right now')]

    def prim_sleep(self, E, x, args):
        return [Outcome(ret=TOP)]

    def prim_byte_copy(self, E, x, args):
        dst, n = args[0], args[1]
        dst = next(iter(dst)) if dst is not TOP and len(dst) == 1 else None
        n = next(iter(n)) if n is not TOP and len(n) == 1 else None
        return [Outcome(ret=TOP, sets={'$copied': fs((dst, n))})]



def report_explore(db, rep):
    """qmail-rspawn report() over every exit status class and every output of 0..5 bytes (all byte values)"""
    pr = db.program('qmail-rspawn')
    rp = pr.fn('report', 'qmail-rspawn.c')
    H5 = ReportHooks()
    st5 = 0
    wstats = [('crash', [9, 11, 139]), ('exit0', [0]), ('exit111', [111 << 8]), ('exitother', [1 << 8, 100 << 8, 255 << 8])]
    for kind, ws in wstats:
        for w in ws:
            for n in ([0, 1, 2, 3, 4, 5] if kind == 'exit0' else [0, 2]):
                e5 = Engine(db, pr, H5, max_states=400000)
                fid = e5.frame_id(rp)
                e5.run(rp, {'%s::%s' % (fid, rp.params[1]): fs(w), '%s::%s' % (fid, rp.params[3]): fs(n), '%s::%s' % (fid, rp.params[2]): fs(('&', 'RO[0]')), '$len': fs(n), '$kind': fs(kind)})
                st5 += e5.states
                rep.count_states(e5.states, e5.transitions)
    if H5.puts < 5:
        raise AnalysisBroken('report(): output sites not explored')
    if 'reads-only-the-len-bytes-of-the-output' not in H5.sites:
        if not H5.strings:
            raise AnalysisBroken('report(): no string inside the output is written')
        H5.sites['reads-only-the-len-bytes-of-the-output'] = (True, 'qmail-rspawn.c:report', '%d strings inside the output written, each ends inside it' % H5.strings, [])
    return H5, st5


def smtp_verdict_explore(db, rep):
    """qmail-remote smtp() over every reply class per phase (two recipients): the hooks with .sites, .table, .quits"""
    prog = db.program('qmail-remote')
    smtp = prog.fn('smtp', 'qmail-remote.c')
    H = SmtpHooks()
    eng = Engine(db, prog, H)
    eng.run(smtp)
    rep.count_states(eng.states, eng.transitions)
    return H


def reply_framing_sites(db, rep):
    """smtpcode() over reply byte streams (shared with C06: a reply that is not framed exactly desynchronises every later command)"""
    prog = db.program('qmail-remote')
    sc = prog.fn('smtpcode', 'qmail-remote.c')
    sites4 = {}
    for code4 in (250, 451, 554, 199):
        H4 = CodeHooks(code4)
        eng4 = Engine(db, prog, H4, max_states=400000)
        eng4.run(sc)
        rep.count_states(eng4.states, eng4.transitions)
        for inst, v in H4.sites.items():
            if inst not in sites4 or (sites4[inst][0] and not v[0]):
                sites4[inst] = v
        if H4.gets < 4 or (H4.returns == 0 and all(v[0] for v in H4.sites.values())):
            raise AnalysisBroken('smtpcode(): reads/returns not explored')
    return sites4


def dropped_sites(db, rep):
    """dropped(): the report for a lost connection is a temporary failure that says "Possible duplicate!" exactly when the
    connection was lost inside the critical window (flagcritical set), whatever errno holds"""
    from rules import libtab as _lt
    prog = db.program('qmail-remote')
    fn = prog.fn('dropped', 'qmail-remote.c')
    from rules.C06 import critical_flag
    flag = critical_flag(prog, fn)          # the global whose being set guards the warning, whatever it is called
    if flag is None:
        raise AnalysisBroken('dropped(): the flag guarding the duplicate warning was not identified')
    bad = None
    n = 0
    for crit in (0, 1):
        for err in (0, 110, 104, 32, 4):
            outb = []

            class DH(_lt.SAConc, _lt.Conc):
                def _put(self_, E, x, args):
                    p, k = _lt._one(args[1]), _lt._one(args[2])
                    outb.append(self_.mem(E, p, k) if isinstance(k, int) and 0 <= k < 300 else b'?')
                    return [Outcome(ret=fs(0))]
                prim_substdio_put = prim_substdio_bput = _put

                def _puts(self_, E, x, args):
                    outb.append(self_.cstring(E, _lt._one(args[1])) or b'?')
                    return [Outcome(ret=fs(0))]
                prim_substdio_puts = prim_substdio_bputs = _puts

                def prim_substdio_flush(self_, E, x, args):
                    return [Outcome(ret=fs(0))]

                def prim_ip_fmt(self_, E, x, args):
                    return [Outcome(ret=fs(0))]

                def prim__exit(self_, E, x, args):
                    outb.append(('exit', _lt._one(args[0])))
                    return 'noreturn'
            H = DH('dropped')
            _lt._run_conc(db, rep, prog, fn, {flag: fs(crit), '$errno': fs(err), 'G:error_timeout': fs(110)}, 'dropped', H)
            n += 1
            text = b''.join(o for o in outb if isinstance(o, bytes) and o is not None)
            ex = [o for o in outb if isinstance(o, tuple)]
            ok = text[:1] == b'Z' and (b'Possible duplicate' in text) == bool(crit) and ex == [('exit', 0)] and text.endswith(b'\0')
            if not ok and bad is None:
                bad = 'connection lost with the critical-window flag = %d and errno = %d: the report is %r, exits %s; documented: a Z report, with "Possible duplicate!" exactly when the message may already have been accepted' % (crit, err, text[:120], ex)
    return {'dropped:Z-report-with-duplicate-warning-iff-inside-the-critical-window': (bad is None, 'qmail-remote.c:dropped', bad or '%d (flagcritical, errno) pairs' % n, [])}


def run(ctx):
    db, rep = ctx.db, ctx.report
    prog = db.program('qmail-remote')
    # ---- 1/2 smtp()
    r1 = rep.rule('C09.1-smtp-verdict-table', 'R-TABLE', 'smtp(): per phase and reply class the client\'s action is the documented one (Z/D/h/s/r/K/continue); K needs an accepted recipient, accepted DATA, blast and a final 2xx')
    H = smtp_verdict_explore(db, rep)
    smtp = prog.fn('smtp', 'qmail-remote.c')
    for inst, (ok, where, detail, path) in sorted(H.sites.items()):
        r1.check(ok, inst, where, detail, path)
    r1.expect_min(14)
    if H.quits < 5:
        raise AnalysisBroken('smtp(): fewer than 5 quit() verdicts explored')
    rep.sample({'extracted smtp() table (phase, reply) -> action': {'%s/%d' % k: v for k, v in sorted(H.table.items())}})
    rep.exhaustive_rules.append('C09.1-smtp-verdict-table')

    # ---- 3 connection loss
    r3 = rep.rule('C09.3-connection-loss', 'R-GUARD', 'read/write wrappers call dropped() on 0/-1; dropped() reports Z with "Possible duplicate" iff flagcritical; flagcritical is cleared only after the final reply')
    from rules.C07 import wrapper_returns_only_positive
    for w in ('saferead', 'safewrite'):
        f = prog.fn(w, 'qmail-remote.c')
        r3.check(wrapper_returns_only_positive(db, rep, prog, f, w), '%s-returns-only-positive-counts' % w, '%s:%d' % (f.unit, f.line),
                 'explored with the underlying call yielding -1 (timeout / error), 0 and 5: the wrapper may return to substdio only with the positive count; everything else must end in dropped()')
    dr = prog.fn('dropped', 'qmail-remote.c')
    outs = dr.calls('out')
    first = outs[0].args[0].string if outs else None
    r3.check(bool(first) and first[0] == 'Z', 'dropped-reports-Z', '%s:%d' % (dr.unit, dr.line), 'dropped() first output is %r' % first)
    from rules.C06 import critical_flag
    flag = critical_flag(prog, dr)
    r3.check(flag is not None, 'possible-duplicate-iff-the-critical-flag', '%s:%d' % (dr.unit, dr.line), 'the duplicate warning must be guarded by the flag that marks the window after the final dot')
    r3.check(dr.noreturn, 'dropped-noreturn', '%s:%d' % (dr.unit, dr.line), 'dropped() must not return')
    if flag is None:
        raise AnalysisBroken('dropped(): the flag guarding the duplicate warning was not identified')
    # the flag is cleared only after the smtpcode() that follows blast(): second exploration of smtp() watching the flag
    class FlagHooks(SmtpHooks):
        def tracked_global(self, path):
            return path == flag or super().tracked_global(path)

        def site(self, inst, x, ok, detail, E):
            if inst.startswith('critical-flag'):
                SmtpHooks.site(self, inst, x, ok, detail, E)

        def prim_smtpcode(self, E, x, args):
            if self.g(E, '$phase', 'greeting') == 'final':
                E.set('$finalread', fs(1))
            return SmtpHooks.prim_smtpcode(self, E, x, args)

        def on_assign(self, E, x, path, val):
            if path == flag:
                self.nclear = getattr(self, 'nclear', 0) + 1
                self.site('critical-flag-cleared-after-final-reply', x, val == fs(0) and self.g(E, '$finalread', 0) == 1 and self.g(E, '$blasted', 0) == 1,
                          'the flag that marks "the message may have been accepted" is set to %s in smtp() %s: a connection lost while waiting for the reply to the final dot is then reported without the possible-duplicate warning' %
                          (sorted(val) if val is not TOP else '?', 'before the reply to the final dot was read' if self.g(E, '$finalread', 0) != 1 else ''), E)
    FH = FlagHooks()
    engf = Engine(db, prog, FH)
    engf.run(smtp)
    rep.count_states(engf.states, engf.transitions)
    if getattr(FH, 'nclear', 0) < 1 and all(v[0] for v in FH.sites.values()):
        raise AnalysisBroken('smtp(): the critical flag is never cleared on an explored path')
    for inst, (ok, where, detail, path) in sorted(FH.sites.items()):
        r3.check(ok, inst, where, detail, path)
    from qv.lib import unit_callees
    blf = prog.fn('blast', 'qmail-remote.c')
    allowed_fns = {f.name for f in unit_callees(prog, blf)} | {f.name for f in unit_callees(prog, smtp) if f.name not in ('dropped', 'quit')}
    sets1 = [x for f in unit_callees(prog, blf) for x in f.all_x() if x.k == 'asg' and x.args[0].path() == flag and x.args[1].const == 1]
    r3.check(bool(sets1), 'critical-flag-set-in-blast', blf.unit + ':blast', 'blast() does not set the flag before the final dot')
    for fn in prog.functions():
        if fn.unit != 'qmail-remote.c' or fn.name in allowed_fns:
            continue
        for x in fn.all_x():
            if x.k == 'asg' and x.args[0].path() == flag:
                r3.bad('critical-flag-assigned-in-%s' % fn.name, x.where, 'the flag is written outside blast()/smtp()')
    r3.expect_min(5)

    # ---- 4 smtpcode framing
    r4 = rep.rule('C09.4-reply-framing', 'R-TRANSDUCER', 'smtpcode(): a reply ends at the LF of the first line whose 4th byte is not "-"; the code comes from the first three bytes (lines shorter than their code: don\'t care)')
    sites4 = reply_framing_sites(db, rep)
    for inst, (ok, where, detail, path) in sorted(sites4.items()):
        r4.check(ok, inst, where, detail, path)
    for inst_, v_ in sorted(dropped_sites(db, rep).items()):
        r4.check(v_[0], inst_, v_[1], v_[2], v_[3])
    r4.expect_min(3)
    rep.exhaustive_rules.append('C09.4-reply-framing')

    # ---- 5 rspawn report
    pr = db.program('qmail-rspawn')
    rp = pr.fn('report', 'qmail-rspawn.c')
    r5 = rep.rule('C09.5-spawner-folding', 'R-TABLE', 'qmail-rspawn report(): crash->Z, 111->Z, other exit->D, no output->Z; K only if the first K/Z/D report is K and the output does not start with s/h (all byte values, output lengths 0..5)')
    # the status macros every verdict on a child process goes through (wait.h): as functions of the status word
    from rules import libtab as _lt
    for inst_, v_ in sorted(_lt.waitmacro_sites(db, 'qmail-rspawn.c').items()):
        r5.check(v_[0], inst_, v_[1], v_[2], v_[3])
    H5, st5 = report_explore(db, rep)
    for inst, (ok, where, detail, path) in sorted(H5.sites.items()):
        r5.check(ok, inst, where, detail, path)
    r5.expect_min(5)
    r5.note(abstract_states=st5, output_lengths=[0, 1, 2, 3, 4, 5])
    rep.sample({'rspawn K paths (byte sets per position)': H5.samples})
    # spawn.c main: per exited child one group  delnum, report, NUL, flush
    sm = pr.fn('main', 'spawn.c')
    from qv.lib import deep_calls, guards_through, branch_zero_test
    reps = deep_calls(pr, sm, 'report', depth=2)
    if not reps:
        raise AnalysisBroken('spawn.c main: report() call not found')
    for f_, c in reps:
        g = guards_through(pr, sm, f_, c)
        eof = any(branch_zero_test(cc, t, lambda v: (v.var or '').startswith('L:')) == 'zero' for cc, t in g)
        blk = f_.pos[c.id][0]
        tops = f_.block_tops(blk)
        seq = []
        for tx in tops:
            for y in tx.walk():
                if y.k == 'call' and y.callee in ('substdio_put', 'report', 'substdio_flush', 'substdio_putflush'):
                    seq.append((y.callee, y.args[1].string if y.callee == 'substdio_put' and len(y.args) > 1 else None,
                                y.args[2].const if y.callee == 'substdio_put' and len(y.args) > 2 else None))
        seq.sort(key=lambda s_: 0)       # walk order is evaluation order within a statement list
        names = [s_[0] for s_ in seq]
        ok = eof and names[:4] == ['substdio_put', 'report', 'substdio_put', 'substdio_flush'] and seq[2][1] == '' and seq[2][2] == 1 and seq[0][2] == 1
        r5.check(ok, 'one-report-group-per-child-EOF', c.where, 'expected put(delnum) report() put(NUL) flush when the child\'s pipe is at end of file; found %s (eof-guard=%s)' % (seq[:5], eof))
    # ---- 7 the spawner collects every byte of the child's report
    r7 = rep.rule('C09.7-report-collection', 'R-TYPESTATE', 'spawn.c main (one slot, one round of the select loop, allocation failing up to twice): bytes read from a delivery child are appended to its collected report before the round ends, whatever the allocator does')
    # qmail-remote's report is a sequence of NUL-terminated records, the last of which carries the verdict: the remote spawner must hand it on
    # whole (qmail-remote bounds it itself); cutting it - as the local spawner does with qmail-local's free text - drops the terminator of the verdict record
    g_ = db.unit('qmail-rspawn.c').globals.get('truncreport')
    tv = g_.get('init', {}).get('v') if g_ and isinstance(g_.get('init'), dict) and g_['init'].get('k') == 'int' else (0 if g_ and not g_.get('init') else None)
    r7.check(tv is not None and tv <= 100, 'rspawn-hands-the-whole-report-on(no-truncation)', 'qmail-rspawn.c',
             'qmail-rspawn cuts collected reports at %s bytes (spawn.c truncates above 100): a long 4xx reply loses the NUL of its verdict record and is relayed as a permanent failure' % tv)
    smf = pr.fn('main', 'spawn.c')
    RH = RelayHooks()
    e7 = Engine(db, pr, RH, max_states=400000)
    e7.run(smf, {})
    rep.count_states(e7.states, e7.transitions)
    if (RH.reads < 1 or RH.rounds < 2) and RH.bad is None:
        raise AnalysisBroken('spawn.c main: relay loop not explored (%d reads, %d select calls)' % (RH.reads, RH.rounds))
    r7.check(RH.bad is None, 'bytes-read-from-the-child-are-appended-before-the-round-ends', 'spawn.c:main', RH.bad[0] if RH.bad else '', RH.bad[1] if RH.bad else None)
    from rules import C18_spawn
    Hd, _ = C18_spawn.docmd_explore(db, rep)
    k_ = 'parent-keeps-both-ends-of-the-report-pipe-until-the-child-is-reaped'
    if k_ not in Hd.sites:
        raise AnalysisBroken('spawn.c docmd: no started delivery explored')
    r7.check(Hd.sites[k_][0], k_, Hd.sites[k_][1], Hd.sites[k_][2], Hd.sites[k_][3])
    r7.expect_min(2)

    # ---- 6 connect phase
    r6 = rep.rule('C09.6-connect-phase', 'R-TABLE', 'qmail-remote main over MX geometries (0..2 addresses, equal/different preferences, own addresses, back-off table, socket/connect outcomes, smtproutes or not): DNS soft/memory trouble and connect trouble are temporary, DNS hard errors, no MX and "I am the best MX" are permanent; hosts are tried in order, skipping only backed-off ones')
    prm = db.program('qmail-remote')
    mainr = prm.fn('main', 'qmail-remote.c')
    du = db.unit('qmail-remote.c')
    dns = {k: du.macro_int(k) for k in ('DNS_MEM', 'DNS_SOFT', 'DNS_HARD')}
    if None in dns.values():
        raise AnalysisBroken('DNS_* constants not found')
    if ctx.thorough:
        ConnectHooks.SCEN = ConnectHooks.SCEN + [(10, 20, 30), (10, 10, 20), (30, 20, 10), (20, 20, 20)]
    CHk = ConnectHooks(dns)
    e6 = Engine(db, prm, CHk, max_states=2000000)
    fid6 = e6.frame_id(mainr)
    e6.run(mainr, {'%s::%s' % (fid6, mainr.params[0]): fs(4), '%s::%s' % (fid6, mainr.params[1]): fs(('&', 'ARGV[0]')),
                   'ARGV[0]': fs(('&', 'A0[0]')), 'ARGV[1]': fs(('&', 'A1[0]')), 'ARGV[2]': fs(('&', 'A2[0]')), 'ARGV[3]': fs(('&', 'A3[0]')), 'ARGV[4]': fs(0)})
    rep.count_states(e6.states, e6.transitions)
    bad6 = None
    seen6 = {}
    for what, st_, tr in CHk.ends:
        if '$dns' not in st_:
            continue
        exp = connect_expected(st_)
        got = ('smtp', st_.get('$conn')) if what == 'smtp' else what
        seen6[str(exp)] = seen6.get(str(exp), 0) + 1
        if exp is None or got != exp:
            if bad6 is None:
                sc = ConnectHooks.SCEN[st_['$scen']] if '$scen' in st_ else None
                bad6 = ('DNS %s, preferences %s, own addresses %s, backed-off %s, route=%s: qmail-remote ends with %s, documented %s' %
                        (st_.get('$dns'), list(sc) if sc is not None else '-', [i for i in range(len(sc or ())) if st_.get('$me:%d' % i)],
                         [i for i in range(len(sc or ())) if st_.get('$to:%d' % i)], st_.get('$route'), got, exp), tr)
    if bad6 is None and (len(CHk.ends) < 50 or not {'Z', 'D'} <= set(seen6) or not any(k.startswith("('smtp'") for k in seen6)):
        raise AnalysisBroken('qmail-remote main: connect phase not explored (%d ends, %s)' % (len(CHk.ends), seen6))
    r6.check(bad6 is None, 'verdict-class-per-scenario', 'qmail-remote.c:main', bad6[0] if bad6 else '%d scenario ends: %s' % (len(CHk.ends), seen6), bad6[1] if bad6 else None)
    r6.note(scenario_ends=len(CHk.ends))
    r6.expect_min(1)
    rep.exhaustive_rules.append('C09.6-connect-phase')

    rep.assume('reply-code classes are represented by %s; smtp() compares the code only with constants' % REPS,
               'substdio_puts on smtpto sends the literal command', 'plain char is signed')
