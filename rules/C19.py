"""C19 — POP3 server (deletion discipline, message-number validation, stuffing; the model
comparison over whole sessions, sizes/ids versus files are not decided)."""
from qv.core import AnalysisBroken
from qv.esp import Engine, Outcome, TOP, fs
from qv.lib import QHooks, branch_zero_test

DOT = ord('.')


def g1(E, k, d=None):
    v = E.get(k)
    return next(iter(v)) if v else d


class BlastHooks(QHooks):
    tracked = frozenset(['G:line'])
    precise = frozenset(['P:limit', 'G:line.len'])

    def __init__(self):
        self.sites = {}
        self.lines = 0

    def site(self, inst, x, ok, detail, E):
        prev = self.sites.get(inst)
        if prev is None or (prev[0] and not ok):
            self.sites[inst] = (ok, x.where if x is not None else 'qmail-pop3d.c:blast', detail, E.trace.list() if not ok else [])
        if not ok:
            E.kill()

    def end_line(self, E, x):
        cur = g1(E, '$cur')
        if cur is None:
            return
        kind, first = cur
        out = tuple(g1(E, '$out', ()))
        want = (('dot',) if (kind != 'empty' and first == 'dot') else ()) + (('line',) if True else ()) + ('crlf',)
        if g1(E, '$cut'):
            want_any = [(), want]
        else:
            want_any = [want]
        self.site('each-line:leading-dot-stuffed,line,CRLF', x, out in want_any,
                  'a %s line starting with %s is sent as %s (expected %s): a line consisting of "." would end the message for the client' % (kind, first, list(out), list(want)), E)
        E.set('$cur', TOP)
        E.set('$out', fs(()))

    def prim_getln(self, E, x, args):
        self.end_line(E, x)
        self.lines += 1
        mp = None
        if args[2] is not TOP and len(args[2]) == 1:
            (a,) = args[2]
            if isinstance(a, tuple) and a[0] == '&':
                mp = a[1]
        outs = [Outcome(ret=fs(-1)), Outcome(ret=fs(0), sets={mp: fs(0), 'G:line.len': fs(0), '$cur': TOP, '$eof': fs(1)}, log='end of message')]
        nlines = g1(E, '$n', 0)
        if nlines >= 4:
            return outs
        for match in (1, 0):
            for kind, ln, first in (('empty', 0, None), ('text', 2, 'dot'), ('text', 2, 'x')):
                if match == 0 and kind == 'empty':
                    continue
                st = {mp: fs(match), 'G:line.len': fs(ln + match), '$cur': fs((kind, first)), '$out': fs(()), '$n': fs(nlines + 1)}
                if first:
                    st['G:line.s[0]'] = fs(DOT if first == 'dot' else ord('x'))
                outs.append(Outcome(ret=fs(0), sets=st, log='line: %s%s%s' % (kind, ' starting with "."' if first == 'dot' else '', '' if match else ' (unterminated)')))
        return outs

    def prim_put(self, E, x, args):
        lit = x.args[0].string
        n = x.args[1].const
        out = tuple(g1(E, '$out', ()))
        if lit is not None:
            data = lit[:n] if n is not None else lit
            if data == '.':
                out += ('dot',)
            elif data == '\r\n':
                out += ('crlf',)
            elif data == '\r\n.\r\n':
                self.end_line(E, x)
                E.set('$end', fs(min(g1(E, '$end', 0) + 1, 2)))
                return [Outcome(ret=TOP)]
            else:
                out += (('lit', data),)
        elif x.args[0].path() == 'G:line.s' and x.args[1].path() == 'G:line.len':
            out += ('line',)
        else:
            out += (('other', x.args[0].src()),)
        E.set('$out', fs(out))
        return [Outcome(ret=TOP)]

    def prim_flush(self, E, x, args):
        E.set('$flushed', fs(1))
        return [Outcome(ret=TOP)]

    def prim_die(self, E, x, args):
        return 'noreturn'

    def on_assign(self, E, x, path, val):
        if path.endswith('::P:limit'):
            inh = None
            for p, v in E.store.items():
                if '::L:inheaders' in p and v is not TOP and len(v) == 1:
                    inh = next(iter(v))
            self.site('TOP-limit-counts-body-lines-only', x, inh == 0, 'limit is decremented while inheaders=%s' % inh, E)
            if val == fs(0):
                E.set('$cut', fs(1))

    def on_return(self, E, fn, val):
        self.site('message-ends-with-CRLF.CRLF-once-and-flush', None, g1(E, '$end', 0) == 1 and g1(E, '$flushed', 0) == 1,
                  'terminator written %s time(s), flushed=%s' % (g1(E, '$end', 0), g1(E, '$flushed', 0)), E)


class MsgnoHooks(QHooks):
    tracked = frozenset(['G:numm'])
    precise = frozenset(['L:u'])

    def __init__(self):
        self.res = {}

    def prim_scan_ulong(self, E, x, args):
        up = None
        if args[1] is not TOP and len(args[1]) == 1:
            (a,) = args[1]
            if isinstance(a, tuple) and a[0] == '&':
                up = a[1]
        outs = [Outcome(ret=fs(0), sets={'$in': fs('noscan')})]
        for u in (0, 1, 3, 4, 2 ** 31, 2 ** 31 + 5):
            outs.append(Outcome(ret=fs(1), sets={up: fs(u), '$in': fs(u)}))
        return outs

    def on_branch(self, E, cond, truth):
        if cond.src().endswith('.flagdeleted'):
            E.set('$deleted', fs(1 if truth else 0))

    def _err(self, E, x, args):
        return [Outcome(ret=TOP)]

    prim_err_syntax = prim_err_nozero = prim_err_toobig = prim_err_deleted = _err

    def on_return(self, E, fn, val):
        self.res.setdefault(g1(E, '$in'), set()).add((next(iter(val)) if val is not TOP and len(val) == 1 else '?', g1(E, '$deleted')))


def run(ctx):
    db, rep = ctx.db, ctx.report
    prog = db.program('qmail-pop3d')
    u = 'qmail-pop3d.c'
    # ---- 1. stuffing
    r1 = rep.rule('C19.1-stuffing', 'R-TRANSDUCER', 'blast (line level, up to 4 lines, limit 0/1/2): every non-empty line starting with "." is preceded by an extra ".", then the line, then CRLF; the message ends with CRLF.CRLF once and a flush; TOP\'s limit counts body lines only')
    bl = prog.fn('blast', u)
    H = BlastHooks()
    st = 0
    for lim in (0, 1, 2):
        eng = Engine(db, prog, H, max_states=400000)
        eng.run(bl, {'blast::P:limit': fs(lim)})
        st += eng.states
        rep.count_states(eng.states, eng.transitions)
    if H.lines < 3 and all(v[0] for v in H.sites.values()):
        raise AnalysisBroken('pop3d blast: getln not explored')
    for inst, v in sorted(H.sites.items()):
        r1.check(v[0], inst, v[1], v[2], v[3])
    r1.note(abstract_states=st)
    r1.expect_min(3)
    rep.exhaustive_rules.append('C19.1-stuffing')

    # ---- 2. msgno
    r2 = rep.rule('C19.2-message-numbers', 'R-TABLE', 'msgno (numm = 3): a non-negative result only for 1 <= n <= numm naming an undeleted message, and it is n-1; every caller tests -1 before indexing m[]')
    mn = prog.fn('msgno', u)
    MH = MsgnoHooks()
    eng = Engine(db, prog, MH)
    eng.run(mn, {'G:numm': fs(3)})
    rep.count_states(eng.states, eng.transitions)
    bad = []
    for inp, outs in sorted(MH.res.items(), key=lambda kv: str(kv[0])):
        for ret, deleted in outs:
            valid = isinstance(inp, int) and 1 <= inp <= 3
            if valid and deleted == 0:
                if ret != inp - 1:
                    bad.append((inp, ret, 'expected %d' % (inp - 1)))
            elif ret != -1:
                bad.append((inp, ret, 'expected -1 (deleted=%s)' % deleted))
    r2.check(len(MH.res) >= 6 and not bad, 'msgno-table', u + ':msgno', 'deviations (input, result): %s' % bad[:5])
    for caller in ('pop3_dele', 'dolisting', 'pop3_top'):
        fn = prog.fn(caller, u)
        idx = [x for x in fn.all_x() if x.k == 'idx' and x.args[0].path() == 'G:m' and (x.args[1].var or '').startswith('L:i')]
        calls_list = [c for c in fn.calls('list') if (c.args[0].var or '').startswith('L:i')]
        uses = idx + calls_list
        mcalls = fn.calls('msgno')
        ok = bool(mcalls)
        n = 0
        for x in uses:
            g = fn.guards(x) or []
            via_msgno = any(c.strip().k == 'bin' and c.strip().op == '==' and c.strip().args[1].const in (-1, 4294967295) and t is False for c, t in g)
            loop_bound = any(c.strip().k == 'bin' and c.strip().op == '<' and c.strip().args[1].path() == 'G:numm' and t is True for c, t in g)
            ok = ok and (via_msgno or loop_bound)
            n += 1
        r2.check(ok and n > 0, '%s:index-only-after-msgno!=-1-or-under-i<numm' % caller, '%s:%s' % (u, caller), '%d uses of m[i]' % n)
    r2.expect_min(4)

    # ---- 3. deletion discipline
    r3 = rep.rule('C19.3-deletion', 'R-EFFECT', 'a message file is unlinked only in QUIT for messages marked deleted; a message is marked only by DELE after msgno; RSET clears every mark; only undeleted new/ entries are renamed, to cur/...:2,')
    unl = []
    ren = []
    marks = []
    clears = []
    for fn in prog.functions():
        if fn.unit != u:
            continue
        for c in fn.calls('unlink'):
            unl.append((fn, c))
        for c in fn.calls('rename'):
            ren.append((fn, c))
        for x in fn.all_x():
            if x.k == 'asg' and x.args[0].src().endswith('.flagdeleted'):
                (marks if x.args[1].const == 1 else clears).append((fn, x))
    ok = len(unl) == 1 and unl[0][0].name == 'pop3_quit' and unl[0][1].args[0].src() == 'm[i].fn' and \
        any(c.src().endswith('m[i].flagdeleted') and t is True for c, t in unl[0][0].guards(unl[0][1]) or []) and \
        any(c.strip().k == 'bin' and c.strip().op == '<' and c.strip().args[1].path() == 'G:numm' and t is True for c, t in unl[0][0].guards(unl[0][1]) or [])
    r3.check(ok, 'unlink-only-in-QUIT-for-marked-messages', u, 'unlink sites: %s' % [(f.name, c.src()) for f, c in unl])
    ok = len(marks) == 1 and marks[0][0].name == 'pop3_dele' and any(c.strip().k == 'bin' and c.strip().args[1].const == -1 and t is False for c, t in marks[0][0].guards(marks[0][1]) or [])
    r3.check(ok, 'mark-only-in-DELE-after-msgno', u, 'marking sites: %s' % [(f.name, x.where) for f, x in marks])
    rs = [(f, x) for f, x in clears if f.name == 'pop3_rset']
    ok = len(rs) == 1 and any(c.strip().k == 'bin' and c.strip().op == '<' and c.strip().args[1].path() == 'G:numm' and (c.strip().args[0].var or '').startswith('L:i') and t is True for c, t in rs[0][0].guards(rs[0][1]) or [])
    if rs:
        f = rs[0][0]
        init0 = any(x.k == 'asg' and x.op == '=' and (x.args[0].var or '').startswith('L:i') and x.args[1].const == 0 for x in f.all_x())
        ok = ok and init0 and rs[0][1].args[0].src() == 'm[i].flagdeleted'
    r3.check(ok, 'RSET-clears-every-mark(0..numm)', u + ':pop3_rset',
             'the clearing loop must run i from 0 while i < numm: with any other bound a message deleted earlier stays marked after RSET and is unlinked at QUIT')
    other_clears = [(f.name, x.where) for f, x in clears if f.name not in ('pop3_rset', 'getlist')]
    r3.check(not other_clears, 'marks-cleared-only-by-RSET-(and-initialisation)', u, 'other clearing sites: %s' % other_clears)
    ok = len(ren) == 1 and ren[0][0].name == 'pop3_quit'
    if ok:
        f, c = ren[0]
        g = f.guards(c) or []
        ok = any(cc.src().endswith('m[i].flagdeleted') and t is False for cc, t in g) and \
            any(cc.strip().k == 'call' and cc.strip().callee == 'str_start' and cc.strip().args[1].string == 'new/' and t is True for cc, t in g)
        lits = [cc.args[1].string for cc in f.calls(('stralloc_copys', 'stralloc_cats')) if cc.args[1].string]
        ok = ok and lits[:1] == ['cur/'] and ':2,' in lits
    r3.check(ok, 'rename-only-undeleted-new/-to-cur/...:2,', u + ':pop3_quit', '')
    r3.expect_min(5)

    # ---- 4. start-up
    r4 = rep.rule('C19.4-start-up', 'R-ORDER', 'main: refuses uid 0, then chdir to the maildir, then getlist (m[] filled once from the priority queue), then the command loop')
    mf = prog.fn('main', u)
    dr, cd, gl, cm = mf.calls('die_root'), mf.calls('chdir'), mf.calls('getlist'), mf.calls('commands')
    ok = bool(dr and cd and gl and cm) and any(branch_zero_test(c, t, lambda v: v.strip().k == 'call' and v.strip().callee == 'getuid') == 'zero' for c, t in mf.guards(dr[0]) or []) and \
        mf.dominates(cd[0], gl[0]) and mf.dominates(gl[0], cm[0]) and any(branch_zero_test(c, t, lambda v: v.strip().k == 'call' and v.strip().callee == 'getuid') == 'nonzero' for c, t in mf.guards(cd[0]) or [])
    r4.check(ok, 'root-refused<chdir<getlist<commands', u + ':main', '')
    fills = [fn.name for fn in prog.functions() if fn.unit == u for x in fn.all_x() if x.k == 'asg' and x.args[0].src().endswith('.fn') and x.args[0].src().startswith('m[')]
    r4.check(fills == ['getlist'], 'message-table-filled-only-by-getlist', u, 'm[i].fn assigned in %s' % fills)
    r4.expect_min(2)

    # ---- 5. qmail-popup
    r5 = rep.rule('C19.5-popup', 'R-TABLE', 'qmail-popup: commands user, pass, apop, quit, noop + refusal default; PASS needs a preceding USER; the checkpassword protocol is user NUL, password NUL, <unique+host> NUL on descriptor 3')
    pu = db.unit('qmail-popup.c')
    tab = pu.globals.get('pop3commands')
    cmds = {}
    if tab and tab.get('init', {}).get('k') == 'list':
        for row in tab['init']['v']:
            r = row['v']
            cmds[r[0].get('v') if r[0].get('k') == 'str' else '<other>'] = r[1].get('v', '')[2:] if r[1].get('k') == 'fn' else None
    r5.check(set(cmds) == {'user', 'pass', 'apop', 'quit', 'noop', '<other>'} and cmds.get('<other>') == 'err_authoriz', 'pre-authentication-command-table', 'qmail-popup.c', 'table %s' % cmds)
    pp = db.fn('qmail-popup.c', 'pop3_pass')
    dd = pp.calls('doanddie')
    r5.check(bool(dd) and any(branch_zero_test(c, t, lambda v: v.path() == 'G:seenuser') == 'nonzero' for c, t in pp.guards(dd[0]) or []) and
             dd[0].args[0].path() == 'G:username.s', 'PASS-needs-USER', 'qmail-popup.c:pop3_pass', '')
    da = db.fn('qmail-popup.c', 'doanddie')
    seq = []
    for c in da.calls(('substdio_put', 'substdio_puts')):
        seq.append(c.args[1].string if c.args[1].string is not None else c.args[1].src())
    r5.check(seq == ['user', 'pass', '<', 'unique', 'hostname', '>'], 'checkpassword-protocol-order', 'qmail-popup.c:doanddie', 'written: %s' % seq)
    p3 = any(c.strip().k == 'bin' and c.strip().op == '!=' and c.strip().args[1].const == 3 and t is False for c, t in da.guards(da.calls('fork')[0]) or []) if da.calls('fork') else False
    r5.check(p3, 'pipe-read-end-is-descriptor-3', 'qmail-popup.c:doanddie', '')
    r5.expect_min(4)
    rep.assume('sizes and ids versus the files, and session-level equivalence with RFC 1939, are not decided', 'line-level abstraction of blast: a line is empty / starts with "." / starts with another byte')
