"""C19 — POP3 server (deletion discipline, message-number validation, stuffing; the model
comparison over whole sessions, sizes/ids versus files are not decided)."""
from qv.core import AnalysisBroken
from qv.esp import Engine, Outcome, TOP, fs
from qv.lib import QHooks, branch_zero_test, only_reached_through

DOT = ord('.')


def g1(E, k, d=None):
    v = E.get(k)
    return next(iter(v)) if v else d


def g1v(v):
    return next(iter(v)) if v is not TOP and v is not None and len(v) == 1 else None


from rules import libtab


class BlastHooks(QHooks):
    """blast() over every sequence of up to 4 lines (empty / starting with "." / other; terminated or not) and a
    limit: the bytes written, as a sequence of tokens, against the documented encoder"""
    tracked = frozenset(['G:line'])

    maxlines = 4

    def __init__(self, limit):
        self.limit = limit
        self.sites = {}
        self.lines = 0
        self.returns = 0

    def precise_arith(self, path):
        return True

    def site(self, inst, x, ok, detail, E):
        prev = self.sites.get(inst)
        if prev is None or (prev[0] and not ok):
            self.sites[inst] = (ok, x.where if x is not None else 'qmail-pop3d.c:blast', detail, E.trace.list() if not ok else [])
        if not ok:
            E.kill()

    def materialize(self, E, path):
        if path == 'G:line.s':
            return fs(('&', 'G:line.s[0]'))
        return TOP

    def prim_getln(self, E, x, args):
        self.lines += 1
        mp = g1v(args[2])
        mp = mp[1] if isinstance(mp, tuple) and mp[0] == '&' else None
        if mp is None:
            raise AnalysisBroken('pop3d blast: getln() match pointer not an object address')
        inp = tuple(g1(E, '$in', ()))
        outs = [Outcome(ret=fs(-1)), Outcome(ret=fs(0), sets={mp: fs(0), 'G:line.len': fs(0), '$in': fs(inp + (('eof', None, 0),))}, log='end of message')]
        if len(inp) >= self.maxlines:
            return outs
        for match in (1, 0):
            for kind, ln, first in (('empty', 0, None), ('text', 2, 'dot'), ('text', 2, 'x')):
                if match == 0 and kind == 'empty':
                    continue
                st = {mp: fs(match), 'G:line.len': fs(ln + match), '$in': fs(inp + ((kind, first, match),))}
                st['G:line.s[0]'] = fs(DOT if first == 'dot' else ord('x')) if first else fs(10)
                outs.append(Outcome(ret=fs(0), sets=st, log='line: %s%s%s' % (kind, ' starting with "."' if first == 'dot' else '', '' if match else ' (unterminated)')))
        return outs

    def prim_put(self, E, x, args):
        v0, n = g1v(args[0]), g1v(args[1])
        out = tuple(g1(E, '$out', ()))
        cur = len(tuple(g1(E, '$in', ()))) - 1
        if isinstance(v0, tuple) and v0[0] == 'str' and isinstance(n, int):
            data = v0[1][:n]
            out += ({'.': 'dot', '\r\n': 'crlf', '\r\n.\r\n': 'end'}.get(data, ('lit', data)),)
        elif v0 == ('&', 'G:line.s[0]') and n is not None and n == g1(E, 'G:line.len'):
            out += (('line', cur),)
        else:
            out += (('other', x.args[0].src()),)
        E.set('$out', fs(out))
        return [Outcome(ret=TOP)]

    def prim_puts(self, E, x, args):
        v0 = g1v(args[0])
        if isinstance(v0, tuple) and v0[0] == 'str':
            return self.prim_put(E, x, [args[0], fs(len(v0[1]))])
        E.set('$out', fs(tuple(g1(E, '$out', ())) + (('other', x.args[0].src()),)))
        return [Outcome(ret=TOP)]

    def prim_flush(self, E, x, args):
        E.set('$out', fs(tuple(g1(E, '$out', ())) + ('flush',)))
        return [Outcome(ret=TOP)]

    def prim_die(self, E, x, args):
        return 'noreturn'

    @staticmethod
    def reference(lines, limit):
        out = []
        inhdr = True
        for idx, (kind, first, match) in enumerate(lines):
            if kind == 'eof':
                break
            if limit and not inhdr:
                limit -= 1
                if not limit:
                    break
            if kind == 'empty':
                inhdr = False
            elif first == 'dot':
                out.append('dot')
            out.append(('line', idx))
            out.append('crlf')
            if not match:
                break
        return tuple(out) + ('end', 'flush')

    def on_return(self, E, fn, val):
        if fn.name != 'blast':
            return
        self.returns += 1
        inp = tuple(g1(E, '$in', ()))
        out = tuple(g1(E, '$out', ()))
        want = self.reference(inp, self.limit)
        self.site('output=documented-encoding(lines,limit)', None, out == want,
                  'for the lines %s with limit %d blast() writes %s; documented: %s (every non-empty line starting with "." gets an extra ".", then the line, then CRLF; '
                  'limit counts body lines only; CRLF.CRLF once, then a flush)' % (list(inp), self.limit, list(out), list(want)), E)


class TableHooks(QHooks):
    """the message table m[0..numm-1] as an object M: every access is checked against the bounds, marks are split 0/1"""
    NUMM = 3

    def __init__(self):
        self.sites = {}
        self.events = []
        self.returns = []

    def tracked_global(self, path):
        return True

    def precise_arith(self, path):
        return True

    def site(self, inst, x, ok, detail, E):
        prev = self.sites.get(inst)
        if prev is None or (prev[0] and not ok):
            self.sites[inst] = (ok, x.where if x is not None else 'qmail-pop3d.c', detail, E.trace.list() if not ok else [])
        if not ok:
            E.kill()

    @staticmethod
    def index(path):
        import re
        mm = re.match(r'^M\[(-?\d+)\]', path)
        return int(mm.group(1)) if mm else None

    def bounds(self, E, x, path):
        if path.startswith('M['):
            k = self.index(path)
            self.site('m[]-indexed-only-within-0..numm-1', x, k is not None and 0 <= k < self.NUMM,
                      'the message table (numm = %d) is accessed at %s: memory outside the table is read or written' % (self.NUMM, path), E)

    def materialize(self, E, path):
        if path == 'G:m':
            return fs(('&', 'M[0]'))
        if path == 'G:numm':
            return fs(self.NUMM)
        if path.startswith('M['):
            self.bounds(E, None, path)
            if path.endswith('.fn'):
                return fs(('&', 'FN%s[0]' % self.index(path)))
        return TOP

    def materialize_split(self, E, path):
        if path.startswith('M[') and path.endswith('.flagdeleted'):
            self.bounds(E, None, path)
            return [fs(0), fs(1)]
        return None

    def on_assign(self, E, x, path, val):
        if path.startswith('M['):
            self.bounds(E, x, path)
            E.set('$w', fs(tuple(g1(E, '$w', ())) + ((path, g1v(val)),)))

    def _out(self, E, x, args):
        return [Outcome(ret=TOP)]

    prim_put = prim_puts = prim_flush = prim_okay = prim_err = prim_err_syntax = prim_err_nozero = prim_err_toobig = prim_err_deleted = _out
    prim_err_nosuch = prim_err_nounlink = prim_printfn = prim_blast = prim_substdio_fdbuf = prim_close = _out      # CallerHooks overrides blast/fdbuf

    def prim_die(self, E, x, args):
        self.on_return(E, x.fn, None)
        return 'noreturn'

    def prim_die_nomem(self, E, x, args):
        return 'noreturn'

    def on_return(self, E, fn, val):
        if fn.name == self.entry:
            self.returns.append((dict((k, g1v(v)) for k, v in E.store.items() if k.startswith('M[') or k.startswith('$')), g1v(val) if val is not None else None, E.trace.list()))


def msgno_norm(fn, v):
    """msgno()'s answer as a message index or -1: the function may hand back the index itself (refusal -1) or the table entry (refusal: a null pointer)"""
    if '*' in (fn.f.get('ret') or ''):
        if v == 0:
            return -1
        if isinstance(v, tuple) and v[0] == '&':
            import re as _re
            mm = _re.match(r'^M\[(-?\d+)\]$', v[1])
            return int(mm.group(1)) if mm else v
    return v


class MsgnoHooks(TableHooks):
    def prim_scan_ulong(self, E, x, args):
        up = g1v(args[1])
        up = up[1] if isinstance(up, tuple) and up[0] == '&' else None
        outs = [Outcome(ret=fs(0), sets={'$in': fs('noscan')})]
        for u in (0, 1, 3, 4, 2 ** 31, 2 ** 31 + 5, 2 ** 32, 2 ** 32 + 1, 2 ** 32 + 3, 2 ** 33 + 2):
            outs.append(Outcome(ret=fs(1), sets={up: fs(u), '$in': fs(u)}))
        return outs


class CallerHooks(TableHooks):
    """DELE / LIST / UIDL / TOP: msgno() is an event answering -1 or an index"""
    def prim_msgno(self, E, x, args):
        fn_ = E.eng.prog.resolve('msgno', x.fn.unit)
        if fn_ is not None and '*' in (fn_.f.get('ret') or ''):
            return [Outcome(ret=fs(0), sets={'$msgno': fs(-1)})] + [Outcome(ret=fs(('&', 'M[%d]' % k)), sets={'$msgno': fs(k)}) for k in range(self.NUMM)]
        return [Outcome(ret=fs(-1), sets={'$msgno': fs(-1)})] + [Outcome(ret=fs(k), sets={'$msgno': fs(k)}) for k in range(self.NUMM)]

    def prim_scan_ulong(self, E, x, args):
        return [Outcome(ret=fs(0)), Outcome(ret=fs(1), havoc=self._arg_roots(E, x, args))]

    def prim_open_read(self, E, x, args):
        v = g1v(args[0])
        E.set('$opened', fs(v))
        return [Outcome(ret=fs(-1)), Outcome(ret=fs(('fd', 'msg')))]

    def prim_substdio_fdbuf(self, E, x, args):
        ss, fd = g1v(args[0]), g1v(args[2])
        if isinstance(ss, tuple) and ss[0] == '&':
            E.set('$bound:' + ss[1], fs(fd if fd is not None else '?'))
        return [Outcome(ret=TOP)]

    def prim_blast(self, E, x, args):
        ss = g1v(args[0])
        b = g1(E, '$bound:' + ss[1]) if isinstance(ss, tuple) and ss[0] == '&' else None
        self.site('message-read-through-a-reader-freshly-bound-to-the-opened-file', x, b == ('fd', 'msg'),
                  'blast() reads through a substdio that was bound to %s in this command (documented: substdio_fdbuf on the descriptor just opened): text left in the buffer by an earlier TOP would be sent in front of this message' % (b,), E)
        return [Outcome(ret=TOP)]


class QuitHooks(TableHooks):
    def prim_str_start(self, E, x, args):
        v = g1v(args[0])
        lit = g1v(args[1])
        k = int(v[1][2:v[1].index('[')]) if isinstance(v, tuple) and v[0] == '&' and v[1].startswith('FN') else None
        if k is None or lit != ('str', 'new/'):
            return [Outcome(ret=fs(0)), Outcome(ret=fs(1))]
        return [Outcome(ret=fs(0), sets={'$new:%d' % k: fs(0)}), Outcome(ret=fs(1), sets={'$new:%d' % k: fs(1)})]

    def _name(self, v):
        if isinstance(v, tuple) and v[0] == '&' and v[1].startswith('FN'):
            k = int(v[1][2:v[1].index('[')])
            off = int(v[1][v[1].index('[') + 1:-1])
            return ('fn', k, off)
        if isinstance(v, tuple) and v[0] == 'str':
            return ('lit', v[1])
        return ('?', str(v))

    def prim_stralloc_copys(self, E, x, args):
        sa = g1v(args[0])
        return [Outcome(ret=fs(0)), Outcome(ret=fs(1), sets={'$sa:%s' % (sa[1] if isinstance(sa, tuple) else sa): fs((self._name(g1v(args[1])),))})]

    def prim_stralloc_cats(self, E, x, args):
        sa = g1v(args[0])
        key = '$sa:%s' % (sa[1] if isinstance(sa, tuple) else sa)
        return [Outcome(ret=fs(0)), Outcome(ret=fs(1), sets={key: fs(tuple(g1(E, key, ())) + (self._name(g1v(args[1])),))})]

    def prim_stralloc_append(self, E, x, args):
        sa = g1v(args[0])
        key = '$sa:%s' % (sa[1] if isinstance(sa, tuple) else sa)
        return [Outcome(ret=fs(0)), Outcome(ret=fs(1), sets={key: fs(tuple(g1(E, key, ())) + (('nul',),))})]

    prim_stralloc_0 = prim_stralloc_append

    def materialize(self, E, path):
        if path.endswith('.s') and not path.startswith('M['):
            return fs(('sa', path[:-2]))
        return super().materialize(E, path)

    def prim_unlink(self, E, x, args):
        nm = self._name(g1v(args[0]))
        k = nm[1] if nm[0] == 'fn' and nm[2] == 0 else None
        ok = k is not None and g1(E, 'M[%d].flagdeleted' % k) == 1 and ('unlink', k) not in tuple(g1(E, '$ev', ()))
        self.site('QUIT-unlinks-exactly-the-marked-messages', x, ok, 'unlink(%s) for a message with flagdeleted=%s' % (nm, g1(E, 'M[%s].flagdeleted' % k) if k is not None else '?'), E)
        E.set('$ev', fs(tuple(g1(E, '$ev', ())) + (('unlink', k),)))
        return [Outcome(ret=fs(0)), Outcome(ret=fs(-1))]

    def prim_rename(self, E, x, args):
        nm = self._name(g1v(args[0]))
        k = nm[1] if nm[0] == 'fn' and nm[2] == 0 else None
        dst = g1v(args[1])
        built = tuple(g1(E, '$sa:%s' % dst[1], ())) if isinstance(dst, tuple) and dst[0] == 'sa' else None
        want = (('lit', 'cur/'), ('fn', k, 4), ('lit', ':2,'), ('nul',))
        ok = k is not None and g1(E, 'M[%d].flagdeleted' % k) == 0 and g1(E, '$new:%d' % k) == 1 and built == want
        self.site('QUIT-renames-only-undeleted-new/-entries-to-cur/<name>:2,', x, ok,
                  'rename(%s -> %s) with flagdeleted=%s, in new/=%s' % (nm, list(built) if built else dst, g1(E, 'M[%s].flagdeleted' % k) if k is not None else '?', g1(E, '$new:%s' % k)), E)
        E.set('$ev', fs(tuple(g1(E, '$ev', ())) + (('rename', k),)))
        return [Outcome(ret=fs(0)), Outcome(ret=fs(-1))]


class PopupHooks(libtab.SAConc, QHooks):
    """qmail-popup's USER / PASS / APOP handlers run one after the other on concrete arguments: what is handed to the checkpassword program"""
    pipefd = 3          # the descriptor pipe() hands out for its read end

    def __init__(self):
        self.end = None

    def tracked_global(self, path):
        return True

    def precise_arith(self, path):
        return True

    def ev(self, E, e):
        E.set('$ev', fs(tuple(libtab._one(E.get('$ev')) or ()) + (e,)))

    def _reply(self, E, x, args):
        self.ev(E, ('reply', x.callee))
        return [Outcome(ret=TOP)]

    prim_err_syntax = prim_err_wantuser = prim_okay = prim_err_authoriz = _reply

    def prim_pipe(self, E, x, args):
        p = libtab._one(args[0])
        from qv.esp import ptr_add
        return [Outcome(ret=fs(0), sets={p[1]: fs(self.pipefd), ptr_add(p, 1)[1]: fs(self.pipefd + 1)})]

    def prim_fork(self, E, x, args):
        return [Outcome(ret=fs(77))]

    def prim_substdio_fdbuf(self, E, x, args):
        return [Outcome(ret=TOP, sets={'$upfd': args[2], '$upobj': args[0]})]

    def _up(self, E, x, args, data):
        if args[0] != E.get('$upobj') or data is None:
            raise AnalysisBroken('qmail-popup doanddie: an output with undetermined contents or destination')
        self.ev(E, ('up', data))
        return [Outcome(ret=fs(0))]

    def prim_substdio_put(self, E, x, args):
        n = libtab._one(args[2])
        return self._up(E, x, args, self.mem(E, libtab._one(args[1]), n) if isinstance(n, int) and 0 <= n < 200 else None)

    prim_substdio_bput = prim_substdio_putflush = prim_substdio_put

    def prim_substdio_puts(self, E, x, args):
        return self._up(E, x, args, self.cstring(E, libtab._one(args[1])))

    prim_substdio_bputs = prim_substdio_putsflush = prim_substdio_puts

    def prim_substdio_flush(self, E, x, args):
        self.ev(E, ('flush',))
        return [Outcome(ret=fs(0))]

    def prim_close(self, E, x, args):
        return [Outcome(ret=fs(0))]

    def prim_byte_zero(self, E, x, args):
        return [Outcome(ret=TOP)]

    def prim_wait_pid(self, E, x, args):
        self.end = (tuple(libtab._one(E.get('$ev')) or ()), E.trace.list())
        return 'noreturn'

    def _die(self, E, x, args):
        return 'noreturn'

    prim_die_nomem = prim_die_pipe = prim_die_fork = prim_die_write = prim_die = _die


def popup_sites(db, rep):
    prog = db.program('qmail-popup')
    u = 'qmail-popup.c'
    hs = {'user': prog.fn('pop3_user', u), 'pass': prog.fn('pop3_pass', u), 'apop': prog.fn('pop3_apop', u)}
    TAIL = b'<12.34@' + b'pop.example' + b'>\0'
    scen = [([('user', b'alice'), ('pass', b'secret')], b'alice\0secret\0' + TAIL, 'USER then PASS'),
            ([('pass', b'secret')], None, 'PASS without USER'),
            ([('user', b'alice'), ('user', b''), ('pass', b'secret')], b'alice\0secret\0' + TAIL, 'a refused (empty) USER between USER and PASS'),
            ([('user', b'alice'), ('pass', b'')], None, 'empty PASS'),
            ([('user', b'alice'), ('user', b'bob'), ('pass', b'x y')], b'bob\0x y\0' + TAIL, 'a second USER replaces the first'),
            ([('user', b''), ('pass', b'secret')], None, 'only a refused USER'),
            ([('apop', b'carol 0123abcd')], b'carol\0' + b'0123abcd\0' + TAIL, 'APOP name digest'),
            ([('apop', b'carol')], None, 'APOP without a digest'),
            ([('user', b'alice'), ('pass', b'secret')], None, 'the pipe to the checkpassword program does not get descriptor 3')]
    bad = {}
    for cmds, want, what in scen:
        store = {'G:seenuser': fs(0), 'G:username.len': fs(0), 'G:hostname': fs(('&', 'HOST[0]'))}
        store.update(libtab.conc_string_cells('HOST', b'pop.example'))
        store.update(libtab.conc_string_cells('G:unique', b'12.34@'))
        handed = None
        evs = []
        tr = []
        for k, (cmd, arg) in enumerate(cmds):
            fn = hs[cmd]
            H = PopupHooks()
            if 'descriptor 3' in what:
                H.pipefd = 5
            ends = []
            H.on_return = lambda E, f, v, ends=ends, fn=fn: ends.append(dict(E.store)) if f.name == fn.name else None
            eng = Engine(db, prog, H, max_states=60000)
            st = dict(store)
            st['%s::%s' % (eng.frame_id(fn), fn.params[0])] = fs(('&', 'ARG%d[0]' % k))
            st.update(libtab.conc_string_cells('ARG%d' % k, arg))
            st.pop('$ev', None)
            eng.run(fn, st)
            rep.count_states(eng.states, eng.transitions)
            if H.end is not None:
                handed = b''.join(e[1] for e in H.end[0] if e[0] == 'up')
                flushed = any(e[0] == 'flush' for e in H.end[0])
                tr = H.end[1]
                if not flushed:
                    bad.setdefault('checkpassword-protocol-order', ('%s: the credentials are written and never flushed to descriptor %s' % (what, 3), tr))
                break
            if len(ends) == 0 and H.pipefd != 3:
                break           # the process ended without a hand-over
            if len(ends) != 1:
                raise AnalysisBroken('qmail-popup %s: %d ends for a concrete argument' % (fn.name, len(ends)))
            store = {k_: v_ for k_, v_ in ends[0].items() if '::' not in k_}
            evs.append([e for e in (libtab._one(ends[0].get('$ev')) or ())])
        if handed != want:
            key = 'PASS-needs-USER' if (want is None and cmds[-1][0] == 'pass' and not any(c == 'user' and a for c, a in cmds)) else 'checkpassword-protocol-order'
            if 'descriptor 3' in what:
                key = 'pipe-read-end-is-descriptor-3'
            if want is not None and handed is not None and handed.count(b'\0') == want.count(b'\0') and handed != want and len(cmds) > 2:
                key = 'credentials-are-those-of-the-accepted-commands'
            bad.setdefault(key, ('%s (%s): the checkpassword program is handed %r; documented %r (user NUL password NUL <unique+host> NUL)' % (what, ', '.join('%s %r' % (c, a.decode()) for c, a in cmds), handed, want), tr))
    out = {}
    for k in ('checkpassword-protocol-order', 'PASS-needs-USER', 'credentials-are-those-of-the-accepted-commands', 'pipe-read-end-is-descriptor-3'):
        out[k] = (k not in bad, u, bad[k][0] if k in bad else '%d command sequences' % len(scen), bad[k][1] if k in bad else [])
    return out


class MsgArgHooks(TableHooks):
    """msgno() on concrete argument strings, with the real scan_ulong() under it"""
    def inline(self, fn, depth):
        return fn.name == 'scan_ulong' or fn.unit == 'scan_ulong.c' or super().inline(fn, depth)       # and whatever helper it keeps next to it

    def materialize_split(self, E, path):
        return None

    def materialize(self, E, path):
        if path.startswith('M[') and path.endswith('.flagdeleted'):
            self.bounds(E, None, path)
            return fs(0)
        return super().materialize(E, path)

    def _err(self, E, x, args):
        return [Outcome(ret=TOP)]

    prim_err_syntax = prim_err_nozero = prim_err_toobig = prim_err_deleted = _err


def msgno_argument_sites(db, rep):
    """msgno(arg) with numm = 3, nothing deleted: an index only for "1", "2", "3" (a decimal number, optionally followed by a blank and more, as TOP passes it)"""
    prog = db.program('qmail-pop3d')
    mn = prog.fn('msgno', 'qmail-pop3d.c')
    out = {}
    n = 0
    for arg in (b'1', b'3', b'2 5', b'0', b'4', b'', b'junk', b'-1', b' 1', b'2junk', b'1x', b'18446744073709551617', b'18446744073709551618', b'4294967297', b'99999999999999999999999', b'007'):
        H = MsgArgHooks()
        H.entry = 'msgno'
        rets = []
        H.on_return = lambda E, f, v, rets=rets: rets.append(v) if f.name == 'msgno' else None
        e = Engine(db, prog, H, max_states=60000)
        st = {'%s::%s' % (e.frame_id(mn), mn.params[0]): fs(('&', 'ARG[0]'))}
        st.update(libtab.conc_string_cells('ARG', arg))
        e.run(mn, st)
        rep.count_states(e.states, e.transitions)
        n += 1
        got = sorted({msgno_norm(mn, g1v(v)) for v in rets}, key=str)
        head = arg.split(b' ')[0]
        valid = head.isdigit() and 1 <= int(head) <= 3 and (arg == head or arg[len(head):len(head) + 1] == b' ')
        want = [int(head) - 1] if valid else [-1]
        out['msgno(%r)' % arg.decode()] = (got == want, 'qmail-pop3d.c:msgno',
                                           'the argument %r is answered with %s; documented %s: %s' % (arg.decode(), got, want, 'message %d' % int(head) if valid else 'refused (not the number of a message that exists)'), [])
    return out


def uidl_name_sites(db, rep):
    """UIDL n (the handler the command table names for "uidl", run on a concrete three-message table): the unique id shown is the
    file name without its directory, cut at the FIRST colon - the part that stays the same when QUIT renames new/x to cur/x:2, -
    for names with none, one and several colons"""
    prog = db.program('qmail-pop3d')
    tab = db.unit('qmail-pop3d.c').globals.get('pop3commands')
    hname = None
    for row in (tab or {}).get('init', {}).get('v', []):
        r = row['v']
        if r[0].get('k') == 'str' and (r[0].get('v') or '').lower() == 'uidl' and r[1].get('k') == 'fn':
            hname = r[1]['v'][2:]
    if hname is None:
        raise AnalysisBroken('pop3commands[]: no uidl entry')
    fn = prog.fn(hname, 'qmail-pop3d.c')
    bad = None
    names = [b'new/1000.2.host', b'cur/1000.2.host:2,', b'cur/1000.2.host:2,S', b'new/1000.2.fe80::1', b'cur/1000.2.fe80::1:2,', b'new/x:', b'cur/:2,']
    for name in names:
        outb = []

        class PH(libtab.SAConc, libtab.Conc):
            def _put(self_, E, x, args):
                p, n = libtab._one(args[1]), libtab._one(args[2])
                outb.append(self_.mem(E, p, n) if isinstance(n, int) and 0 <= n < 200 else None)
                return [Outcome(ret=fs(0))]
            prim_substdio_put = prim_substdio_bput = _put

            def _puts(self_, E, x, args):
                outb.append(self_.cstring(E, libtab._one(args[1])))
                return [Outcome(ret=fs(0))]
            prim_substdio_puts = prim_substdio_bputs = _puts

            def prim_substdio_flush(self_, E, x, args):
                return [Outcome(ret=fs(0))]
        H = PH(hname)
        st = {0: fs(('&', 'ARG[0]')), 'G:m': fs(('&', 'M[0]')), 'G:numm': fs(3)}
        st.update(libtab.conc_string_cells('ARG', b'2'))
        for k, nm in enumerate((b'new/1.1.a', name, b'new/3.3.c')):
            st.update({'M[%d].fn' % k: fs(('&', 'FN%d[0]' % k)), 'M[%d].flagdeleted' % k: fs(0), 'M[%d].size' % k: fs(100 + k)})
            st.update(libtab.conc_string_cells('FN%d' % k, nm))
        libtab._run_conc(db, rep, prog, fn, st, hname, H)
        if len(H.ends) != 1:
            raise AnalysisBroken('%s("2"): %d ends for %r' % (hname, len(H.ends), name))
        got = None if any(o is None for o in outb) else b''.join(outb)
        want = name[4:].split(b':')[0]
        if (got is None or not got.endswith(b'2 ' + want + b'\r\n')) and bad is None:
            bad = 'UIDL 2 for the file %r answers %r; documented: "+OK 2 %s" (the name up to the first colon: the same before and after the message moves to cur/ with an info suffix)' % (name.decode(), got, want.decode())
    return {'uidl:unique-id=file-name-up-to-the-first-colon': (bad is None, 'qmail-pop3d.c:' + hname, bad or '%d file names' % len(names), [])}


def run(ctx):
    db, rep = ctx.db, ctx.report
    prog = db.program('qmail-pop3d')
    u = 'qmail-pop3d.c'
    # ---- 1. stuffing
    r1 = rep.rule('C19.1-stuffing', 'R-TRANSDUCER', 'blast (line level, every sequence of up to 4 lines, limit 0/1/2/3): the bytes written equal the documented encoding: every non-empty line starting with "." is preceded by an extra ".", then the line, then CRLF; the limit counts body lines only; CRLF.CRLF once and a flush')
    # the lines blast() sends are what getln() read: lines longer than the input buffer arrive whole and inside their reservation
    from rules import libtab as _lt
    for inst_, v_ in sorted(_lt.getln_sites(db, rep, prog).items()):
        r1.check(v_[0], inst_, v_[1], v_[2], v_[3])
    bl = prog.fn('blast', u)
    st = 0
    nret = 0
    for lim in ctx.deep((0, 1, 2, 3), (0, 1, 2, 3, 4)):
        H = BlastHooks(lim)
        H.maxlines = ctx.deep(4, 5)
        eng = Engine(db, prog, H, max_states=4000000)
        fid = eng.frame_id(bl)
        lp = [p_ for p_ in bl.params if 'long' in bl.param_types.get(p_, '')]
        if len(lp) != 1:
            raise AnalysisBroken('pop3d blast: the limit parameter was not found')
        eng.run(bl, {'%s::%s' % (fid, lp[0]): fs(lim)})
        st += eng.states
        nret += H.returns
        rep.count_states(eng.states, eng.transitions)
        if H.lines < 3 and all(v[0] for v in H.sites.values()):
            raise AnalysisBroken('pop3d blast: getln not explored')
        for inst, v in sorted(H.sites.items()):
            r1.check(v[0], 'limit=%d:%s' % (lim, inst), v[1], v[2], v[3])
    r1.check(nret >= 400, 'line-sequences-explored', u + ':blast', '%d' % nret)
    r1.note(abstract_states=st, line_sequences=nret)
    r1.expect_min(5)
    rep.exhaustive_rules.append('C19.1-stuffing')

    # ---- 2. msgno
    r2 = rep.rule('C19.2-message-numbers', 'R-TABLE', 'msgno (numm = 3): a non-negative result only for 1 <= n <= numm naming an undeleted message, and it is n-1; DELE, LIST, UIDL and TOP touch m[] only inside 0..numm-1 and only for the message msgno() named')
    mn = prog.fn('msgno', u)
    MH = MsgnoHooks()
    MH.entry = 'msgno'
    eng = Engine(db, prog, MH)
    eng.run(mn, {})
    rep.count_states(eng.states, eng.transitions)
    bad = []
    seen_in = set()
    for store, ret, tr in MH.returns:
        ret = msgno_norm(mn, ret)
        inp = store.get('$in')
        seen_in.add(inp)
        valid = isinstance(inp, int) and 1 <= inp <= 3
        deleted = store.get('M[%d].flagdeleted' % (inp - 1)) if valid else None
        if valid and deleted == 0:
            if ret != inp - 1:
                bad.append((inp, ret, 'expected %d' % (inp - 1)))
        elif ret != -1:
            bad.append((inp, ret, 'expected -1 (deleted=%s)' % deleted))
    for inst_, v_ in sorted(msgno_argument_sites(db, rep).items()):
        r2.check(v_[0], inst_, v_[1], v_[2], v_[3])
    r2.check(len(seen_in) >= 10 and not bad, 'msgno-table', u + ':msgno', 'deviations (input, result): %s' % bad[:5])
    for inst, v in sorted(MH.sites.items()):
        r2.check(v[0], 'msgno:' + inst, v[1], v[2], v[3])
    for caller in ('pop3_dele', 'pop3_list', 'pop3_uidl', 'pop3_top'):
        fn = prog.fn(caller, u)
        CH = CallerHooks()
        CH.entry = caller
        eng = Engine(db, prog, CH)
        eng.run(fn, {})
        rep.count_states(eng.states, eng.transitions)
        if len(CH.returns) < 2 and all(v[0] for v in CH.sites.values()):
            raise AnalysisBroken('%s: %d returns explored' % (caller, len(CH.returns)))
        okc = True
        why = ''
        for store, ret, tr in CH.returns:
            k = store.get('$msgno')
            writes = store.get('$w') or ()
            if caller == 'pop3_dele':
                want = ((('M[%d].flagdeleted' % k), 1),) if isinstance(k, int) and k >= 0 else ()
                if tuple(writes) != want:
                    okc, why = False, 'msgno()=%s: the table is written as %s (documented: %s)' % (k, list(writes), list(want))
            elif writes:
                okc, why = False, '%s writes the table: %s' % (caller, list(writes))
            if caller == 'pop3_top' and store.get('$opened') is not None and isinstance(k, int) and store.get('$opened') != ('&', 'FN%d[0]' % k):
                okc, why = False, 'TOP opens %s for message index %s' % (store.get('$opened'), k)
        r2.check(okc, '%s:acts-only-on-the-message-msgno()-named' % caller, '%s:%s' % (u, caller), why)
        for inst, v in sorted(CH.sites.items()):
            r2.check(v[0], '%s:%s' % (caller, inst), v[1], v[2], v[3])
        if 'm[]-indexed-only-within-0..numm-1' not in CH.sites:
            r2.ok('%s:m[]-indexed-only-within-0..numm-1' % caller, '%s:%s' % (u, caller))
    r2.expect_min(9)

    # ---- 3. deletion discipline
    r3 = rep.rule('C19.3-deletion', 'R-EFFECT', 'a message file is unlinked only in QUIT for messages marked deleted; a message is marked only by DELE after msgno; RSET clears every mark; only undeleted new/ entries are renamed, to cur/...:2,')
    for target in ('unlink', 'rename'):
        okr, callers = only_reached_through(prog, u, target, {'pop3_quit'})
        r3.check(okr and bool(callers), '%s-reachable-only-from-QUIT' % target, u, '%s() is called from %s' % (target, callers))
    pq = prog.fn('pop3_quit', u)
    QH = QuitHooks()
    QH.entry = 'pop3_quit'
    eng = Engine(db, prog, QH)
    eng.run(pq, {})
    rep.count_states(eng.states, eng.transitions)
    if len(QH.returns) < 8 and all(v[0] for v in QH.sites.values()):
        raise AnalysisBroken('pop3_quit: %d ends explored' % len(QH.returns))
    okq, why = True, ''
    for store, ret, tr in QH.returns:
        ev = tuple(store.get('$ev') or ())
        for k in range(QH.NUMM):
            d = store.get('M[%d].flagdeleted' % k)
            if d == 1 and ev.count(('unlink', k)) != 1:
                okq, why = False, 'message %d is marked deleted and QUIT ends with %d unlink() calls for it' % (k, ev.count(('unlink', k)))
            if d == 0 and store.get('$new:%d' % k) == 1 and ev.count(('rename', k)) != 1:
                okq, why = False, 'undeleted message %d in new/ is not moved to cur/' % k
            if d is None:
                okq, why = False, 'QUIT ends without looking at message %d' % k
    r3.check(okq, 'QUIT-handles-every-message-once', u + ':pop3_quit', why)
    for inst, v in sorted(QH.sites.items()):
        r3.check(v[0], inst, v[1], v[2], v[3])
    for need in ('QUIT-unlinks-exactly-the-marked-messages', 'QUIT-renames-only-undeleted-new/-entries-to-cur/<name>:2,'):
        if need not in QH.sites and all(v[0] for v in QH.sites.values()):
            raise AnalysisBroken('pop3_quit: %s not exercised' % need)
    # marks: set only by DELE (decided above per path), cleared only by RSET and at start-up
    marks, clears = [], []
    for fn in prog.functions():
        if fn.unit != u:
            continue
        for x in fn.all_x():
            l = x.args[0].strip() if x.k == 'asg' and x.args and x.args[0] is not None else None
            if l is not None and l.k == 'mem' and l.n.get('f') == 'flagdeleted':
                (clears if x.op == '=' and x.args[1].const == 0 else marks).append((fn.name, x.where))
    def under(fname, roots):
        return fname in roots or only_reached_through(prog, u, fname, set(roots))[0]
    r3.check(bool(marks) and all(under(f, {'pop3_dele'}) for f, _ in marks), 'mark-only-in-DELE', u, 'marking sites: %s' % marks)
    r3.check(all(under(f, {'pop3_rset', 'getlist'}) for f, _ in clears) and any(under(f, {'pop3_rset'}) for f, _ in clears), 'marks-cleared-only-by-RSET-(and-initialisation)', u, 'clearing sites: %s' % clears)
    rs = prog.fn('pop3_rset', u)
    RH = TableHooks()
    RH.entry = 'pop3_rset'
    eng = Engine(db, prog, RH)
    eng.run(rs, {'M[0].flagdeleted': fs(1), 'M[1].flagdeleted': fs(1), 'M[2].flagdeleted': fs(1)})
    rep.count_states(eng.states, eng.transitions)
    okr = bool(RH.returns) and all(all(store.get('M[%d].flagdeleted' % k) == 0 for k in range(3)) for store, _, _ in RH.returns) and all(v[0] for v in RH.sites.values())
    r3.check(okr, 'RSET-clears-every-mark(0..numm)', u + ':pop3_rset',
             'after RSET with three marked messages the marks are %s: a message deleted earlier stays marked after RSET and is unlinked at QUIT' %
             [[store.get('M[%d].flagdeleted' % k) for k in range(3)] for store, _, _ in RH.returns][:2])
    r3.expect_min(8)

    # ---- 4. start-up
    r4 = rep.rule('C19.4-start-up', 'R-ORDER', 'main: refuses uid 0, then chdir to the maildir, then getlist (m[] filled once from the priority queue), then the command loop')
    mf = prog.fn('main', u)
    dr, cd, gl, cm = mf.calls('die_root'), mf.calls('chdir'), mf.calls('getlist'), mf.calls('commands')
    ok = bool(dr and cd and gl and cm) and any(branch_zero_test(c, t, lambda v: v.strip().k == 'call' and v.strip().callee == 'getuid') == 'zero' for c, t in mf.guards(dr[0]) or []) and \
        mf.dominates(cd[0], gl[0]) and mf.dominates(gl[0], cm[0]) and any(branch_zero_test(c, t, lambda v: v.strip().k == 'call' and v.strip().callee == 'getuid') == 'nonzero' for c, t in mf.guards(cd[0]) or [])
    r4.check(ok, 'root-refused<chdir<getlist<commands', u + ':main', '')
    fills = sorted({fn.name for fn in prog.functions() if fn.unit == u for x in fn.all_x()
                    if x.k == 'asg' and x.args and x.args[0] is not None and x.args[0].strip().k == 'mem' and x.args[0].strip().n.get('f') == 'fn'})
    r4.check(bool(fills) and all(f_ == 'getlist' or only_reached_through(prog, u, f_, {'getlist'})[0] for f_ in fills), 'message-table-filled-only-by-getlist', u, 'the file name of a message slot is assigned in %s' % fills)
    r4.expect_min(2)

    # ---- 5. qmail-popup
    r6 = rep.rule('C19.6-command-dispatch', 'R-TABLE', 'commands() on scripted lines against pop3commands[] and the qmail-popup table: only a whole verb (up to case) selects its handler - an empty line, an abbreviation or a longer word goes to the catch-all entry - so DELE, QUIT and the authentication commands act only when the client sent them')
    for tab_ in (('qmail-pop3d', 'qmail-pop3d.c', 'pop3commands'), ('qmail-popup', 'qmail-popup.c', 'pop3commands')):
        for inst_, v_ in sorted(libtab.commands_sites(db, rep, *tab_).items()):
            r6.check(v_[0], tab_[0] + ':' + inst_, v_[1], v_[2], v_[3])
    r6.expect_min(4)
    r7 = rep.rule('C19.7-unique-ids', 'R-TABLE', 'UIDL/LIST name a message by its file name cut at the first colon, so the listed unique id corresponds to the file and survives the move from new/ to cur/')
    for inst_, v_ in sorted(uidl_name_sites(db, rep).items()):
        r7.check(v_[0], inst_, v_[1], v_[2], v_[3])
    r7.expect_min(1)
    r5 = rep.rule('C19.5-popup', 'R-TABLE', 'qmail-popup: commands user, pass, apop, quit, noop + refusal default; PASS needs a preceding USER; the checkpassword protocol is user NUL, password NUL, <unique+host> NUL on descriptor 3')
    pu = db.unit('qmail-popup.c')
    tab = pu.globals.get('pop3commands')
    cmds = {}
    if tab and tab.get('init', {}).get('k') == 'list':
        for row in tab['init']['v']:
            r = row['v']
            cmds[r[0].get('v') if r[0].get('k') == 'str' else '<other>'] = r[1].get('v', '')[2:] if r[1].get('k') == 'fn' else None
    r5.check(set(cmds) == {'user', 'pass', 'apop', 'quit', 'noop', '<other>'} and cmds.get('<other>') == 'err_authoriz', 'pre-authentication-command-table', 'qmail-popup.c', 'table %s' % cmds)
    for inst, v in sorted(popup_sites(db, rep).items()):
        r5.check(v[0], inst, v[1], v[2], v[3])
    r5.expect_min(4)
    rep.assume('sizes and ids versus the files, and session-level equivalence with RFC 1939, are not decided', 'line-level abstraction of blast: a line is empty / starts with "." / starts with another byte')
