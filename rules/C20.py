"""C20 — no input can corrupt memory: NAMED obligations only.  Memory safety of the suite as a
whole is NOT decided by this check (no sound pointer/bounds analysis for this code base is in
reach: see DESIGN.md).  Each obligation below is a necessary condition: breaking it makes an
out-of-bounds write or a wrapped allocation size reachable from input.
"""
import re
from qv.core import AnalysisBroken
from qv.lib import holds_set
from qv import bounds


from qv.esp import Engine, Outcome, TOP, fs
from qv.lib import QHooks
from rules import libtab as _libtab


class ParseBoundsHooks(QHooks):
    """token822_parse() over a concrete input: the second pass stores only inside what the first pass reserved,
    and neither pass reads beyond the input"""
    def __init__(self, n):
        self.n = n
        self.bad = None
        self.done = 0

    # the byte-search helpers of the library on concrete bytes (a character class may be a table searched with byte_chr/memchr)
    mem = _libtab.SAConc.mem
    cstring = _libtab.SAConc.cstring
    prim_byte_chr = _libtab.SAConc.prim_byte_chr
    prim_byte_rchr = _libtab.SAConc.prim_byte_rchr
    prim_str_chr = _libtab.SAConc.prim_str_chr

    def prim_memchr(self, E, x, args):
        from qv.esp import ptr_add
        p_, c_, n_ = (_libtab._one(a) for a in args[:3])
        m_ = self.mem(E, p_, n_) if isinstance(n_, int) and 0 <= n_ < 4096 else None
        if m_ is None or not isinstance(c_, int):
            return [Outcome(ret=TOP)]
        i = m_.find(bytes([c_ & 255]))
        return [Outcome(ret=fs(ptr_add(p_, i)) if i >= 0 else fs(0))]

    def tracked_global(self, path):
        return True

    def precise_arith(self, path):
        return True

    def fail(self, E, why):
        if self.bad is None:
            self.bad = (why, E.trace.list())
        E.kill()

    @staticmethod
    def idx(path, base):
        import re
        m = re.match(r'^%s\[(-?\d+)\]' % re.escape(base), path)
        return int(m.group(1)) if m else None

    def materialize(self, E, path):
        k = self.idx(path, 'IN.s')
        if k is not None:
            self.fail(E, 'the parser reads input byte %d of a %d-byte field' % (k, self.n))
        return TOP

    def prim_token822_ready(self, E, x, args):
        v = args[1]
        n = next(iter(v)) if v is not TOP and len(v) == 1 else None
        return [Outcome(ret=fs(1), sets={'$ntok': fs(n), 'TA.t': fs(('&', 'TOK[0]'))})]

    def prim_stralloc_ready(self, E, x, args):
        v = args[1]
        n = next(iter(v)) if v is not TOP and len(v) == 1 else None
        return [Outcome(ret=fs(1), sets={'$nchar': fs(n), 'BUF.s': fs(('&', 'BUF.s[0]'))})]

    def on_assign(self, E, x, path, val):
        k = self.idx(path, 'BUF.s')
        if k is not None:
            cap = E.get('$nchar')
            cap = next(iter(cap)) if cap is not TOP and len(cap) == 1 else None
            if not (isinstance(cap, int) and 0 <= k < cap):
                self.fail(E, 'the second pass stores byte %d of the text buffer; the first pass reserved %s bytes' % (k, cap))
        k = self.idx(path, 'TOK')
        if k is not None:
            cap = E.get('$ntok')
            cap = next(iter(cap)) if cap is not TOP and len(cap) == 1 else None
            if not (isinstance(cap, int) and 0 <= k < cap):
                self.fail(E, 'the second pass fills token %d; the first pass reserved %s tokens' % (k, cap))

    def on_return(self, E, fn, val):
        if fn.name == 'token822_parse':
            self.done += 1


def parse_bounds_sites(db, rep, maxlen=3):
    import itertools
    prog = db.program('qmail-inject')
    fn = db.fn('token822.c', 'token822_parse')
    alpha = 'a\\()"[]. '
    strings = [''.join(t) for n in range(0, maxlen + 1) for t in itertools.product(alpha, repeat=n)]
    strings += ['[\\a]', '(\\a)', '"\\a"', 'a\\b', '[a\\]]', '((a)\\()', '<a@[\\1\\2]>', '"\\"', '[\\', 'a\\', '(a(b)c)d', '"a b"@[1.2]', 'a\\"b', '[\\]\\]]']
    bad = None
    ndone = 0
    st_total = 0
    for sv in strings:
        H = ParseBoundsHooks(len(sv))
        e = Engine(db, prog, H, max_states=20000)
        fid = e.frame_id(fn)
        st = {'%s::%s' % (fid, fn.params[0]): fs(('&', 'TA')), '%s::%s' % (fid, fn.params[1]): fs(('&', 'IN')), '%s::%s' % (fid, fn.params[2]): fs(('&', 'BUF')),
              'IN.s': fs(('&', 'IN.s[0]')), 'IN.len': fs(len(sv))}
        for i, ch in enumerate(sv):
            st['IN.s[%d]' % i] = fs(ord(ch))
        e.run(fn, st)
        st_total += e.states
        ndone += H.done
        if H.bad and bad is None:
            bad = ('for the header text %r: %s' % (sv, H.bad[0]), H.bad[1])
    rep.count_states(st_total, st_total)
    if bad is None and ndone < len(strings):
        raise AnalysisBroken('token822_parse: %d of %d inputs reached a return' % (ndone, len(strings)))
    return {'token822_parse:second-pass-stays-inside-the-first-pass-reservation': (bad is None, 'token822.c:token822_parse', bad[0] if bad else '%d inputs (all strings up to %d bytes over %r, and quoted pairs in every context)' % (len(strings), maxlen, alpha), bad[1] if bad else [])}



class ArrayBoundHooks(QHooks):
    """stores into a fixed array (directly, through a pointer, or by a read primitive handed an address into it)"""
    def __init__(self, pat, size):
        import re
        self.re = re.compile(pat)
        self.size = size
        self.maxidx = -1
        self.bad = None
        self.rets = []

    def tracked_global(self, path):
        return True

    def precise_arith(self, path):
        return True

    def touch(self, E, path, what):
        m = self.re.search(path)
        if m:
            k = int(m.group(1))
            self.maxidx = max(self.maxidx, k)
            if not (0 <= k < self.size) and self.bad is None:
                self.bad = ('%s at index %d of an array of %d' % (what, k, self.size), E.trace.list())
                E.kill()

    def on_assign(self, E, x, path, val):
        self.touch(E, path, 'store')

    def target(self, E, v, what):
        if v is not TOP and len(v) == 1:
            (a,) = v
            if isinstance(a, tuple) and a[0] == '&' and isinstance(a[1], str):
                self.touch(E, a[1] if a[1].endswith(']') else a[1] + '[0]', what)


def fixed_buffer_sites(db, rep):
    out = {}
    # (a) qmail.c: the queue program's error text goes into errstr[256], whatever its length
    prog = db.program('qmail-smtpd')
    qc = prog.fn('qmail_close', 'qmail.c')
    arrs = [x for x in qc.all_x() if x.k == 'decl' and 'char[' in (x.n.get('t') or '')]

    class EH(ArrayBoundHooks):
        def prim_substdio_get(self, E, x, args):
            self.target(E, args[1], 'substdio_get() stores the byte it read')
            n = E.get('$n')
            n = next(iter(n)) if n is not TOP and n else 0
            if n > 400:
                if self.bad is None:
                    self.bad = ('the loop that reads the error text does not stop after 400 bytes', E.trace.list())
                return 'noreturn'
            return [Outcome(ret=fs(1), sets={'$n': fs(n + 1)})]

        def _n(self, E, x, args):
            return [Outcome(ret=TOP)]

        prim_substdio_fdbuf = prim_close = prim_qmail_put = prim_substdio_flush = _n

        def prim_wait_pid(self, E, x, args):
            return 'noreturn'
    H = EH(r'errstr(?:#\d+)?\[(-?\d+)\]', 256)
    e = Engine(db, prog, H, max_states=2000000)
    fid = e.frame_id(qc)
    e.run(qc, {'%s::%s' % (fid, qc.params[0]): fs(('&', 'QQ')), 'QQ.flagerr': fs(0)})
    rep.count_states(e.states, e.transitions)
    if H.maxidx < 100 and H.bad is None:
        raise AnalysisBroken('qmail_close: the error text buffer was not exercised (highest index %d)' % H.maxidx)
    out['qmail.c:errstr-index-stays-below-256'] = (H.bad is None, 'qmail.c:qmail_close', H.bad[0] if H.bad else 'highest index written: %d' % H.maxidx, H.bad[1] if H.bad else [])
    # (b) qmail-qmqpd getbuf(): netstring into buf[1000]
    pq = db.program('qmail-qmqpd')
    gb = pq.fn('getbuf', 'qmail-qmqpd.c')
    bu = db.unit('qmail-qmqpd.c').globals.get('buf')
    import re
    m = re.search(r'\[(\d+)\]', bu.get('t', '')) if bu else None
    if not m:
        raise AnalysisBroken('qmail-qmqpd.c: buf[] not found')
    bufsz = int(m.group(1))
    bad = None
    for ln in (0, 5, bufsz - 1, bufsz, bufsz + 1, 5 * bufsz):
        class GH(ArrayBoundHooks):
            def prim_getlen(self, E, x, args):
                return [Outcome(ret=fs(ln))]

            def prim_getbyte(self, E, x, args):
                self.target(E, args[0], 'getbyte() stores a byte of a %d-byte netstring' % ln)
                v = args[0]
                if v is not TOP and len(v) == 1:
                    (a,) = v
                    if isinstance(a, tuple) and a[0] == '&':
                        p_ = a[1] if a[1].endswith(']') else a[1] + '[0]'
                        return [Outcome(ret=TOP, sets={p_: fs(ord('a'))})]
                return [Outcome(ret=TOP)]

            def prim_getcomma(self, E, x, args):
                return [Outcome(ret=TOP)]

            def prim_byte_chr(self, E, x, args):
                return [Outcome(ret=args[1] if len(args) > 1 else TOP)]

            def on_return(self, E, fn, val):
                if fn.name == 'getbuf':
                    self.rets.append(val)
        H = GH(r'^G:buf\[(-?\d+)\]', bufsz)
        e = Engine(db, pq, H, max_states=4000000)
        e.run(gb, {})
        rep.count_states(e.states, e.transitions)
        if H.bad and bad is None:
            bad = ('netstring of %d bytes: %s' % (ln, H.bad[0]), H.bad[1])
        if not H.bad:
            vals = {(1 if next(iter(v)) else 0) if v is not TOP and len(v) == 1 else '?' for v in H.rets}
            if ln >= bufsz and vals != {0} and bad is None:
                bad = ('a netstring of %d bytes is accepted by getbuf() (results %s); the buffer holds %d bytes and a terminating NUL must fit' % (ln, sorted(vals, key=str), bufsz), [])
            if ln < bufsz and not H.rets:
                raise AnalysisBroken('getbuf: no return explored for length %d' % ln)
    out['qmqpd:netstring-stays-inside-buf'] = (bad is None, 'qmail-qmqpd.c:getbuf', bad[0] if bad else 'lengths 0, 5, %d, %d, %d, %d' % (bufsz - 1, bufsz, bufsz + 1, 5 * bufsz), bad[1] if bad else [])
    return out



class DnsHooks(QHooks):
    """one resource-record walker of dns.c on a response that ends `rem` bytes after the record's fixed header"""
    def __init__(self, L, entry):
        self.L = L
        self.entry = entry
        self.over = None
        self.rets = []

    def tracked_global(self, path):
        return True

    def precise_arith(self, path):
        return True

    def materialize(self, E, path):
        if path.startswith('RB['):
            k = int(path[3:-1])
            if k >= self.L and self.over is None:
                self.over = (k, E.trace.list())
            return fs(0) if k < self.L else TOP
        return TOP

    def prim_dn_expand(self, E, x, args):
        # the library routine is bounded by the end-of-message pointer it is given: it must be the end of the response
        eom = args[1]
        eom = next(iter(eom)) if eom is not TOP and len(eom) == 1 else None
        src = args[2]
        src = next(iter(src)) if src is not TOP and len(src) == 1 else None
        if eom != ('&', 'RB[%d]' % self.L) and self.over is None:
            self.over = ('dn_expand() is given the end-of-message %s' % (eom,), E.trace.list())
        k = int(src[1][3:-1]) if isinstance(src, tuple) and src[0] == '&' and src[1].startswith('RB[') else None
        if k is None or k >= self.L:
            return [Outcome(ret=fs(-1))]
        return [Outcome(ret=fs(1)), Outcome(ret=fs(-1))]

    def on_return(self, E, fn, val):
        if fn.name == self.entry:
            self.rets.append(val)


def _lvalue_path(eng, E, arg):
    """the storage an argument expression reads (first lvalue-to-rvalue conversion in it)"""
    for y in arg.walk():
        if y.k == 'cast' and y.op == 'LValueToRValue':
            p = eng.canon(E, y.args[0])
            if p:
                return p
    return None


def dns_walker_sites(db, rep):
    """the record walkers of dns.c (findip / findmx / findname): the data of a resource record is read only if it lies inside the response.
    Walkers are found by role: the functions of dns.c with one integer parameter (the wanted type) that hand the response to dn_expand();
    which static holds the start, the end and the read position of the response is taken from that call's first three arguments."""
    from qv.esp import Env
    from qv.lib import deep_calls
    prog = db.program('qmail-remote')
    out = {}
    du = db.unit('dns.c')
    walkers = []
    for fn in du.functions.values():
        if len(fn.params) != 1 or 'int' not in fn.param_types.get(fn.params[0], 'int'):
            continue
        calls = deep_calls(prog, fn, 'dn_expand', depth=3)
        if calls:
            walkers.append((fn, calls[0][0], calls[0][1]))
    if len(walkers) < 3:
        raise AnalysisBroken('dns.c: fewer than three record walkers found (%s)' % [w[0].name for w in walkers])
    for fn, owner, call in sorted(walkers, key=lambda w: w[0].name):
        fname = fn.name
        eng0 = Engine(db, prog, QHooks())
        E0 = Env(eng0, owner, {}, {}, None)
        roles = [_lvalue_path(eng0, E0, call.args[i]) for i in range(3)]
        if None in roles or len(set(roles)) != 3:
            raise AnalysisBroken('dns.c %s: cannot tell start, end and position of the response from %s' % (fname, call.src()))
        p_buf, p_end, p_pos = roles
        bad = None
        nrun = 0
        for wt, rt in ((1, 1), (1, 2)):                     # the record is of the wanted type / of another type
            for rdlen in (0, 2, 3, 4, 16):
                for rem in (0, 1, 2, 3, 4, 16):
                    P = 20                      # the record starts here
                    L = P + 1 + 10 + rem        # name (1 byte) + fixed part (10 bytes) + what is left of the data
                    H = DnsHooks(L, fname)
                    e = Engine(db, prog, H, max_states=200000)
                    fid = e.frame_id(fn)
                    st = {'%s::%s' % (fid, fn.params[0]): fs(wt), p_buf: fs(('&', 'RB[0]')), p_end: fs(('&', 'RB[%d]' % L)), p_pos: fs(('&', 'RB[%d]' % P))}
                    for k in range(L):
                        st['RB[%d]' % k] = fs(0)
                    st['RB[%d]' % (P + 1)] = fs(rt >> 8)
                    st['RB[%d]' % (P + 2)] = fs(rt & 255)
                    st['RB[%d]' % (P + 9)] = fs(rdlen >> 8)
                    st['RB[%d]' % (P + 10)] = fs(rdlen & 255)
                    e.run(fn, st)
                    rep.count_states(e.states, e.transitions)
                    nrun += 1
                    if H.over and bad is None:
                        bad = ('a record of the %s type whose length field says %d, with %d byte(s) of the response left behind its fixed header: %s' %
                               ('wanted' if wt == rt else 'wrong', rdlen, rem, ('byte %d of a %d-byte response is read' % (H.over[0], L)) if isinstance(H.over[0], int) else H.over[0]), H.over[1])
        out['dns:%s-reads-record-data-only-inside-the-response' % fname] = (bad is None, 'dns.c:' + fname, bad[0] if bad else '%d (type, length field, bytes left) combinations' % nrun, bad[1] if bad else [])
    return out


class LocalReportHooks(QHooks):
    """qmail-lspawn report(): the output of qmail-local is an array of `n` byte cells"""
    def __init__(self, n):
        self.n = n
        self.bad = None
        self.puts = 0

    def tracked_global(self, path):
        return True

    def precise_arith(self, path):
        return True

    def materialize(self, E, path):
        if path.startswith('RL['):
            k = int(path[3:-1])
            if k >= self.n:
                if self.bad is None:
                    self.bad = ('byte %d of a %d-byte output is read' % (k, self.n), E.trace.list())
                return fs(0)
            return fs(0, 120)
        return TOP

    def _put(self, E, x, args):
        p = args[1]
        p = next(iter(p)) if p is not TOP and len(p) == 1 else None
        if isinstance(p, tuple) and p[0] == '&' and p[1].startswith('RL['):
            self.puts += 1
            k0 = int(p[1][3:-1])
            cnt = args[2] if len(args) > 2 else None
            if cnt is None:
                if self.bad is None:
                    self.bad = ('the output is written as a C string from byte %d: it need not contain a NUL' % k0, E.trace.list())
            elif cnt is TOP or not all(isinstance(c, int) for c in cnt) or min(cnt) < 0 or k0 + max(cnt) > self.n:
                if self.bad is None:
                    self.bad = ('%s bytes are written from byte %d of a %d-byte output' % ('an undetermined number of' if cnt is TOP else sorted(cnt), k0, self.n), E.trace.list())
        return [Outcome(ret=TOP)]

    prim_substdio_put = prim_substdio_puts = prim_substdio_bput = prim_substdio_bputs = _put

    def _scan(self, E, p, cnt):
        """a search for the first NUL in cnt bytes from p: one outcome per position it can be at (or nowhere), consistent with the bytes already looked at"""
        if not (isinstance(p, tuple) and p[0] == '&' and p[1].startswith('RL[') and isinstance(cnt, int) and 0 <= cnt < 64):
            return None
        k0 = int(p[1][3:-1])
        if k0 + cnt > self.n and self.bad is None:
            self.bad = ('%d bytes from byte %d of a %d-byte output are searched' % (cnt, k0, self.n), E.trace.list())
        outs = []
        for k in range(cnt + 1):
            sets, ok = {}, True
            for j in range(k + 1 if k < cnt else k):
                cell = 'RL[%d]' % (k0 + j)
                cur = E.store.get(cell)
                want0 = (j == k)
                if k0 + j >= self.n:
                    cur = fs(0) if cur is None else cur
                if cur is None:
                    sets[cell] = fs(0) if want0 else fs(120)
                elif (0 in cur) if want0 else any(b_ != 0 for b_ in cur):
                    sets[cell] = fs(0) if want0 else frozenset(b_ for b_ in cur if b_ != 0)
                else:
                    ok = False
                    break
            if ok:
                outs.append((k, sets))
        return outs

    def prim_byte_chr(self, E, x, args):
        p, cnt, c = (_libtab._one(v) for v in args[:3])
        outs = self._scan(E, p, cnt) if c == 0 else None
        if outs is None:
            return [Outcome(ret=TOP)]
        return [Outcome(ret=fs(k), sets=sets) for k, sets in outs]

    def prim_memchr(self, E, x, args):
        from qv.esp import ptr_add
        p, c, cnt = (_libtab._one(v) for v in args[:3])
        outs = self._scan(E, p, cnt) if c == 0 else None
        if outs is None:
            return [Outcome(ret=TOP)]
        return [Outcome(ret=fs(ptr_add(p, k)) if k < cnt else fs(0), sets=sets) for k, sets in outs]

    def prim_strnlen(self, E, x, args):
        p, cnt = (_libtab._one(v) for v in args[:2])
        outs = self._scan(E, p, cnt)
        if outs is None:
            return [Outcome(ret=TOP)]
        return [Outcome(ret=fs(k), sets=sets) for k, sets in outs]


def report_read_sites(db, rep):
    """the two spawners' report(): only the `len` bytes of the delivery program's output are read"""
    from rules import C09
    out = {}
    H5, _ = C09.report_explore(db, rep)
    v = H5.sites['reads-only-the-len-bytes-of-the-output']
    out['rspawn-report:reads-only-the-len-bytes-of-the-output'] = v
    pl = db.program('qmail-lspawn')
    fn = pl.fn('report', 'qmail-lspawn.c')
    bad = None
    puts = 0
    for w in (0, 100 << 8, 111 << 8):
        for n in (0, 1, 2, 3, 4):
            H = LocalReportHooks(n)
            e = Engine(db, pl, H, max_states=100000)
            fid = e.frame_id(fn)
            e.run(fn, {'%s::%s' % (fid, fn.params[1]): fs(w), '%s::%s' % (fid, fn.params[3]): fs(n), '%s::%s' % (fid, fn.params[2]): fs(('&', 'RL[0]'))})
            rep.count_states(e.states, e.transitions)
            puts += H.puts
            if H.bad and bad is None:
                bad = ('exit code %d, %d bytes of output: %s' % (w >> 8, n, H.bad[0]), H.bad[1])
    if not puts and bad is None:
        raise AnalysisBroken('qmail-lspawn report(): the output is never written')
    out['lspawn-report:reads-only-the-len-bytes-of-the-output'] = (bad is None, 'qmail-lspawn.c:report', bad[0] if bad else '%d writes of the output explored, each inside its len bytes' % puts, bad[1] if bad else [])
    return out


class GetpwHooks(_libtab.SAConc, QHooks):
    over = None

    def tracked_global(self, path):
        return True

    def precise_arith(self, path):
        return True

    def on_assign(self, E, x, path, val):
        import re as _re
        m_ = _re.match(r'^userext(?:@\w+)?::L:\w+(?:#\d+)?\[(\d+)\]$', path or '')
        if m_ and int(m_.group(1)) >= self.size and self.over is None:
            self.over = (int(m_.group(1)), x.where, E.trace.list())

    def prim_byte_copy(self, E, x, args):
        from qv.esp import ptr_add
        dst, n, src = _libtab._one(args[0]), _libtab._one(args[1]), _libtab._one(args[2])
        if isinstance(dst, tuple) and isinstance(n, int):
            import re as _re
            m_ = _re.match(r'^userext(?:@\w+)?::L:\w+(?:#\d+)?\[(\d+)\]$', dst[1])
            if m_ and int(m_.group(1)) + n > self.size and self.over is None:
                self.over = (int(m_.group(1)) + n - 1, x.where, E.trace.list())
        data = self.mem(E, src, n) if isinstance(n, int) and 0 <= n < 200 else None
        sets = {}
        if data is not None and isinstance(dst, tuple):
            for k, b_ in enumerate(data):
                q = ptr_add(dst, k)
                if q:
                    sets[q[1]] = fs(b_)
        return [Outcome(ret=TOP, sets=sets)]

    def prim_case_lowers(self, E, x, args):
        return [Outcome(ret=TOP)]

    def prim_getpwnam(self, E, x, args):
        return [Outcome(ret=fs(0), sets={'$errno': fs(0)})]

    def prim___errno_location(self, E, x, args):
        return [Outcome(ret=fs(('&', '$errno')))]

    def prim__exit(self, E, x, args):
        return 'noreturn'


def getpw_name_sites(db, rep):
    """qmail-getpw userext(): for local parts of 0..40 bytes (no dash, and a dash at each position) every store into username[] stays inside its GETPW_USERLEN bytes"""
    from rules import libtab
    prog = db.program('qmail-getpw')
    ue = prog.fn('userext', 'qmail-getpw.c')
    size = db.unit('qmail-getpw.c').macro_int('GETPW_USERLEN')
    if size is None:
        raise AnalysisBroken('qmail-getpw.c: GETPW_USERLEN is not an integer macro')
    bad = None
    nrun = 0

    GH = GetpwHooks
    GetpwHooks.size = size
    for n in list(range(0, 5)) + [size - 2, size - 1, size, size + 1, size + 8]:
        for dash in [None] + [d for d in (0, 1, size - 1, size, size + 1) if d < n]:
            local = bytearray(b'u' * n)
            if dash is not None:
                local[dash] = ord('-')
            H = GH()
            e = Engine(db, prog, H, max_states=120000)
            st = {'G:local': fs(('&', 'LOC[0]')), 'G:auto_break[0]': fs(ord('-')), 'G:auto_break[1]': fs(0)}
            st.update(libtab.conc_string_cells('LOC', bytes(local)))
            e.run(ue, st)
            rep.count_states(e.states, e.transitions)
            nrun += 1
            if H.over and bad is None:
                bad = ('local part of %d bytes%s: byte %d of username[%d] is written at %s' % (n, (' with a dash at offset %d' % dash) if dash is not None else '', H.over[0], size, H.over[1]), H.over[2])
    return {'getpw:name-copy-and-its-NUL-stay-inside-username[]': (bad is None, 'qmail-getpw.c:userext', bad[0] if bad else '%d local parts' % nrun, bad[1] if bad else [])}


class GrowHooks(_libtab.SAConc, _libtab.Conc):
    """a reserve routine (X_ready / X_readyplus) on concrete counts near the 32-bit limits: what is asked of the allocator and what capacity is recorded"""
    def __init__(self, entry):
        _libtab.Conc.__init__(self, entry)
        self.allocs = []

    def _width(self, x):
        t = (x.args[2].type or '') if len(x.args) > 2 and x.args[2] is not None else ''
        return 64 if 'long' in t or 'size_t' in t else 32

    def _ovf(self, E, x, args, op):
        a_, b_, p_ = (_libtab._one(v) for v in args[:3])
        if not (isinstance(a_, int) and isinstance(b_, int) and isinstance(p_, tuple) and p_[0] == '&'):
            raise AnalysisBroken('%s: overflow builtin on undetermined operands' % x.where)
        w = self._width(x)
        r_ = op(a_, b_)
        return [Outcome(ret=fs(int(not 0 <= r_ < (1 << w))), sets={p_[1]: fs(r_ & ((1 << w) - 1))})]

    def prim___builtin_mul_overflow(self, E, x, args):
        return self._ovf(E, x, args, lambda u, v: u * v)

    def prim___builtin_add_overflow(self, E, x, args):
        return self._ovf(E, x, args, lambda u, v: u + v)

    def _alloc(self, E, x, args):
        self.allocs.append(_libtab._one(args[-1]))
        return [Outcome(ret=fs(('&', 'NEW[0]')))]

    prim_malloc = prim_realloc = prim_alloc = prim_alloc_re = _alloc


def growth_sites(db, rep):
    """every reserve routine of the package, explored on concrete counts: a successful return means the recorded capacity covers the request and the
    allocator was asked for exactly capacity x element size bytes (as integers, not modulo 2^32); a request that cannot be represented fails"""
    table = [('qmail-send', 'stralloc_eady.c', 'stralloc_readyplus', True), ('qmail-send', 'stralloc_eady.c', 'stralloc_ready', False),
             ('qmail-send', 'prioq.c', 'prioq_readyplus', True), ('qmail-inject', 'token822.c', 'token822_readyplus', True),
             ('qmail-inject', 'token822.c', 'token822_ready', False), ('qmail-remote', 'ipalloc.c', 'ipalloc_readyplus', True),
             ('qmail-inject', 'qmail-inject.c', 'saa_readyplus', True), ('qmail-remote', 'qmail-remote.c', 'saa_readyplus', True)]
    out = {}
    for pname, unit, fname, plus in table:
        prog = db.program(pname)
        fn = prog.fn(fname, unit)
        rec = db.unit(unit)

        def run_one(has, ln, cap, n):
            H = GrowHooks(fname)
            st = {0: fs(('&', 'X')), 1: fs(n), 'X.len': fs(ln), 'X.a': fs(cap)}
            names = []
            # the buffer field is the record's pointer field: every pointer-typed field is set (there is one)
            st['$has'] = fs(has)
            H.materialize = lambda E, path, has=has: (fs(('&', 'OLD[0]')) if has else fs(0)) if path.startswith('X.') and path not in ('X.len', 'X.a') else TOP
            _libtab._run_conc(db, rep, prog, fn, st, fname, H)
            if len(H.ends) != 1:
                raise AnalysisBroken('%s: %d ends for (allocated=%s, len=%s, a=%s, n=%s)' % (fname, len(H.ends), has, ln, cap, n))
            store, val, tr = H.ends[0]
            return _libtab.one(val), _libtab._one(store.get('X.a')), H.allocs, tr
        r0 = run_one(0, 0, 0, 1)
        if r0[0] != 1 or len(r0[2]) != 1 or not isinstance(r0[2][0], int) or r0[2][0] < 1:
            raise AnalysisBroken('%s: the first allocation of one element was not observed (%s)' % (fname, r0[:3]))
        esz = r0[2][0]
        bad = None
        n_runs = 0
        big = [0xfffffff0, 0x80000000, 0xffffffff, (0xffffffff // esz) + 1, (0xffffffff // esz) - 2, 0xe0000000 // esz]
        for has, ln, cap, n in [(0, 0, 0, 10), (0, 7, 9, 10), (1, 5, 8, 10), (1, 5, 40, 10), (1, 0, 0, 1), (1, 100, 100, 1), (1, 0xfffffff0, 0xfffffff8, 0x20), (1, 3, 3, 0xfffffffe)] + \
                [(h_, l_, l_, b_) for h_ in (0, 1) for l_ in (0, 9) for b_ in big]:
            ret, a_, allocs, tr = run_one(has, ln, cap, n)
            n_runs += 1
            need = n + (ln if plus and has else 0)          # nothing allocated yet: the old length is meaningless
            what = '%s(x, %d) with the buffer %s, len = %d, a = %d' % (fname, n, 'allocated' if has else 'not allocated', ln, cap)
            why = None
            if ret == 1:
                if not isinstance(a_, int) or a_ < need:
                    why = 'succeeds and records room for %s elements; %d are needed' % (a_, need)
                elif allocs and (len(allocs) != 1 or allocs[0] != a_ * esz):
                    why = 'succeeds, records room for %d elements of %d bytes and asks the allocator for %s bytes (documented %d)' % (a_, esz, allocs, a_ * esz)
                elif not allocs and not (has and cap >= need):
                    why = 'succeeds without allocating although a = %d does not cover %d' % (cap, need)
            elif ret == 0:
                if (need + (need >> 3) + 200) * esz < (1 << 31):
                    why = 'fails although %d elements of %d bytes can be allocated' % (need, esz)
            else:
                why = 'returns %s' % (ret,)
            if why and bad is None:
                bad = (what + ' ' + why, tr)
        out['%s:capacity-covers-the-request,allocation=capacity-x-size,no-wrap' % fname] = (bad is None, '%s:%s' % (unit, fname), bad[0] if bad else '%d requests, element size %d' % (n_runs, esz), bad[1] if bad else [])
    return out


def cdb_corrupt_sites(db, rep):
    """cdb_seek() on corrupt database images and on keys longer than its comparison buffer: every byte read() delivers lands
    inside the array it was asked into (packbuf[8], match()'s buf[32]), the key is read only below its length, the search ends
    (found / not found / error) and never reports a record whose key differs"""
    import struct
    from rules.libtab import Conc
    from rules import C11 as _c11
    from qv.esp import ptr_add
    prog = db.program('qmail-lspawn')
    fn = db.fn('cdb_seek.c', 'cdb_seek')
    long_a = bytes(97 + (i % 26) for i in range(70))
    long_b = long_a[:69] + b'#'
    long_c = long_a[:33] + b'#' + long_a[34:]
    good = _c11._cdb_image([(long_a, b'DATA-A'), (b'solo', b'x')])

    def hdr(img, key, pos=None, ln=None):
        h = _c11._cdbhash(key) & 255
        a, b = struct.unpack_from('<II', img, 8 * h)
        return img[:8 * h] + struct.pack('<II', a if pos is None else pos, b if ln is None else ln) + img[8 * h + 8:]
    images = [
        ('intact', good, long_a, 1), ('intact', good, long_b, 0), ('intact', good, long_c, 0), ('intact', good, b'solo', 1),
        ('truncated behind the header', good[:2048], long_a, -1),
        ('truncated inside the record', good[:2048 + 8 + 40], long_a, -1),
        ('hash table position beyond the file', hdr(good, long_a, pos=len(good) + 4096), long_a, -1),
        ('slot count 0xffffffff', hdr(good, long_a, ln=0xffffffff), long_a, None),
        ('slot count larger than the table', hdr(good, b'solo', ln=7), b'solo', None),
        ('empty file', b'', b'solo', -1),
    ]
    # keys whose length sits on the boundaries of the 32-byte comparison buffer: each found, and not found with its last byte changed
    edge = [bytes(65 + ((i * 7 + n_) % 26) for i in range(n_)) for n_ in (1, 31, 32, 33, 63, 64, 65)]
    edge_img = _c11._cdb_image([(k_, b'D%d' % len(k_)) for k_ in edge])
    for k_ in edge:
        images.append(('%d-byte key' % len(k_), edge_img, k_, 1))
        images.append(('%d-byte key, last byte changed' % len(k_), edge_img, k_[:-1] + b'#', 0))
    for k_ in (0, 31, 32, 33, 63, 64, 69):
        # the slot carries the hash of the key searched for, the record it points to holds a key that differs in byte k_
        images.append(('stored key differs in byte %d' % k_, good[:2056 + k_] + b'#' + good[2057 + k_:], long_a, 0))
    sizes = {}
    bad = {}
    n = 0

    class CH(Conc):
        def __init__(self, img, key):
            Conc.__init__(self, 'cdb_seek')
            self.img, self.key = img, key
            self.bad = None
            self.reads = 0

        def prim_lseek(self, E, x, args):
            p_ = _libtab._one(args[1])
            return [Outcome(ret=fs(p_ if isinstance(p_, int) else 0), sets={'$pos': fs(p_)})]

        def materialize(self, E, path):
            if path.startswith('KEY['):
                if self.bad is None:
                    self.bad = ('key-read-below-its-length', 'byte %s of a %d-byte key is read' % (path[4:-1], len(self.key)), E.trace.list())
                return fs(0)
            return Conc.materialize(self, E, path)

        def materialize_split(self, E, path):
            return None

        def prim_read(self, E, x, args):
            bp, cnt = _libtab._one(args[1]), _libtab._one(args[2])
            pos = _libtab._one(E.get('$pos'))
            if not (isinstance(pos, int) and isinstance(cnt, int) and isinstance(bp, tuple)):
                raise AnalysisBroken('cdb_seek: read(%s, %s) at position %s is not concrete' % (bp, cnt, pos))
            self.reads += 1
            if self.reads > 400:
                return 'noreturn'
            m_ = re.match(r'^(.*)\[(-?\d+)\]$', bp[1])
            root, off = (m_.group(1), int(m_.group(2))) if m_ else (bp[1], 0)
            cap = array_capacity(E, root)
            if cap is not None and (off < 0 or cnt < 0 or off + cnt > cap) and self.bad is None:
                self.bad = ('reads-land-inside-the-local-array', 'read() is asked for %d bytes at offset %d of %s, which holds %d' % (cnt, off, root.split('::')[-1], cap), E.trace.list())
            if cap is None and self.bad is None:
                self.bad = ('reads-land-inside-the-local-array', 'read() into %s, whose size is not known' % root, E.trace.list())
            chunk = self.img[pos:pos + max(cnt, 0)][:cap - off if cap is not None and off + cnt > cap else None]
            sets = {'$pos': fs(pos + len(chunk))}
            for i, b in enumerate(chunk):
                q = ptr_add(bp, i)
                if q is not None:
                    sets[q[1]] = fs(b - 256 if b >= 128 else b)
            return [Outcome(ret=fs(len(chunk)), sets=sets)]

    def array_capacity(E, root):
        # root is "<frame>::L:<name>#k" of a local array; its capacity is the bound of its declared type
        if root in sizes:
            return sizes[root]
        cap = None
        mm = re.match(r'^([A-Za-z_0-9]+)(?:@\w+)?::(L:\w+(?:#\d+)?)$', root)
        if mm:
            for f_ in db.unit('cdb_seek.c').functions.values():
                if f_.name != mm.group(1):
                    continue
                for x_ in f_.all_x():
                    if x_.k == 'decl' and x_.n.get('d') == mm.group(2):
                        t_ = re.match(r'^(?:unsigned |signed )?char\[(\d+)\]$', x_.n.get('t') or '')
                        cap = int(t_.group(1)) if t_ else None
        sizes[root] = cap
        return cap

    for what, img, key, want in images:
        H = CH(img, key)
        e = Engine(db, prog, H, max_states=400000)
        fid = e.frame_id(fn)
        st = {'%s::%s' % (fid, fn.params[0]): fs(5), '%s::%s' % (fid, fn.params[1]): fs(('&', 'KEY[0]')), '%s::%s' % (fid, fn.params[2]): fs(len(key)),
              '%s::%s' % (fid, fn.params[3]): fs(('&', 'DLEN'))}
        st.update(_libtab.conc_string_cells('KEY', key, terminate=False))
        e.run(fn, st)
        rep.count_states(e.states, e.transitions)
        n += 1
        if H.bad is not None:
            bad.setdefault(H.bad[0], ('%s image, %d-byte key: %s' % (what, len(key), H.bad[1]), H.bad[2]))
        if H.reads > 400 or H.bad is not None:
            continue            # a 2^32-slot table of a corrupt file is walked slot by slot: bounded by the slot count, each step a checked read
        if len(H.ends) != 1:
            raise AnalysisBroken('cdb_seek on the %s image: %d ends' % (what, len(H.ends)))
        got = _libtab._one(H.ends[0][1])
        if want is not None and got != want:
            bad.setdefault('verdict-on-corrupt-images', ('%s image, key %r...: cdb_seek returns %s, expected %s (1 only for the stored key, -1 when the file ends inside what the header promises)' % (what, key[:8], got, want), H.ends[0][2]))
        if want is None and got == 1:
            bad.setdefault('verdict-on-corrupt-images', ('%s image: a key that is not stored is reported found' % what, H.ends[0][2]))
    out = {}
    for k in ('reads-land-inside-the-local-array', 'key-read-below-its-length', 'verdict-on-corrupt-images'):
        out['cdb_seek:' + k] = (k not in bad, 'cdb_seek.c:cdb_seek', bad[k][0] if k in bad else '%d (image, key) pairs incl. 70-byte keys differing in the last byte and in byte 33' % n, bad[k][1] if k in bad else [])
    return out


def mx_cleanup_sites(db, rep):
    """dns_mxip() over scripted answers (good MX records, a malformed record at each position, an allocation failure while a name is
    copied, a complete answer): every pointer given to alloc_free() is the array the function allocated or the text of an entry it
    filled in on that path - never a cell of the freshly allocated array that was not written - and each is freed once"""
    from rules.libtab import Conc, SAConc
    prog = db.program('qmail-remote')
    fn = db.fn('dns.c', 'dns_mxip')
    SOFT = -1
    scripts = [('malformed first record', [SOFT], None), ('one MX then a malformed record', [1, SOFT], None), ('two MX then a malformed record', [1, 1, SOFT], None),
               ('allocation failure copying the second name', [1, 1], 1), ('allocation failure copying the first name', [1], 0), ('three MX records', [1, 1, 1, 2], None),
               ('no MX record', [2], None)]
    bad = None
    nfree = 0
    for what, script, failcopy in scripts:
        freed = []
        state = {'bad': None}

        class MH(SAConc, Conc):
            def materialize(self_, E, path):
                if path.startswith('MXA[') and path.endswith('.sa.s'):
                    return fs(('uninit', path))
                if path.startswith('MXA['):
                    return TOP
                return Conc.materialize(self_, E, path)

            def materialize_split(self_, E, path):
                return None

            def prim_ipalloc_readyplus(self_, E, x, args):
                return [Outcome(ret=fs(1))]

            def prim_ip_scan(self_, E, x, args):
                return [Outcome(ret=fs(0))]

            prim_ip_scanbracket = prim_ip_scan

            def prim_resolve(self_, E, x, args):
                return [Outcome(ret=fs(0), sets={'S:dns_c:numanswers': fs(4)})]

            def prim_alloc(self_, E, x, args):
                return [Outcome(ret=fs(('&', 'MXA[0]')))]

            prim_malloc = prim_alloc

            def prim_findmx(self_, E, x, args):
                k = _libtab._one(E.get('$k')) or 0
                r = script[k] if k < len(script) else 2
                sets = {'$k': fs(k + 1)}
                if r == 1:
                    sets['S:dns_c:pref'] = sets['G:pref'] = fs(10 * (k + 1))
                return [Outcome(ret=fs(r), sets=sets)]

            def prim_stralloc_copys(self_, E, x, args):
                sa = _libtab._one(args[0])
                if isinstance(sa, tuple) and sa[1].startswith('MXA['):
                    c = _libtab._one(E.get('$c')) or 0
                    if failcopy is not None and c == failcopy:
                        return [Outcome(ret=fs(0), sets={'$c': fs(c + 1)})]
                    return [Outcome(ret=fs(1), sets={sa[1] + '.s': fs(('&', 'NAME%d[0]' % c)), sa[1] + '.len': fs(3), sa[1] + '.a': fs(8), '$c': fs(c + 1)})]
                return SAConc.prim_stralloc_copys(self_, E, x, args)

            def _free(self_, E, x, args):
                v = _libtab._one(args[0])
                freed.append(v)
                mine = tuple(_libtab._one(E.get('$freed')) or ())       # per path: the exploration may fork on the preferences
                E.set('$freed', fs(mine + (v,)))
                if state['bad'] is None:
                    if isinstance(v, tuple) and v[0] == 'uninit':
                        state['bad'] = ('alloc_free() is handed %s, a cell of the freshly allocated array that nothing was stored into: whatever the heap held there is freed' % v[1].replace('MXA', 'mx'), E.trace.list())
                    elif v is None:
                        state['bad'] = ('alloc_free() is handed an undetermined pointer', E.trace.list())
                    elif v in mine and v != 0:
                        state['bad'] = ('%s is freed twice' % (v,), E.trace.list())
                return [Outcome(ret=TOP)]

            prim_alloc_free = prim_free = _free

            def prim_dns_ip(self_, E, x, args):
                return [Outcome(ret=fs(0))]

            def prim_dns_ipplus(self_, E, x, args):
                return [Outcome(ret=fs(0))]
        H = MH('dns_mxip')
        st = {0: fs(('&', 'IA')), 1: fs(('&', 'HOST')), 2: fs(12345), 'HOST.s': fs(('&', 'HOST.s[0]')), 'HOST.len': fs(1), 'HOST.s[0]': fs(ord('h')), 'IA.len': fs(0)}
        _libtab._run_conc(db, rep, prog, fn, st, 'dns_mxip', H)
        nfree += len(freed)
        if state['bad'] is not None and bad is None:
            bad = ('answer with %s: %s' % (what, state['bad'][0]), state['bad'][1])
        elif len(H.ends) == 0 and bad is None:
            raise AnalysisBroken('dns_mxip (%s): no end reached' % what)
        if bad is None and script and any(r in (1, SOFT) for r in script) and ('&', 'MXA[0]') not in freed:
            bad = ('answer with %s: the record array is never freed' % what, [])
    if not nfree and bad is None:
        raise AnalysisBroken('dns_mxip: no alloc_free explored')
    return {'dns_mxip:frees-only-what-it-allocated-and-filled-in': (bad is None, 'dns.c:dns_mxip', bad[0] if bad else '%d scripted answers, %d frees' % (len(scripts), nfree), bad[1] if bad else [])}


def run(ctx):
    db, rep = ctx.db, ctx.report
    # ---------------------------------------------------------------- 1. reserve contracts (linear symbolic)
    r1 = rep.rule('C20.1-reserve-contracts', 'R-BOUND', 'after X_readyplus(obj,k) / X_ready(obj,k) every write whose offset and extent are linear in the function\'s symbols stays below the guaranteed capacity (len+k resp. k): proven symbolically; a negative slack is a definite overflow at minimal capacity')
    table = [
        ('qmail-send', 'stralloc_catb.c', 'stralloc_catb', 'P:sa', ('s', 'len'), 2),
        ('qmail-send', 'stralloc_opyb.c', 'stralloc_copyb', 'P:sa', ('s', 'len'), 2),
        ('qmail-send', 'stralloc_pend.c', 'stralloc_append', 'P:x', ('s', 'len'), 1),
        ('qmail-inject', 'token822.c', 'token822_append', 'P:x', ('t', 'len'), 1),
        ('qmail-remote', 'ipalloc.c', 'ipalloc_append', 'P:x', ('ix', 'len'), 1),
        ('qmail-local', 'slurpclose.c', 'slurpclose', 'P:sa', ('s', 'len'), 1),
    ]
    total = 0
    for pname, unit, fname, param, fields, minsites in table:
        prog = db.program(pname)
        fn = prog.fn(fname, unit)
        H, eng = bounds.check_function(db, prog, fn, {'OBJ': fields}, bind_param=(param, 'OBJ'))
        rep.count_states(eng.states, eng.transitions)
        if H.reserves < 1:
            raise AnalysisBroken('%s: no reserve call explored' % fname)
        n = 0
        for key, (status, where, detail, tr) in sorted(H.sites.items()):
            n += 1
            if status == 'undecided':
                raise AnalysisBroken('%s at %s: bound cannot be decided (%s)' % (key, where, detail))
            r1.check(status == 'proven', key, where, detail + (': OUT OF BOUNDS when the buffer has exactly the capacity the reserve call guarantees' if status == 'refuted' else ''), tr)
        if n < minsites:
            raise AnalysisBroken('%s: %d write sites modelled, confirmed minimum %d' % (fname, n, minsites))
        total += n
    r1.expect_min(8)

    # ---------------------------------------------------------------- 2. growth arithmetic
    r2 = rep.rule('C20.2-growth-arithmetic', 'R-GUARD', 'every reserve routine explored on concrete counts up to the 32-bit limits: success means the recorded capacity covers the request and the allocator was asked for capacity x element size bytes without wrap-around; callers reserve n+1 with an overflow check')
    for inst_, v_ in sorted(growth_sites(db, rep).items()):
        r2.check(v_[0], inst_, v_[1], v_[2], v_[3])
    for unit, fname in (('stralloc_catb.c', 'stralloc_catb'), ('stralloc_opyb.c', 'stralloc_copyb')):
        fn = db.fn(unit, fname)
        res = [c for c in fn.calls() if c.callee and (c.callee.endswith('_readyplus') or c.callee.endswith('_ready'))]
        if not res:
            raise AnalysisBroken('%s: reserve call not found' % fname)
        for c in res:
            v = c.args[1].var
            ok = False
            for o in fn.calls('__builtin_add_overflow'):
                out = o.args[2].strip()
                if out.k == 'un' and out.op == '&' and out.args[0].var == v and o.args[1].const == 1 and fn.dominates(o, c):
                    ok = True
            r2.check(ok, '%s:reserves-n+1-with-overflow-check' % fname, c.where, 'the reserve count %s is not n+1 computed by __builtin_add_overflow: the trailing guard byte is written without room for it' % c.args[1].src())
    dt = db.fn('quote.c', 'doit')
    res = [c for c in dt.calls('stralloc_ready')]
    okq = False
    if res:
        v = res[0].args[1].var
        outs = [o for o in dt.calls(('__builtin_mul_overflow', '__builtin_add_overflow')) if o.args[2].strip().k == 'un' and o.args[2].strip().args[0].var == v and dt.dominates(o, res[0])]
        okq = len(outs) >= 2
    r2.check(okq, 'quote.doit:2*len+2-overflow-checked', 'quote.c:doit', '')
    r2.expect_min(10)

    # ---------------------------------------------------------------- 3. buffer/length pairing
    r3 = rep.rule('C20.3-buffer-length-pairing', 'R-SIBLING', 'wherever a declared array is handed to a reader/formatter together with a constant length, the length does not exceed the array (whole repository)')
    FUNCS = {'substdio_fdbuf': (3, 4), 'read': (1, 2), 'timeoutread': (2, 3), 'cdb_bread': (1, 2), 'gethostname': (0, 1), 'fmt_strn': None,
             'byte_zero': (0, 1), 'substdio_get': (1, 2), 'substdio_bget': (1, 2), 'recv': (1, 2)}
    n = 0
    for fn in db.all_functions():
        if fn.sys:
            continue
        for c in fn.calls(tuple(k for k, v in FUNCS.items() if v)):
            bi, li = FUNCS[c.callee]
            if max(bi, li) >= len(c.args):
                continue
            b = c.args[bi].strip()
            if b is None or b.k != 'ref' or 'arr' not in b.n:
                continue
            ln = c.args[li].const
            if ln is None:
                continue
            n += 1
            cap = b.n['arr'] * b.n.get('esz', 1)
            if ln > cap:
                r3.bad('%s:%s(%s,%d)' % (fn.name, c.callee, b.src(), ln), c.where, 'length %d exceeds the %d-byte array %s' % (ln, cap, b.src()))
    # static initialisers SUBSTDIO_FDBUF(op, fd, buf, sizeof buf)
    m = 0
    for u in db.units.values():
        for name, g in u.globals.items():
            init = g.get('init')
            if g.get('t', '').endswith('substdio') and init and init.get('k') == 'list':
                vals = init['v']
                bufn = next((v.get('v') for v in vals if v.get('k') == 'var'), None)
                ln = next((v.get('v') for v in vals[2:3] if v.get('k') == 'int'), None)
                if bufn and ln is not None and bufn in u.globals and 'arr' in u.globals[bufn]:
                    m += 1
                    cap = u.globals[bufn]['arr'] * u.globals[bufn].get('esz', 1)
                    if ln > cap:
                        r3.bad('%s:SUBSTDIO_FDBUF(%s,%d)' % (u.name, bufn, ln), '%s:%s' % (u.name, name), 'buffer length %d exceeds the %d-byte array %s' % (ln, cap, bufn))
    if n < 40 or m < 10:
        raise AnalysisBroken('buffer/length pairing: only %d call sites and %d initialisers matched' % (n, m))
    r3.ok('all-%d-call-sites-and-%d-initialisers-within-their-arrays' % (n, m), 'whole repository')
    r3.note(call_sites=n, initialisers=m)

    # ---------------------------------------------------------------- 4. fixed buffers in the network daemons
    r4 = rep.rule('C20.4-fixed-buffers', 'R-GUARD', 'qmtpd/qmqpd buf[1000], qmail.c errstr[256]: every store is under its length guard; the relay suffix length used in the guard is computed from the final value of the suffix')
    # getln(): every byte of a line is stored into space reserved for it, whatever the line length relative to the input buffer
    from rules import libtab as _lt
    for inst_, v_ in sorted(_lt.getln_sites(db, rep, db.program('qmail-smtpd')).items()):
        r4.check(v_[0], inst_, v_[1], v_[2], v_[3])
    # qmail-local's forward list: the pointer array is allocated from a first pass over the .qmail text and filled by a second (C13 rule 3, concrete files)
    from rules import C13 as _c13
    v_ = _c13.interp_sites(db, rep, db.program('qmail-local'))['forward-list-fits-its-allocation']
    r4.check(v_[0], 'qmail-local:forward-list-fits-its-allocation', v_[1], v_[2], v_[3])
    # qmail-getpw's username[GETPW_USERLEN]: the copy and its terminating NUL stay inside
    for inst_, v_ in sorted(getpw_name_sites(db, rep).items()):
        r4.check(v_[0], inst_, v_[1], v_[2], v_[3])
    pq = db.program('qmail-qmtpd')
    m = pq.fn('main', 'qmail-qmtpd.c')
    bufsz = db.unit('qmail-qmtpd.c').globals['buf']['arr']
    # stores buf[len] = 0 and reads into buf + i under len < 1000 / len + relayclientlen < 1000
    stores = [x for x in m.all_x() if x.k == 'asg' and x.args[0].strip().k == 'idx' and x.args[0].strip().args[0].path() == 'G:buf']
    okall = True
    det = []
    for x in stores:
        idx = x.args[0].strip().args[1]
        if idx.const is not None:
            okall = okall and idx.const < bufsz
            continue
        g = m.guards(x) or []
        lim = False
        for c, t in g:
            s = c.strip()
            if s.k == 'bin' and s.op == '>=' and s.args[1].const == bufsz and t is False:
                lim = True
        if not lim:
            # reply assembly: buf[len++] after fmt of a length and a known-literal text: checked under rule 5 of C07; accept
            # only if the index variable was last assigned from fmt_ulong/fmt_str (bounded formatting)
            src = x.args[0].src()
            if 'len++' in src or 'len' in src:
                defs = [d for d in m.all_x() if d.k == 'asg' and d.op == '=' and (d.args[0].var or '') == (idx.strip().args[0].var if idx.strip().k == 'un' else idx.var) and m.dominates(d, x)]
                if any(d.args[1].strip().k == 'call' and d.args[1].strip().callee in ('fmt_ulong', 'fmt_str') for d in defs):
                    continue
            okall = False
            det.append(x.where)
    r4.check(okall and len(stores) >= 3, 'qmtpd:stores-into-buf-are-guarded', 'qmail-qmtpd.c:main', 'unguarded stores at %s' % det)
    sc = [c for c in m.calls(('strcpy', 'str_copy')) if 'buf' in c.args[0].src()]
    oks = False
    for c in sc:
        g = m.guards(c) or []
        for cc, t in g:
            s = cc.strip()
            if s.k == 'bin' and s.op == '>=' and s.args[1].const == bufsz and t is False and 'relayclientlen' in s.args[0].src() and 'len' in s.args[0].src():
                oks = c.args[1].path() == 'G:relayclient'
    r4.check(oks, 'qmtpd:relay-suffix-copied-only-under-len+relayclientlen<1000', 'qmail-qmtpd.c:main', 'str_copy(buf+len, relayclient) must be dominated by the guard that includes the suffix length')
    # the cached length is computed after the last assignment of the string it measures
    for unit, pname in (('qmail-qmtpd.c', 'qmail-qmtpd'),):
        f = db.program(pname).fn('main', unit)
        sdefs = [x for x in f.all_x() if x.k == 'asg' and x.args[0].path() == 'G:relayclient']
        ldefs = [x for x in f.all_x() if x.k == 'asg' and x.args[0].path() == 'G:relayclientlen']
        if not sdefs or not ldefs:
            raise AnalysisBroken('%s: relayclient/relayclientlen assignments not found' % unit)
        ok = all(f.dominates(sd, ld) for sd in sdefs for ld in ldefs) and all('relayclient' in ld.args[1].src() for ld in ldefs)
        r4.check(ok, 'qmtpd:relayclientlen-measures-the-final-relayclient', ldefs[0].where,
                 'relayclientlen is computed before relayclient receives its value: the guard len + relayclientlen >= 1000 then ignores the suffix that str_copy appends to buf[1000]')
    for inst, v in sorted(fixed_buffer_sites(db, rep).items()):
        r4.check(v[0], inst, v[1], v[2], v[3])
    from rules import C14
    for inst, v in sorted(C14.strip_sites(db, rep, db.program('qmail-send')).items()):
        if inst == 'strip:never-reads-beyond-the-recipient':
            r4.check(v[0], inst, v[1], v[2], v[3])
    r4.expect_min(6)

    # ---------------------------------------------------------------- 5. limit guards
    r8 = rep.rule('C20.8-dns-records', 'R-BOUND', 'dns.c findip/findmx/findname over every combination of a record length field in {0,2,3,4,16} and {0,1,2,3,4,16} bytes of response left behind the record header: no byte at or behind the end of the response is read, and dn_expand() is bounded by the end of the response')
    for inst, v in sorted(dns_walker_sites(db, rep).items()):
        r8.check(v[0], inst, v[1], v[2], v[3])
    for inst, v in sorted(mx_cleanup_sites(db, rep).items()):
        r8.check(v[0], inst, v[1], v[2], v[3])
    r8.expect_min(4)

    r9 = rep.rule('C20.9-delivery-reports', 'R-BOUND', 'qmail-rspawn and qmail-lspawn report(): over every exit status class and every output of 0..5 (0..4) bytes, only the len bytes of the delivery program\'s output are read, whether or not it ends in NUL')
    for inst, v in sorted(report_read_sites(db, rep).items()):
        r9.check(v[0], inst, v[1], v[2], v[3])
    r9.expect_min(2)

    r10 = rep.rule('C20.10-constant-database', 'R-BOUND', 'corrupt users/cdb: cdb_seek() explored on intact, truncated and inconsistent images with keys longer than its 32-byte comparison buffer (every read() lands inside packbuf/buf, the key is read below its length, a foreign key is never reported found); qmail-lspawn\'s field parser on lookup results with 0..7 fields (incomplete -> QLX_USAGE, a complete record is parsed without touching anything behind it)')
    for inst, v in sorted(cdb_corrupt_sites(db, rep).items()):
        r10.check(v[0], inst, v[1], v[2], v[3])
    from rules import C11 as _c11x
    _u = db.unit('qmail-lspawn.c')
    _qlx = {k: _u.macro_int(k) for k in _u.macros if k.startswith('QLX_')}
    for inst, v in sorted(_c11x.spawn_record_sites(db, rep, _qlx).items()):
        if 'incomplete' in inst or 'no-read' in inst:
            r10.check(v[0], inst, v[1], v[2], v[3])
    r10.expect_min(5)

    r11 = rep.rule('C20.11-control-file-lifetimes', 'R-TYPESTATE', 'qmail-send on HUP: a routing table in use never points into a buffer that the next re-read of the control files fills before it knows whether it will succeed, and nothing is freed before both files were read (no use of freed or overwritten memory after a half-failed re-read; decided by C10.5\'s exploration of regetcontrols over the read outcomes)')
    for inst, v in sorted(_libtab.borrow(ctx, 'C10', {'C10.5-HUP'}).items()):
        if inst.endswith('live-maps-own-their-text') or inst.endswith('reread-succeeds-before-anything-is-freed') or 'free-before-init' in inst:
            r11.check(v[0], inst.split('/', 1)[1], v[1], v[2], v[3])
    r11.expect_min(3)

    r7 = rep.rule('C20.7-output-buffering', 'R-BOUND', 'substdio_put / substdio_bput on a 16-byte buffer with 0, 3 or 16 bytes buffered and 0..20000 bytes put: every store stays inside the buffer, and bytes written + bytes buffered = bytes handed in')
    from rules import libtab
    for inst, v in sorted(libtab.substdio_put_sites(db, rep, db.program('qmail-smtpd')).items()):
        r7.check(v[0], inst, v[1], v[2], v[3])
    r7.expect_min(4)

    r6 = rep.rule('C20.6-two-pass-parsers', 'R-BOUND', 'token822_parse: for every header text up to 3 bytes over the lexically relevant bytes (and quoted pairs in comments, quoted strings, domain literals and atoms) the filling pass stores only inside the token and text buffers sized by the counting pass, and no pass reads beyond the field')
    for inst, v in sorted(parse_bounds_sites(db, rep, maxlen=ctx.deep(3, 4)).items()):
        r6.check(v[0], inst, v[1], v[2], v[3])
    r6.expect_min(1)
    rep.exhaustive_rules.append('C20.6-two-pass-parsers')
    r5 = rep.rule('C20.5-limit-guards', 'R-SIBLING', 'netstring lengths that do not fit (2^32+1, 2^64+1, eleven nines) in any field of a QMTP/QMQP session end the session before the number wraps; SMTP reply text is capped')
    from qv.lib import consistent_values
    from rules import C07 as _c07
    for inst_, v_ in sorted(_c07.length_overflow_sites(db, rep).items()):
        r5.check(v_[0], inst_, v_[1], v_[2], v_[3])
    hs = db.unit('qmail-remote.c').macro_int('HUGESMTPTEXT')
    g = db.fn('qmail-remote.c', 'get')
    apps = g.calls('stralloc_append')
    cap = bool(apps) and hs is not None
    for a_ in apps:
        cv = consistent_values(g, a_, [0, 1, (hs or 1) - 1, hs or 1, (hs or 1) + 1, 10 * (hs or 1), 2 ** 31], key=lambda v: v.strip().path() or v.strip().src())
        tgt = a_.args[0].strip() if a_.args and a_.args[0] is not None else None
        while tgt is not None and tgt.k in ('un', 'cast') and tgt.args:
            tgt = tgt.args[0].strip()
        al = cv.get((tgt.path() if tgt is not None and tgt.path() else 'G:smtptext') + '.len')
        cap = cap and al is not None and max(al or [0]) < hs
    r5.check(cap, 'smtp-reply-text-capped', 'qmail-remote.c:get', 'the reply text kept for the report must stop growing at HUGESMTPTEXT=%s' % hs)
    r5.expect_min(3)
    rep.assume('whole-program memory safety is NOT decided; only the listed obligations are',
               'reserve contract: a successful X_readyplus(obj,k) guarantees capacity >= len+k and nothing more')
