"""C03 — no accepted recipient is ever dropped (transition discipline of qmail-send).

Decides the only places where a recipient can become DONE, where a recipient list or a message
can disappear and where a schedule entry can be dropped, on every path of the daemon's code.
The property over histories and crash points follows from these plus C02's ordering premises
by the argument of INTERNALS.md; that step is not machine-checked.
"""
from qv.core import AnalysisBroken
from qv.esp import Engine, Outcome, TOP, fs
from rules import qsend
from rules.qsend import attach


def run(ctx):
    db, rep = ctx.db, ctx.report
    prog = db.program('qmail-send')
    r1 = rep.rule('C03.1-DONE-only-on-K-or-D', 'R-TABLE', 'del_dochan: report letter x flagdying -> {mark, bounce+mark, nothing}; bounce text appended before the D mark; numtodo decremented iff marked; markdone is the only writer of channel files')
    for inst_, v_ in sorted(qsend.reread_sites(db, rep).items()):
        r1.check(v_[0], inst_, v_[1], v_[2], v_[3])
    for inst_, v_ in sorted(qsend.id_width_sites(db).items()):
        r1.check(v_[0], inst_, v_[1], v_[2], v_[3])
    dd = qsend.analyse_del_dochan(db, rep)
    attach(r1, dd, prefixes=['del:'])
    eff = qsend.effect_sites(db)
    attach(r1, eff, only={'effect:markdone:open_write:chan', 'effect:markdone-writes-one-byte-D-at-pos'})
    # who can reach markdone
    from qv.lib import only_reached_through
    okm, direct = only_reached_through(prog, 'qmail-send.c', 'markdone', {'del_dochan'})
    r1.check(okm, 'markdone-reached-only-through-del_dochan', 'qmail-send.c', 'markdone() is called from %s, not all of which are reached only through del_dochan' % direct)
    # read()==0 / -1: no state change — instance del:EOF-or-error-on-the-report-pipe-changes-nothing of the del_dochan exploration
    r1.expect_min(10)
    rep.exhaustive_rules.append('C03.1-DONE-only-on-K-or-D')

    r3 = rep.rule('C03.3-counting-and-pass', 'R-TYPESTATE', 'pass_dochan: every T record is counted in numtodo before its delivery starts; flaghiteof only at end of file; a pass always ends in job_close')
    # the records of a channel file are read with getln(): a record longer than the input buffer arrives whole (its first byte decides T or D)
    from rules import libtab as _lt
    for inst_, v_ in sorted(_lt.getln_sites(db, rep, db.program('qmail-send')).items()):
        r3.check(v_[0], inst_, v_[1], v_[2], v_[3])
    ps = qsend.analyse_pass_dochan(db, rep)
    attach(r3, ps, only={'pass:numtodo-counted-before-del_start', 'pass:T-record-starts-one-delivery-attempt', 'pass:flaghiteof-only-at-end-of-file',
                         'pass:pass-ends-with-job_close', 'pass:record-read-only-when-a-delivery-slot-is-free', 'pass:opens-the-channel-file-of-its-channel', 'pass:a-new-pass-marks-from-offset-0'})
    jc = qsend.analyse_job_close(db, rep)
    attach(r3, jc, only={'jc:channel-file-removed-only-when-read-to-EOF-and-nothing-outstanding'})
    r3.expect_min(7)

    r4 = rep.rule('C03.4-schedule-conservation', 'R-TYPESTATE', 'an entry taken off a queue is handed to a job or re-inserted; a finished job ends in pqdone, pqchan or "more channels going"; every messdone failure re-queues; preprocessing schedules what qmail-clean confirmed')
    attach(r4, ps, only={'pass:removed-entry-is-handed-to-a-job-or-reinserted', 'pass:delmin-on-the-queue-just-inspected'})
    attach(r4, jc, only={'jc:job-ends-in-exactly-one-of-pqdone/pqchan/more-channels', 'jc:pqdone-only-after-own-channel-file-removed'})
    md = qsend.analyse_messdone(db, rep)
    attach(r4, md, only={'md:every-failure-requeues-on-pqdone'})
    td = qsend.analyse_todo_do(db, rep)
    attach(r4, td, only={'todo:confirmed-message-is-scheduled', 'todo:schedule-only-after-qmail-clean-confirmed'})
    # pass_do: pqfail -> pqadd, pqdone -> messdone
    qsend.require_globals(db, 'pqfail', 'pqdone', 'pqchan')
    pd = prog.fn('pass_do', 'qmail-send.c')

    class PD(qsend.SendHooks):
        """pass_do() with one entry in pqfail (message 71) and one in pqdone (message 72), due or not"""
        def __init__(self, due):
            super().__init__()
            self.due = due
            self.ends = []

        def tracked_global(self, path):
            return True

        def precise_arith(self, path):
            return True

        def _q(self, args):
            v = args[0]
            v = next(iter(v)) if v is not TOP and len(v) == 1 else None
            return v[1] if isinstance(v, tuple) and v[0] == '&' else None

        def prim_pass_dochan(self, E, x, args):
            return [Outcome(ret=TOP)]

        def prim_prioq_min(self, E, x, args):
            q = self._q(args)
            pe = next(iter(args[1])) if args[1] is not TOP and len(args[1]) == 1 else None
            ids = {'G:pqfail': 71, 'G:pqdone': 72}
            if q not in ids or qsend.g1(E, '$gone:' + q, 0) or not isinstance(pe, tuple):
                return [Outcome(ret=fs(0))]
            return [Outcome(ret=fs(1), sets={pe[1] + '.id': fs(ids[q]), pe[1] + '.dt': fs(7000 if self.due else 7001)})]

        def prim_prioq_delmin(self, E, x, args):
            q = self._q(args)
            E.set('$ev', fs(tuple(qsend.g1(E, '$ev', ())) + (('delmin', q),)))
            return [Outcome(ret=TOP, sets={'$gone:' + str(q): fs(1)})]

        def _act(self, E, x, args):
            v = next(iter(args[0])) if args[0] is not TOP and len(args[0]) == 1 else None
            E.set('$ev', fs(tuple(qsend.g1(E, '$ev', ())) + ((x.callee, v),)))
            return [Outcome(ret=TOP)]

        prim_pqadd = prim_messdone = _act

        def on_return(self, E, fn, val):
            if fn.name == 'pass_do':
                self.ends.append((tuple(qsend.g1(E, '$ev', ())), E.trace.list()))
    badpd = None
    for due in (True, False):
        hp = PD(due)
        ep = Engine(db, prog, hp, max_states=60000)
        ep.run(pd, {'G:recent': fs(7000)})
        rep.count_states(ep.states, ep.transitions)
        if len(hp.ends) != 1:
            raise AnalysisBroken('pass_do: %d ends' % len(hp.ends))
        ev, tr = hp.ends[0]
        want = (('delmin', 'G:pqfail'), ('pqadd', 71), ('delmin', 'G:pqdone'), ('messdone', 72)) if due else ()
        if ev != want and badpd is None:
            badpd = ('entries %s: pass_do() does %s; documented %s (a due entry of pqfail goes back through pqadd, a due entry of pqdone to messdone, nothing is taken before its time)' %
                     ('due now' if due else 'due in one second', list(ev), list(want)), tr)
    r4.check(badpd is None, 'pass_do:pqfail->pqadd,pqdone->messdone', pd.unit + ':pass_do', badpd[0] if badpd else 'due and not-due entries', badpd[1] if badpd else None)
    r4.expect_min(8)

    r5 = rep.rule('C03.5-restart', 'R-TABLE', 'pqstart re-adds every message with an info file; pqadd never drops a message on a stat error (-> pqfail); startup scan precedes the loop')
    attach(r5, qsend.analyse_pqadd(db, rep), prefixes=['pqadd:'])
    attach(r5, qsend.job_slot_sites(db, rep))
    pst = prog.fn('pqstart', 'qmail-send.c')
    pa = pst.calls('pqadd')
    rn = pst.calls('readsubdir_next')
    ri = pst.calls('readsubdir_init')
    ok = bool(pa and rn and ri) and ri[0].args[1].string == 'info'
    if ok:
        g = pst.guards(pa[0]) or []
        ok = any(c.strip().k == 'bin' and c.strip().op == '>' and c.strip().args[1].const == 0 and t is True for c, t in g)
    r5.check(ok, 'pqstart:pqadd-for-every-id-under-info', pst.unit + ':pqstart', 'pqstart must call pqadd(id) for every positive readsubdir_next over "info"')
    attach(r5, qsend.analyse_main(db, rep), only={'main:queue-scanned-at-startup-before-the-loop'})
    attach(r5, qsend.analyse_pqadd(db, rep), prefixes=['pqadd:'])
    r5.expect_min(6)

    r6 = rep.rule('C03.6-durable-hand-over', 'R-TYPESTATE', 'info/local/remote are complete and fsynced before todo/<n> is given up; one output record per input record')
    attach(r6, td, only={'todo:info-SYNCED-before-todo-removal', 'todo:channel-files-SYNCED-before-todo-removal', 'todo:request-only-after-the-whole-envelope-was-read',
                         'todo:exactly-one-channel-record-per-T', 'todo:no-channel-record-for-non-T', 'todo:channel-record-is-rwline', 'todo:record-goes-to-the-channel-rewrite-chose'})
    from rules import C01, C07
    qs = C01.queue_sites(db, rep)
    for key in (('C01.1-durability', 'intd-SYNCED-at-commit'), ('C01.1-durability', 'mess-SYNCED-at-commit'), ('C01.7-envelope-gate', 'grammar-complete-at-commit')):
        if key not in qs:
            raise AnalysisBroken('qmail-queue: %s not decided' % (key,))
        v = qs[key]
        r6.check(v[0], 'queue:' + key[1], v[1], v[2], v[3])
    r6.expect_min(9)

    r7 = rep.rule('C03.7-bounce-hand-over', 'R-ORDER', 'the bounce record is removed only after the notice was queued; failures reading it latch qmail_fail; the message is removed only after injectbounce succeeded')
    # the status macros every verdict on a child process goes through (wait.h): as functions of the status word
    from rules import libtab as _lt
    for inst_, v_ in sorted(_lt.waitmacro_sites(db, 'qmail.c').items()):
        r7.check(v_[0], inst_, v_[1], v_[2], v_[3])
    ib = qsend.analyse_injectbounce(db, rep)
    attach(r7, ib, only={'ib:bounce-file-removed-only-after-notice-queued-or-triple-bounce', 'ib:returns-1-only-when-bounce-file-is-gone', 'ib:read-failure-latches-qmail_fail'})
    attach(r7, md, only={'md:info-removed-only-after-channels+todo-gone-and-bounce-handled', 'md:bounce-injected-only-when-no-channel-file-and-no-todo'})
    ls_, _ = C07.latch_sites(db, rep, db.program('qmail-send'))
    for inst, v in sorted(ls_.items()):
        if inst.startswith('qmail_from:') or inst.startswith('qmail_close:') or inst.startswith('qmail_fail:'):
            r7.check(v[0], 'latch:' + inst, v[1], v[2], v[3])
    r7.expect_min(8)
    rep.assume('the spawners report honestly (C09, C11, C18 decide their side)', 'C02 ordering premises', 'histories, crash and fault sequences as executions are not explored')
