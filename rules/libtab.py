"""Library routines the properties lean on, decided as small tables by exploration (shared by several checks)."""
from qv.core import AnalysisBroken
from qv.esp import Engine, Outcome, TOP, fs
from qv.lib import QHooks


def one(v):
    return next(iter(v)) if v is not None and v is not TOP and len(v) == 1 else None


class Conc(QHooks):
    """everything tracked, every counter exact"""
    inline_depth = 12       # a helper more on the way down must not turn a library routine into an unknown call

    def __init__(self, entry):
        self.entry = entry
        self.ends = []

    def tracked_global(self, path):
        return True

    def precise_arith(self, path):
        return True

    def inline(self, fn, depth):
        return bool(fn.blocks) and not fn.sys and depth < 12     # library code below the entry is part of it

    def prim___errno_location(self, E, x, args):
        return [Outcome(ret=fs(('&', '$errno')))]

    def on_return(self, E, fn, val):
        if fn.name == self.entry:
            self.ends.append((dict(E.store), val, E.trace.list()))


def case_lowerb_sites(db, rep, prog):
    fn = db.fn('case_lowerb.c', 'case_lowerb')
    bad = []
    for b in range(256):
        H = Conc('case_lowerb')
        e = Engine(db, prog, H)
        fid = e.frame_id(fn)
        sv = b - 256 if b >= 128 else b
        e.run(fn, {'%s::%s' % (fid, fn.params[0]): fs(('&', 'S[0]')), '%s::%s' % (fid, fn.params[1]): fs(2), 'S[0]': fs(sv), 'S[1]': fs(ord('Q')), 'S[2]': fs(ord('Q'))})
        rep.count_states(e.states, e.transitions)
        if len(H.ends) != 1:
            raise AnalysisBroken('case_lowerb: %d ends for byte %d' % (len(H.ends), b))
        st = H.ends[0][0]
        got = one(st.get('S[0]'))
        want = b + 32 if 65 <= b <= 90 else b
        if got is None or (got & 255) != want or (one(st.get('S[1]')) or 0) & 255 != ord('q') or one(st.get('S[2]')) != ord('Q'):
            bad.append((b, got, one(st.get('S[1]')), one(st.get('S[2]'))))
    return {'case_lowerb:A-Z->a-z,everything-else-unchanged,exactly-len-bytes': (not bad, 'case_lowerb.c:case_lowerb',
            'deviations (byte, result, next byte, byte after the range): %s' % bad[:4] if bad else 'all 256 byte values', [])}


def byte_copyr_sites(db, rep, prog):
    fn = db.fn('byte_cr.c', 'byte_copyr')
    bad = None
    n_runs = 0
    for d in (1, 2, 3, 4, 5, 9):
        for n in range(0, 11):
            H = Conc('byte_copyr')
            e = Engine(db, prog, H)
            fid = e.frame_id(fn)
            st = {'%s::%s' % (fid, fn.params[0]): fs(('&', 'B[%d]' % d)), '%s::%s' % (fid, fn.params[1]): fs(n), '%s::%s' % (fid, fn.params[2]): fs(('&', 'B[0]'))}
            for k in range(24):
                st['B[%d]' % k] = fs(100 + k)
            e.run(fn, st)
            rep.count_states(e.states, e.transitions)
            n_runs += 1
            if len(H.ends) != 1:
                raise AnalysisBroken('byte_copyr: %d ends' % len(H.ends))
            end = H.ends[0][0]
            want = [100 + k for k in range(24)]
            for k in range(n):
                want[d + k] = 100 + k
            got = [one(end.get('B[%d]' % k)) for k in range(24)]
            if got != want and bad is None:
                bad = 'copying %d bytes %d position(s) up inside one buffer gives %s, expected %s (the regions overlap: the copy must run backwards byte by byte)' % (n, d, got[:d + n + 1], want[:d + n + 1])
    return {'byte_copyr:overlapping-copy-upwards-is-exact': (bad is None, 'byte_cr.c:byte_copyr', bad or '%d (distance, length) pairs' % n_runs, [])}


class ReadHooks(Conc):
    """substdio_feed / substdio_get with a scripted read operation"""
    def __init__(self, entry, script):
        super().__init__(entry)
        self.script = script

    def on_call(self, E, x, args):
        if x.callee is None:          # s->op(fd, buf, len)
            k = one(E.get('$k')) or 0
            if k >= len(self.script):
                return 'noreturn'
            r, err = self.script[k]
            sets = {'$k': fs(k + 1), '$asked': fs(one(args[2]))}
            if r == -1:
                sets['$errno'] = fs(err)
            else:
                bp = one(args[1])
                for i in range(r):
                    from qv.esp import ptr_add
                    q = ptr_add(bp, i)
                    if q is not None:
                        sets[q[1]] = fs(10 + i)
            return [Outcome(ret=fs(r), sets=sets, log='read -> %d%s' % (r, ' errno %d' % err if r == -1 else ''))]
        return super().on_call(E, x, args)


def substdio_read_sites(db, rep, prog):
    EINTR, EIO = 4, 5
    feed = db.fn('substdi.c', 'substdio_feed')
    get = db.fn('substdi.c', 'substdio_get')
    bad = {}

    def base():
        st = {'SS.x': fs(('&', 'X[0]')), 'SS.p': fs(0), 'SS.n': fs(8), 'SS.fd': fs(3), 'SS.op': fs(('fn', 'OP'))}
        for k in range(8):
            st['X[%d]' % k] = fs(200 + k)
        return st
    # feed
    for script, want in (([(-1, EIO)], -1), ([(0, 0)], 0), ([(-1, EINTR), (-1, EIO)], -1), ([(-1, EINTR), (3, 0)], 3), ([(8, 0)], 8), ([(5, 0)], 5), ([(7, 0)], 7), ([(6, 0)], 6)):
        H = ReadHooks('substdio_feed', script)
        e = Engine(db, prog, H)
        fid = e.frame_id(feed)
        st = base()
        st['%s::%s' % (fid, feed.params[0])] = fs(('&', 'SS'))
        e.run(feed, st)
        rep.count_states(e.states, e.transitions)
        if len(H.ends) != 1:
            raise AnalysisBroken('substdio_feed: %d ends for script %s' % (len(H.ends), script))
        end, val, tr = H.ends[0]
        ret = one(val)
        if ret != want:
            bad.setdefault('substdio_feed:read-error->-1,EOF->0,else-the-count', ('read script %s: substdio_feed returns %s (documented %s): a read error must not look like the end of the file' % (script, ret, want), tr))
        if want > 0:
            n_, p_ = one(end.get('SS.n')), one(end.get('SS.p'))
            data = [one(end.get('X[%d]' % (8 - want + i))) for i in range(want)]
            if n_ != 8 - want or p_ != want or data != [10 + i for i in range(want)]:
                bad.setdefault('substdio_feed:short-read-is-shifted-to-the-end-of-the-buffer-intact',
                               ('a read of %d bytes into an 8-byte buffer leaves n=%s p=%s and the bytes %s at the end of the buffer (documented n=%d p=%d, bytes 10..%d)' % (want, n_, p_, data, 8 - want, want, 9 + want), tr))
    # get (one byte at a time from an empty buffer)
    for script, want in (([(-1, EIO)], -1), ([(0, 0)], 0), ([(4, 0)], 1)):
        H = ReadHooks('substdio_get', script)
        e = Engine(db, prog, H)
        fid = e.frame_id(get)
        st = base()
        st.update({'%s::%s' % (fid, get.params[0]): fs(('&', 'SS')), '%s::%s' % (fid, get.params[1]): fs(('&', 'OUT[0]')), '%s::%s' % (fid, get.params[2]): fs(1)})
        e.run(get, st)
        rep.count_states(e.states, e.transitions)
        if len(H.ends) != 1:
            raise AnalysisBroken('substdio_get: %d ends for script %s' % (len(H.ends), script))
        end, val, tr = H.ends[0]
        ret = one(val)
        okv = ret == want and (want != 1 or one(end.get('OUT[0]')) == 10)
        if not okv:
            bad.setdefault('substdio_get:read-error->-1,EOF->0,else-the-first-byte', ('read script %s: substdio_get(…,1) returns %s with byte %s (documented %s)' % (script, ret, one(end.get('OUT[0]')), want), tr))
    keys = ('substdio_feed:read-error->-1,EOF->0,else-the-count', 'substdio_feed:short-read-is-shifted-to-the-end-of-the-buffer-intact', 'substdio_get:read-error->-1,EOF->0,else-the-first-byte')
    return {k: (k not in bad, 'substdi.c', bad[k][0] if k in bad else '', bad[k][1] if k in bad else []) for k in keys}


def substdio_copy_sites(db, rep, prog):
    fn = db.fn('substdio_copy.c', 'substdio_copy')

    class CH(Conc):
        def prim_substdio_feed(self, E, x, args):
            k = one(E.get('$k')) or 0
            if k >= 2:
                return [Outcome(ret=fs(0), sets={'$in': fs('eof')})]
            return [Outcome(ret=fs(-1), sets={'$in': fs('error')}), Outcome(ret=fs(0), sets={'$in': fs('eof')}), Outcome(ret=fs(5), sets={'$k': fs(k + 1)})]

        def prim_substdio_put(self, E, x, args):
            return [Outcome(ret=fs(0)), Outcome(ret=fs(-1), sets={'$out': fs('error')})]

        def prim_substdio_peek(self, E, x, args):
            return [Outcome(ret=TOP)]

        def prim_substdio_seek(self, E, x, args):
            return [Outcome(ret=TOP)]
    H = CH('substdio_copy')
    e = Engine(db, prog, H)
    fid = e.frame_id(fn)
    e.run(fn, {'%s::%s' % (fid, fn.params[0]): fs(('&', 'SO')), '%s::%s' % (fid, fn.params[1]): fs(('&', 'SI')), 'SI.n': fs(0), 'SI.p': fs(5), 'SI.x': fs(('&', 'XI[0]'))})
    rep.count_states(e.states, e.transitions)
    bad = None
    seen = set()
    for st, val, tr in H.ends:
        ret = one(val)
        want = -3 if one(st.get('$out')) == 'error' else -2 if one(st.get('$in')) == 'error' else 0
        seen.add(want)
        if ret != want and bad is None:
            bad = ('input %s, output %s: substdio_copy returns %s (documented %d; callers distinguish exactly 0, -2 = read error, -3 = write error and treat anything else as "copied")' %
                   (one(st.get('$in')), one(st.get('$out')) or 'ok', ret, want), tr)
    if seen != {0, -2, -3} and bad is None:
        raise AnalysisBroken('substdio_copy: outcomes explored %s' % sorted(seen))
    return {'substdio_copy:0=copied,-2=read-error,-3=write-error': (bad is None, 'substdio_copy.c', bad[0] if bad else '', bad[1] if bad else [])}


def substdio_put_sites(db, rep, prog):
    """substdio_put / substdio_bput on a 16-byte buffer: every store stays inside the buffer and no byte is lost
    (bytes handed to the write operation + bytes left in the buffer = bytes already buffered + bytes put)"""
    bad = {}
    n_runs = 0
    for fname in ('substdio_put', 'substdio_bput'):
        fn = db.fn('substdo.c', fname)
        for p0 in (0, 3, 16):
            for ln in ((0, 1, 13, 14, 16, 17, 40, 300, 8192, 8200, 20000) if fname == 'substdio_put' else (0, 1, 13, 14, 16, 17, 40, 300)):
                class PH(Conc):
                    def on_call(self, E, x, args):
                        if x.callee is None:          # s->op(fd, buf, len): writes everything it is given
                            n = one(args[2])
                            return [Outcome(ret=fs(n if isinstance(n, int) else 0), sets={'$written': fs((one(E.get('$written')) or 0) + (n if isinstance(n, int) else 0))})]
                        return super().on_call(E, x, args)

                    def on_assign(self, E, x, path, val):
                        if path.startswith('X['):
                            k = int(path[2:-1])
                            if not (0 <= k < 16) and getattr(self, 'oob', None) is None:
                                self.oob = (k, E.trace.list())
                                E.kill()
                H = PH(fname)
                e = Engine(db, prog, H, max_states=400000)
                fid = e.frame_id(fn)
                e.run(fn, {'%s::%s' % (fid, fn.params[0]): fs(('&', 'SS')), '%s::%s' % (fid, fn.params[1]): fs(('&', 'IN[0]')), '%s::%s' % (fid, fn.params[2]): fs(ln),
                           'SS.x': fs(('&', 'X[0]')), 'SS.p': fs(p0), 'SS.n': fs(16), 'SS.fd': fs(4), 'SS.op': fs(('fn', 'OP')), '$written': fs(0)})
                rep.count_states(e.states, e.transitions)
                n_runs += 1
                if getattr(H, 'oob', None):
                    bad.setdefault('%s:stores-stay-inside-the-buffer' % fname, ('putting %d bytes into a 16-byte buffer that holds %d stores at index %d' % (ln, p0, H.oob[0]), H.oob[1]))
                    continue
                if len(H.ends) != 1:
                    raise AnalysisBroken('%s: %d ends for p=%d len=%d' % (fname, len(H.ends), p0, ln))
                end, val, tr = H.ends[0]
                total = (one(end.get('$written')) or 0) + (one(end.get('SS.p')) or 0)
                if one(val) != 0 or total != p0 + ln or not (0 <= (one(end.get('SS.p')) or 0) <= 16):
                    bad.setdefault('%s:no-byte-lost-or-duplicated' % fname, ('putting %d bytes with %d buffered: %s written + %s left in the buffer (result %s)' % (ln, p0, one(end.get('$written')), one(end.get('SS.p')), one(val)), tr))
    keys = ['%s:%s' % (f, k) for f in ('substdio_put', 'substdio_bput') for k in ('stores-stay-inside-the-buffer', 'no-byte-lost-or-duplicated')]
    return {k: (k not in bad, 'substdo.c', bad[k][0] if k in bad else '', bad[k][1] if k in bad else []) for k in keys}


# =============================================================================== concrete strings
def _one(v):
    return next(iter(v)) if v is not TOP and v is not None and len(v) == 1 else None


def _lit_ptr(p, i):
    """address of byte i of the object p points to; for a string literal an address in an object named after its text"""
    from qv.esp import ptr_add
    if isinstance(p, tuple) and p[0] == 'str':
        return p if i == 0 else ('&', 'LIT:%s[%d]' % (p[1].encode('latin-1', 'replace').hex(), i))
    return ptr_add(p, i) or (p if i == 0 else None)


def _cell(E, path):
    """one byte cell: the stored value, else the initialiser of a constant (or private, never written) table"""
    if path.startswith('LIT:'):
        bs = bytes.fromhex(path[4:path.index('[')]) + b'\0'
        k = int(path[path.index('[') + 1:-1])
        return ((bs[k] + 128) & 255) - 128 if 0 <= k < len(bs) else None
    b = _one(E.get(path))
    if b is None and (path[:2] in ('G:', 'S:') or '::SL:' in path) and '[' in path:
        b = _one(E.eng.const_table_cell(path))
    return b


class SAConc:
    """mixin: the stralloc family and the str/byte helpers on concrete bytes.  A stralloc object at path P is the cells
    P.len and P.s[k] with P.s = &P.s[0]; a C string is a run of byte cells up to a 0 cell.  Allocation never fails
    here (the callers' out-of-memory exits are not what these explorations are about)."""
    def sa_bytes(self, E, obj):
        n = _one(E.get(obj + '.len'))
        if not isinstance(n, int) or not 0 <= n <= 512:
            return None
        out = []
        for k in range(n):
            b = _one(E.get('%s.s[%d]' % (obj, k)))
            if not isinstance(b, int):
                return None
            out.append(b & 255)
        return bytes(out)

    def mem(self, E, p, n):
        from qv.esp import ptr_add
        if isinstance(p, tuple) and p[0] == 'str':
            return (bytes((ord(c) & 255) for c in p[1]) + b'\0')[:n] if n <= len(p[1]) + 1 else None
        out = []
        for k in range(n):
            q = ptr_add(p, k) if isinstance(p, tuple) else None
            if q is None and k == 0 and isinstance(p, tuple) and p[0] == '&':
                q = p           # the address of a scalar object (&ch)
            b = _cell(E, q[1]) if q is not None else None
            if not isinstance(b, int):
                return None
            out.append(b & 255)
        return bytes(out)

    def cstring(self, E, p):
        from qv.esp import ptr_add
        if isinstance(p, tuple) and p[0] == 'str':
            return bytes((ord(c) & 255) for c in p[1])
        out = []
        for k in range(4200):
            q = ptr_add(p, k) if isinstance(p, tuple) else None
            b = _cell(E, q[1]) if q is not None else None
            if not isinstance(b, int):
                return None
            if b == 0:
                return bytes(out)
            out.append(b & 255)
        return None

    def _put(self, E, x, args, data, append):
        sa = _one(args[0])
        if not (isinstance(sa, tuple) and sa[0] == '&') or data is None:
            return [Outcome(ret=TOP)]
        obj = sa[1]
        old = self.sa_bytes(E, obj) if append else b''
        if old is None:
            return [Outcome(ret=TOP)]
        new = old + data
        st = {obj + '.s': fs(('&', obj + '.s[0]')), obj + '.len': fs(len(new))}
        for k in range(len(old), len(new)):
            b = new[k]
            st['%s.s[%d]' % (obj, k)] = fs(b - 256 if b >= 128 else b)
        return [Outcome(ret=fs(1), sets=st)]

    def prim_stralloc_copys(self, E, x, args):
        return self._put(E, x, args, self.cstring(E, _one(args[1])), False)

    def prim_stralloc_cats(self, E, x, args):
        return self._put(E, x, args, self.cstring(E, _one(args[1])), True)

    def prim_stralloc_copyb(self, E, x, args):
        n = _one(args[2])
        return self._put(E, x, args, self.mem(E, _one(args[1]), n) if isinstance(n, int) else None, False)

    def prim_stralloc_catb(self, E, x, args):
        n = _one(args[2])
        return self._put(E, x, args, self.mem(E, _one(args[1]), n) if isinstance(n, int) else None, True)

    def _other(self, E, args):
        o = _one(args[1])
        return self.sa_bytes(E, o[1]) if isinstance(o, tuple) and o[0] == '&' else None

    def prim_stralloc_copy(self, E, x, args):
        return self._put(E, x, args, self._other(E, args), False)

    def prim_stralloc_cat(self, E, x, args):
        return self._put(E, x, args, self._other(E, args), True)

    def prim_stralloc_append(self, E, x, args):
        return self._put(E, x, args, self.mem(E, _one(args[1]), 1), True)

    def prim_stralloc_0(self, E, x, args):
        return self._put(E, x, args, b'\0', True)

    def prim_stralloc_ready(self, E, x, args):
        sa = _one(args[0])
        if isinstance(sa, tuple) and sa[0] == '&':
            return [Outcome(ret=fs(1), sets={sa[1] + '.s': fs(('&', sa[1] + '.s[0]'))})]
        return [Outcome(ret=fs(1))]

    prim_stralloc_readyplus = prim_stralloc_ready

    def prim_str_len(self, E, x, args):
        s_ = self.cstring(E, _one(args[0]))
        return [Outcome(ret=fs(len(s_)) if s_ is not None else TOP)]

    prim_strlen = prim_str_len

    def prim_str_chr(self, E, x, args):
        s_, c = self.cstring(E, _one(args[0])), _one(args[1])
        if s_ is None or not isinstance(c, int):
            return [Outcome(ret=TOP)]
        i = s_.find(bytes([c & 255]))
        return [Outcome(ret=fs(i if i >= 0 else len(s_)))]

    def prim_str_rchr(self, E, x, args):
        s_, c = self.cstring(E, _one(args[0])), _one(args[1])
        if s_ is None or not isinstance(c, int):
            return [Outcome(ret=TOP)]
        i = s_.rfind(bytes([c & 255]))
        return [Outcome(ret=fs(i if i >= 0 else len(s_)))]

    def prim_byte_chr(self, E, x, args):
        n, c = _one(args[1]), _one(args[2])
        m = self.mem(E, _one(args[0]), n) if isinstance(n, int) and n >= 0 else None
        if m is None or not isinstance(c, int):
            return [Outcome(ret=TOP)]
        i = m.find(bytes([c & 255]))
        return [Outcome(ret=fs(i if i >= 0 else n))]

    def prim_byte_rchr(self, E, x, args):
        n, c = _one(args[1]), _one(args[2])
        m = self.mem(E, _one(args[0]), n) if isinstance(n, int) and n >= 0 else None
        if m is None or not isinstance(c, int):
            return [Outcome(ret=TOP)]
        i = m.rfind(bytes([c & 255]))
        return [Outcome(ret=fs(i if i >= 0 else n))]

    def prim_str_equal(self, E, x, args):
        a, b = self.cstring(E, _one(args[0])), self.cstring(E, _one(args[1]))
        return [Outcome(ret=fs(int(a == b)) if a is not None and b is not None else TOP)]

    def prim_str_diff(self, E, x, args):
        a, b = self.cstring(E, _one(args[0])), self.cstring(E, _one(args[1]))
        return [Outcome(ret=fs(0 if a == b else (1 if a > b else -1)) if a is not None and b is not None else TOP)]

    def prim_byte_diff(self, E, x, args):
        n = _one(args[1])
        a = self.mem(E, _one(args[0]), n) if isinstance(n, int) else None
        b = self.mem(E, _one(args[2]), n) if isinstance(n, int) else None
        return [Outcome(ret=fs(0 if a == b else (1 if a > b else -1)) if a is not None and b is not None else TOP)]

    def prim_memcmp(self, E, x, args):
        n = _one(args[2])
        a = self.mem(E, _one(args[0]), n) if isinstance(n, int) else None
        b = self.mem(E, _one(args[1]), n) if isinstance(n, int) else None
        return [Outcome(ret=fs(0 if a == b else (1 if a > b else -1)) if a is not None and b is not None else TOP)]

    def prim_strcmp(self, E, x, args):
        return self.prim_str_diff(E, x, args)

    def prim_strncmp(self, E, x, args):
        n = _one(args[2])
        a, b = self.cstring(E, _one(args[0])), self.cstring(E, _one(args[1]))
        if a is None or b is None or not isinstance(n, int):
            return [Outcome(ret=TOP)]
        a, b = a[:n], b[:n]
        return [Outcome(ret=fs(0 if a == b else (1 if a > b else -1)))]

    def prim_strchr(self, E, x, args):
        from qv.esp import ptr_add
        p, c = _one(args[0]), _one(args[1])
        s_ = self.cstring(E, p)
        if s_ is None or not isinstance(c, int) or not (isinstance(p, tuple) and p[0] in ('&', 'str')):
            return [Outcome(ret=TOP)]
        i = (s_ + b'\0').find(bytes([c & 255]))
        q = _lit_ptr(p, i) if i >= 0 else 0
        return [Outcome(ret=fs(q) if q is not None else TOP)]

    def prim_memchr(self, E, x, args):
        from qv.esp import ptr_add
        p, c, n = _one(args[0]), _one(args[1]), _one(args[2])
        m = self.mem(E, p, n) if isinstance(n, int) and 0 <= n <= 4096 else None
        if m is None or not isinstance(c, int) or not (isinstance(p, tuple) and p[0] in ('&', 'str')):
            return [Outcome(ret=TOP)]
        i = m.find(bytes([c & 255]))
        if i < 0:
            return [Outcome(ret=fs(0))]
        q = _lit_ptr(p, i)
        return [Outcome(ret=fs(q) if q is not None else TOP)]

    def prim_memrchr(self, E, x, args):
        from qv.esp import ptr_add
        p, c, n = _one(args[0]), _one(args[1]), _one(args[2])
        m = self.mem(E, p, n) if isinstance(n, int) and 0 <= n <= 4096 else None
        if m is None or not isinstance(c, int) or not (isinstance(p, tuple) and p[0] in ('&', 'str')):
            return [Outcome(ret=TOP)]
        i = m.rfind(bytes([c & 255]))
        if i < 0:
            return [Outcome(ret=fs(0))]
        q = _lit_ptr(p, i)
        return [Outcome(ret=fs(q) if q is not None else TOP)]

    def prim_strrchr(self, E, x, args):
        from qv.esp import ptr_add
        p, c = _one(args[0]), _one(args[1])
        s_ = self.cstring(E, p)
        if s_ is None or not isinstance(c, int) or not (isinstance(p, tuple) and p[0] in ('&', 'str')):
            return [Outcome(ret=TOP)]
        i = (s_ + b'\0').rfind(bytes([c & 255]))
        if i < 0:
            return [Outcome(ret=fs(0))]
        q = _lit_ptr(p, i)
        return [Outcome(ret=fs(q) if q is not None else TOP)]

    def _copy(self, E, dst, src, n):
        from qv.esp import ptr_add
        data = self.mem(E, src, n) if isinstance(n, int) and 0 <= n <= 4096 else None
        if data is None or not (isinstance(dst, tuple) and dst[0] == '&'):
            return None
        sets = {}
        for k, b in enumerate(data):
            q = ptr_add(dst, k) or (dst if k == 0 else None)
            if q is None:
                return None
            sets[q[1]] = fs(b - 256 if b >= 128 else b)
        return sets

    def prim_byte_copy(self, E, x, args):
        sets = self._copy(E, _one(args[0]), _one(args[2]), _one(args[1]))
        if sets is None:
            return None
        for p_, v_ in sets.items():
            self.on_assign(E, x, p_, v_)
        return [Outcome(ret=TOP, sets=sets)]

    prim_byte_copyr = prim_byte_copy

    def prim_memcpy(self, E, x, args):
        sets = self._copy(E, _one(args[0]), _one(args[1]), _one(args[2]))
        if sets is None:
            return None
        for p_, v_ in sets.items():
            self.on_assign(E, x, p_, v_)
        return [Outcome(ret=args[0], sets=sets)]

    prim_memmove = prim_memcpy

    def prim_byte_equal(self, E, x, args):
        n = _one(args[1])
        a = self.mem(E, _one(args[0]), n) if isinstance(n, int) else None
        b = self.mem(E, _one(args[2]), n) if isinstance(n, int) else None
        return [Outcome(ret=fs(int(a == b)) if a is not None and b is not None else TOP)]


# the everything-concrete base class evaluates the C library's byte routines on concrete bytes too (a scan or a copy may be
# spelt with memchr/memmove/strrchr instead of the package's own byte_* routines, which are explored as code)
for _n in ('mem', 'cstring', 'prim_memchr', 'prim_memrchr', 'prim_strrchr', 'prim_strchr', 'prim_memcmp', 'prim_strcmp',
           'prim_strncmp', 'prim_memcpy', 'prim_memmove', '_copy'):
    setattr(Conc, _n, getattr(SAConc, _n))
Conc.prim_strlen = SAConc.prim_str_len


def _conc_memset(self, E, x, args):
    from qv.esp import ptr_add
    p, c, n = _one(args[0]), _one(args[1]), _one(args[2])
    if not (isinstance(p, tuple) and p[0] == '&' and isinstance(c, int) and isinstance(n, int) and 0 <= n <= 4096):
        return None
    sets = {}
    for k in range(n):
        q = ptr_add(p, k) or (p if k == 0 else None)
        if q is None:
            return None
        sets[q[1]] = fs(((c + 128) & 255) - 128)
    return [Outcome(ret=args[0], sets=sets)]


Conc.prim_memset = _conc_memset
SAConc.prim_memset = _conc_memset


def conc_string_cells(prefix, data, terminate=True):
    """initial store cells for a byte string at prefix[0..]"""
    st = {}
    bs = data if isinstance(data, (bytes, bytearray)) else data.encode('latin-1')
    for k, b in enumerate(bs):
        st['%s[%d]' % (prefix, k)] = fs(b - 256 if b >= 128 else b)
    if terminate:
        st['%s[%d]' % (prefix, len(bs))] = fs(0)
    return st


# =============================================================================== wait.h status macros
def _c_eval(body, env):
    """a C integer expression over the names in env (function-like names are Python callables), with C's operator precedence
    (bitwise & ^ | bind more loosely than the comparisons); None if it uses anything else"""
    import re as _re
    toks = _re.findall(r'\s*(\d+[uUlL]*|0[xX][0-9a-fA-F]+[uUlL]*|[A-Za-z_]\w*|<<|>>|<=|>=|==|!=|&&|\|\||[-+*/%&|^~!<>(),?:])', body)
    if ''.join(toks).replace(' ', '') != _re.sub(r'\s+', '', body):
        return None
    PREC = [('||',), ('&&',), ('|',), ('^',), ('&',), ('==', '!='), ('<', '<=', '>', '>='), ('<<', '>>'), ('+', '-'), ('*', '/', '%')]
    pos = [0]

    class Bad(Exception):
        pass

    def peek():
        return toks[pos[0]] if pos[0] < len(toks) else None

    def take(t=None):
        if pos[0] >= len(toks) or (t is not None and toks[pos[0]] != t):
            raise Bad()
        pos[0] += 1
        return toks[pos[0] - 1]

    def primary():
        t = take()
        if t == '(':
            # a cast to an integer type is the identity here
            save = pos[0]
            words = []
            while peek() in ('unsigned', 'signed', 'int', 'long', 'char', 'short'):
                words.append(take())
            if words and peek() == ')':
                take(')')
                v = unary()
                if 'char' in words:
                    v &= 0xff
                    if 'unsigned' not in words and v >= 128:
                        v -= 256
                return v
            pos[0] = save
            v = expr(0)
            take(')')
            return v
        if _re.match(r'\d|0[xX]', t):
            return int(_re.sub(r'[uUlL]+$', '', t), 0)
        if _re.match(r'[A-Za-z_]', t):
            if t not in env:
                raise Bad()
            if peek() == '(':
                take('(')
                args = []
                if peek() != ')':
                    args.append(expr(0))
                    while peek() == ',':
                        take(',')
                        args.append(expr(0))
                take(')')
                if not callable(env[t]):
                    raise Bad()
                return int(env[t](*args))
            if callable(env[t]):
                raise Bad()
            return env[t]
        raise Bad()

    def unary():
        t = peek()
        if t == '!':
            take()
            return int(not unary())
        if t == '~':
            take()
            return ~unary()
        if t == '-':
            take()
            return -unary()
        if t == '+':
            take()
            return unary()
        return primary()

    def expr(level):
        if level == len(PREC):
            return unary()
        v = expr(level + 1)
        while peek() in PREC[level]:
            op = take()
            r = expr(level + 1)
            v = {'||': lambda a, b_: int(bool(a) or bool(b_)), '&&': lambda a, b_: int(bool(a) and bool(b_)), '|': lambda a, b_: a | b_, '^': lambda a, b_: a ^ b_,
                 '&': lambda a, b_: a & b_, '==': lambda a, b_: int(a == b_), '!=': lambda a, b_: int(a != b_), '<': lambda a, b_: int(a < b_), '<=': lambda a, b_: int(a <= b_),
                 '>': lambda a, b_: int(a > b_), '>=': lambda a, b_: int(a >= b_), '<<': lambda a, b_: a << b_, '>>': lambda a, b_: a >> b_, '+': lambda a, b_: a + b_,
                 '-': lambda a, b_: a - b_, '*': lambda a, b_: a * b_, '/': lambda a, b_: (abs(a) // abs(b_)) * (1 if (a >= 0) == (b_ >= 0) else -1) if b_ else 0, '%': lambda a, b_: (abs(a) % abs(b_)) * (1 if a >= 0 else -1) if b_ else 0}[op](v, r)
        return v
    try:
        v = expr(0)
        if peek() == '?':
            return None
        if pos[0] != len(toks):
            return None
        return int(v)
    except (Bad, Exception):
        return None


def waitmacro_sites(db, unit='qmail-rspawn.c'):
    """wait_crashed / wait_exitcode as functions of the status word, for every exit code 0..255 and every signal with and without a core dump"""
    u = db.unit(unit)
    glibc = {
        'WIFEXITED': lambda w: int((w & 0x7f) == 0), 'WEXITSTATUS': lambda w: (w >> 8) & 0xff, 'WTERMSIG': lambda w: w & 0x7f,
        'WIFSIGNALED': lambda w: int(((w & 0x7f) + 1) >> 1 > 0 and (w & 0x7f) != 0x7f), 'WCOREDUMP': lambda w: w & 0x80, 'WIFSTOPPED': lambda w: int((w & 0xff) == 0x7f),
        'WSTOPSIG': lambda w: (w >> 8) & 0xff,
    }
    out = {}
    bad_c = bad_e = None
    def evaluator(name):
        m = u.macros.get(name)
        if m and m.get('fn'):
            return lambda w, m=m: _c_eval(m['body'], dict(glibc, **{m['params'][0]: w}))
        # not a macro: a function (static inline in the header, or a routine of its own) - run it
        fn = None
        for prog_ in db.programs.values() if hasattr(db, 'programs') else []:
            fn = prog_.resolve(name, unit)
            if fn is not None and fn.blocks:
                break
        if fn is None or not fn.blocks:
            for uu in db.units.values():
                if name in uu.functions and uu.functions[name].blocks:
                    fn = uu.functions[name]
        if fn is None or not fn.blocks or len(fn.params) != 1:
            raise AnalysisBroken('%s: %s is neither a function-like macro nor a one-argument function' % (unit, name))

        def run(w, fn=fn):
            rets = []

            class RH(Conc):
                def on_return(self, E, f, v):
                    if f.name == fn.name:
                        rets.append(v)
            prog_ = next(iter(db.programs.values())) if hasattr(db, 'programs') and db.programs else None
            e = Engine(db, prog_ or db.program('qmail-rspawn'), RH(name), max_states=5000)
            e.run(fn, {'%s::%s' % (e.frame_id(fn), fn.params[0]): fs(w)})
            return one(rets[0]) if len(rets) == 1 else None
        return run
    ev_c, ev_e = evaluator('wait_crashed'), evaluator('wait_exitcode')
    words = [c << 8 for c in range(256)] + [s for s in range(1, 127)] + [s | 0x80 for s in range(1, 127)]
    for w in words:
        vc = ev_c(w)
        ve = ev_e(w)
        if vc is None or ve is None:
            raise AnalysisBroken('%s: cannot evaluate wait_crashed / wait_exitcode for the status word 0x%04x' % (unit, w))
        crashed = (w & 127) != 0
        if bool(vc) != crashed and bad_c is None:
            bad_c = ('status word 0x%04x (%s): wait_crashed() is %d' % (w, ('killed by signal %d%s' % (w & 127, ', core dumped' if w & 0x80 else '')) if crashed else 'exit code %d' % (w >> 8), vc))
        if not crashed and ve != (w >> 8) and bad_e is None:
            bad_e = 'exit code %d: wait_exitcode() is %d' % (w >> 8, ve)
    out['wait_crashed-iff-killed-by-a-signal(core-or-not)'] = (bad_c is None, 'wait.h', bad_c or '%d status words' % len(words), [])
    out['wait_exitcode-is-the-exit-code(0..255)'] = (bad_e is None, 'wait.h', bad_e or '256 exit codes', [])
    return out


# =============================================================================== more library tables
def _run_conc(db, rep, prog, fn, st, entry, H=None):
    H = H or Conc(entry)
    e = Engine(db, prog, H, max_states=60000)
    fid = e.frame_id(fn)
    store = {}
    for k, v in st.items():
        store[('%s::%s' % (fid, fn.params[k])) if isinstance(k, int) else k] = v
    e.run(fn, store)
    rep.count_states(e.states, e.transitions)
    return H


def case_diffb_sites(db, rep, prog):
    """case_diffb(s,len,t): 0 iff the first len bytes agree up to the case of A-Z; nothing beyond len is looked at"""
    fn = db.fn('case_diffb.c', 'case_diffb')
    bad = None
    n = 0
    pairs = [(b'x', b'y', 0), (b':tag', b'Qtag', 0), (b'', b'', 0), (b'a', b'A', 1), (b'a', b'b', 1), (b'Z', b'z', 1), (b'@', b'`', 1), (b'[', b'{', 1), (b'ab', b'aB', 2), (b'ab', b'ac', 2), (b'ab', b'ac', 1), (b'x', b'y', 0),
             (b':tag', b'Qtag', 0), (b'AZaz', b'azAZ', 4), (b'\xc1', b'\xe1', 1)]
    for s_, t_, ln in pairs:
        st = {0: fs(('&', 'S[0]')), 1: fs(ln), 2: fs(('&', 'T[0]'))}
        st.update(conc_string_cells('S', s_))
        st.update(conc_string_cells('T', t_))
        if bad is not None:
            break
        try:
            H = _run_conc(db, rep, prog, fn, st, 'case_diffb')
        except AnalysisBroken:
            bad = 'case_diffb(%r, %d, %r) does not stop at its length: it goes on comparing behind the %d byte(s) it was given' % (s_, ln, t_, ln)
            break
        n += 1
        if len(H.ends) != 1:
            bad = 'case_diffb(%r, %d, %r) reads bytes behind its length (%d different results depending on them)' % (s_, ln, t_, len(H.ends))
            break
        got = one(H.ends[0][1])
        fold = lambda b_: bytes((c + 32 if 65 <= c <= 90 else c) for c in b_[:ln])
        want_equal = fold(s_) == fold(t_)
        if (got == 0) != want_equal and bad is None:
            bad = 'case_diffb(%r, %d, %r) is %s; documented: %s' % (s_, ln, t_, got, 'equal (0)' if want_equal else 'different (non-zero)')
    return {'case_diffb:0-iff-equal-up-to-case-over-exactly-len-bytes': (bad is None, 'case_diffb.c:case_diffb', bad or '%d pairs' % n, [])}


def byte_rchr_sites(db, rep, prog):
    """byte_rchr(s,n,c): index of the LAST c in s[0..n), or n"""
    fn = db.fn('byte_rchr.c', 'byte_rchr')
    bad = None
    n_runs = 0
    import itertools
    for n in range(0, 7):
        for t in (itertools.product(b'@x', repeat=n) if n <= 5 else [b'xxxxx@', b'@xxxxx', b'xx@x@x', b'xxxxxx']):
            data = bytes(t)
            st = {0: fs(('&', 'S[0]')), 1: fs(n), 2: fs(ord('@'))}
            st.update(conc_string_cells('S', data + b'@'))           # a match just behind the range must not count
            H = _run_conc(db, rep, prog, fn, st, 'byte_rchr')
            n_runs += 1
            if len(H.ends) != 1:
                raise AnalysisBroken('byte_rchr: %d ends' % len(H.ends))
            got = one(H.ends[0][1])
            want = data.rfind(b'@') if b'@' in data else n
            if got != want and bad is None:
                bad = 'byte_rchr(%r, %d, "@") is %s; documented %d' % (data, n, got, want)
    return {'byte_rchr:index-of-the-last-match-or-n': (bad is None, 'byte_rchr.c:byte_rchr', bad or '%d strings' % n_runs, [])}


class SlurpHooks(Conc):
    def __init__(self, script):
        super().__init__('slurpclose')
        self.script = script

    def prim_stralloc_readyplus(self, E, x, args):
        sa = one(args[0])
        return [Outcome(ret=fs(1), sets={sa[1] + '.s': fs(('&', sa[1] + '.s[0]'))})]

    def prim_read(self, E, x, args):
        from qv.esp import ptr_add
        k = one(E.get('$k')) or 0
        if k >= len(self.script):
            return 'noreturn'
        r = self.script[k]
        sets = {'$k': fs(k + 1)}
        if isinstance(r, tuple):
            sets['$errno'] = fs(r[1])
            return [Outcome(ret=fs(-1), sets=sets)]
        bp = one(args[1])
        for i, b in enumerate(r):
            sets[ptr_add(bp, i)[1]] = fs(b)
        return [Outcome(ret=fs(len(r)), sets=sets)]

    def prim_close(self, E, x, args):
        return [Outcome(ret=fs(0), sets={'$closed': fs((one(E.get('$closed')) or 0) + 1)})]

    def materialize(self, E, path):
        if path in ('G:error_intr', 'E:error_intr'):
            return fs(4)
        return TOP


def slurpclose_sites(db, rep, prog):
    """slurpclose(fd,sa,bufsize): 0 and the whole file at end of file; -1 on a read error (EINTR retried); the descriptor closed once"""
    fn = db.fn('slurpclose.c', 'slurpclose')
    bad = None
    scen = [([b'abc', b'de', b''], 0, b'abcde'), ([b''], 0, b''), ([(-1, 5)], -1, None), ([b'abc', (-1, 5)], -1, None), ([(-1, 4), b'ab', (-1, 4), b''], 0, b'ab'), ([b'ab', (-1, 13)], -1, None)]
    for script, want_r, want_data in scen:
        H = SlurpHooks(script)
        H = _run_conc(db, rep, prog, fn, {0: fs(7), 1: fs(('&', 'SA')), 2: fs(8), 'SA.len': fs(0)}, 'slurpclose', H)
        if len(H.ends) != 1:
            raise AnalysisBroken('slurpclose: %d ends for the read script %s' % (len(H.ends), script))
        store, val, tr = H.ends[0]
        got_r = one(val)
        n = one(store.get('SA.len'))
        data = bytes((one(store.get('SA.s[%d]' % k)) or 0) & 255 for k in range(n)) if isinstance(n, int) and 0 <= n < 64 else None
        closed = one(store.get('$closed')) or 0
        if (got_r != want_r or (want_data is not None and data != want_data) or closed != 1) and bad is None:
            bad = ('reads %s: slurpclose() returns %s with %r collected and %d close() call(s); documented: %s%s, one close' %
                   ([('error %d' % r[1]) if isinstance(r, tuple) else r for r in script], got_r, data, closed, want_r, (' with %r' % want_data) if want_data is not None else ''), tr)
    return {'slurpclose:0=whole-file,-1=read-error,EINTR-retried': (bad is None, 'slurpclose.c:slurpclose', bad[0] if bad else '%d read scripts' % len(scen), bad[1] if bad else [])}


def sig_blocknone_sites(db, rep, prog):
    """sig_blocknone(): the process signal mask is SET to the empty set (an inherited mask must not survive)"""
    fn = db.fn('sig_block.c', 'sig_blocknone')
    calls = []

    class H(Conc):
        def prim_sigemptyset(self, E, x, args):
            return [Outcome(ret=fs(0), sets={'$emptied': args[0]})]

        def prim_sigaddset(self, E, x, args):
            return [Outcome(ret=fs(0), sets={'$added': fs(1)})]

        prim_sigfillset = prim_sigaddset

        def prim_sigprocmask(self, E, x, args):
            calls.append((one(args[0]), args[1] == E.get('$emptied') and not one(E.get('$added')), x.where))
            return [Outcome(ret=fs(0))]

        def prim_sigsetmask(self, E, x, args):
            calls.append((2 if one(args[0]) == 0 else -1, True, x.where))
            return [Outcome(ret=fs(0))]
    _run_conc(db, rep, prog, fn, {}, 'sig_blocknone', H('sig_blocknone'))
    SIG_SETMASK = 2
    ok = len(calls) == 1 and calls[0][0] == SIG_SETMASK and calls[0][1]
    return {'sig_blocknone:sets-the-empty-mask': (ok, calls[0][2] if calls else 'sig_block.c:sig_blocknone',
            'the mask operations are %s (how, empty set); documented: one sigprocmask(SIG_SETMASK = 2, empty set): with SIG_UNBLOCK or SIG_BLOCK of the empty set an inherited mask survives and a blocked SIGALRM never ends a stalled qmail-queue' % [(c[0], c[1]) for c in calls], [])}


# =============================================================================== getln / getln2
class GetlnHooks(SAConc, Conc):
    """getln() over a scripted byte source with a 4-byte input buffer: the line handed back and the reservations made for it"""
    def __init__(self, chunks):
        Conc.__init__(self, 'getln')
        self.chunks = chunks
        self.over = None

    def on_call(self, E, x, args):
        if x.callee is None:          # s->op(fd, buf, len)
            from qv.esp import ptr_add
            k = one(E.get('$k')) or 0
            if k >= len(self.chunks):
                return [Outcome(ret=fs(0), log='read -> 0 (end of file)')]
            data = self.chunks[k]
            want = one(args[2])
            if not isinstance(want, int) or want < len(data):
                raise AnalysisBroken('getln: the input buffer is asked for %s bytes, the script hands out %d' % (want, len(data)))
            bp = one(args[1])
            sets = {'$k': fs(k + 1)}
            for i, b in enumerate(data):
                sets[ptr_add(bp, i)[1]] = fs(b)
            return [Outcome(ret=fs(len(data)), sets=sets, log='read -> %r' % data)]
        return super().on_call(E, x, args)

    def _cap(self, E, obj):
        return one(E.get('$cap:' + obj)) or 0

    def prim_stralloc_ready(self, E, x, args):
        sa, n = one(args[0]), one(args[1])
        return [Outcome(ret=fs(1), sets={sa[1] + '.s': fs(('&', sa[1] + '.s[0]')), '$cap:' + sa[1]: fs(max(self._cap(E, sa[1]), n))})]

    def prim_stralloc_readyplus(self, E, x, args):
        sa, n = one(args[0]), one(args[1])
        ln = one(E.get(sa[1] + '.len')) or 0
        return [Outcome(ret=fs(1), sets={sa[1] + '.s': fs(('&', sa[1] + '.s[0]')), '$cap:' + sa[1]: fs(max(self._cap(E, sa[1]), ln + n))})]

    def _put(self, E, x, args, data, append):
        outs = SAConc._put(self, E, x, args, data, append)
        sa = one(args[0])
        if outs and outs[0].sets and isinstance(sa, tuple):
            outs[0].sets['$cap:' + sa[1]] = fs(max(self._cap(E, sa[1]), one(outs[0].sets.get(sa[1] + '.len')) or 0))
        return outs

    def on_assign(self, E, x, path, val):
        import re as _re
        m = _re.match(r'^(SA)\.s\[(\d+)\]$', path or '')
        if m and int(m.group(2)) >= self._cap(E, m.group(1)) and self.over is None:
            self.over = (int(m.group(2)), self._cap(E, m.group(1)), x.where, E.trace.list())

    def inline(self, fn, depth):
        return fn.name not in ('stralloc_ready', 'stralloc_readyplus', 'stralloc_catb', 'stralloc_copyb', 'stralloc_append') and Conc.inline(self, fn, depth)


def getln_sites(db, rep, prog):
    """getln(): the line is handed back whole whatever its length relative to the input buffer, and it is written only into space reserved for it"""
    fn = db.fn('getln.c', 'getln')
    bad = {}
    n = 0
    for line, rest, terminated in ((b'ab', b'z', True), (b'abcdefghijk', b'zz', True), (b'abcdefghijklmnopqrs', b'', True), (b'', b'x', True), (b'abcdefghij', b'', False), (b'abcdef', b'', False)):
        data = line + (b'\n' if terminated else b'') + rest
        chunks = [data[i:i + 4] for i in range(0, len(data), 4)]
        H = GetlnHooks(chunks)
        e = Engine(db, prog, H, max_states=120000)
        fid = e.frame_id(fn)
        st = {'%s::%s' % (fid, fn.params[0]): fs(('&', 'SS')), '%s::%s' % (fid, fn.params[1]): fs(('&', 'SA')), '%s::%s' % (fid, fn.params[2]): fs(('&', 'MATCH')),
              '%s::%s' % (fid, fn.params[3]): fs(10), 'SS.x': fs(('&', 'X[0]')), 'SS.p': fs(0), 'SS.n': fs(4), 'SS.fd': fs(3), 'SS.op': fs(('fn', 'OP')), 'SA.len': fs(0)}
        for k in range(4):
            st['X[%d]' % k] = fs(0)
        e.run(fn, st)
        rep.count_states(e.states, e.transitions)
        n += 1
        if len(H.ends) != 1:
            raise AnalysisBroken('getln: %d ends for the input %r' % (len(H.ends), data))
        store, val, tr = H.ends[0]
        ln = one(store.get('SA.len'))
        got = bytes((one(store.get('SA.s[%d]' % k)) or 0) & 255 for k in range(ln)) if isinstance(ln, int) and 0 <= ln < 64 else None
        want = line + (b'\n' if terminated else b'')
        if (got != want or one(store.get('MATCH')) != (1 if terminated else 0) or one(val) != 0) and 'getln:the-line-is-handed-back-whole' not in bad:
            bad['getln:the-line-is-handed-back-whole'] = ('input %r through a 4-byte buffer: getln() hands back %r (match=%s, result %s); documented %r (match=%d)' %
                                                          (data, got, one(store.get('MATCH')), one(val), want, 1 if terminated else 0), tr)
        if H.over and 'getln:bytes-are-stored-only-into-reserved-space' not in bad:
            bad['getln:bytes-are-stored-only-into-reserved-space'] = ('input %r through a 4-byte buffer: byte %d of the line is stored while %d byte(s) are reserved (%s)' % (data, H.over[0], H.over[1], H.over[2]), H.over[3])
    return {k: (k not in bad, 'getln2.c:getln2', bad[k][0] if k in bad else '%d inputs' % n, bad[k][1] if k in bad else [])
            for k in ('getln:the-line-is-handed-back-whole', 'getln:bytes-are-stored-only-into-reserved-space')}


# =============================================================================== allwrite / substdio_flush results
class WriteScript(Conc):
    """a scripted write operation: each entry is the number of bytes the kernel takes, or (-1, errno)"""
    def __init__(self, entry, script):
        super().__init__(entry)
        self.script = script

    def on_call(self, E, x, args):
        if x.callee is None:
            k = one(E.get('$k')) or 0
            calls = tuple(one(E.get('$calls')) or ())
            bp, n = one(args[1]), one(args[2])
            off = int(bp[1][2:-1]) if isinstance(bp, tuple) and bp[0] == '&' and bp[1].startswith('B[') else None
            calls = calls + ((off, n),)
            if k >= len(self.script):
                return 'noreturn'
            r = self.script[k]
            sets = {'$k': fs(k + 1), '$calls': fs(calls)}
            if isinstance(r, tuple):
                sets['$errno'] = fs(r[1])
                return [Outcome(ret=fs(-1), sets=sets, log='write fails with errno %d' % r[1])]
            return [Outcome(ret=fs(r), sets=sets, log='write takes %d of %s bytes' % (r, n))]
        return super().on_call(E, x, args)

    def materialize(self, E, path):
        if path in ('G:error_intr', 'E:error_intr'):
            return fs(4)
        return TOP


def allwrite_result_sites(db, rep, prog):
    """allwrite(): 0 exactly when every byte was taken (short writes and EINTR retried from the first unwritten byte), -1 on any other error;
    substdio_flush(): hands on allwrite's result and leaves the buffer empty"""
    EINTR, EIO = 4, 5
    aw = db.fn('substdo.c', 'allwrite')
    fl = db.fn('substdo.c', 'substdio_flush')
    bad = {}
    scen = [(10, [10], 0, [(0, 10)]), (10, [3, 7], 0, [(0, 10), (3, 7)]), (10, [3, (-1, EIO)], -1, [(0, 10), (3, 7)]), (10, [(-1, EIO)], -1, [(0, 10)]),
            (10, [(-1, EINTR), 4, (-1, EINTR), 6], 0, [(0, 10), (0, 10), (4, 6), (4, 6)]), (0, [], 0, []), (5, [1, 1, 1, 1, 1], 0, [(0, 5), (1, 4), (2, 3), (3, 2), (4, 1)])]
    for ln, script, want_r, want_calls in scen:
        H = WriteScript('allwrite', script)
        e = Engine(db, prog, H, max_states=20000)
        fid = e.frame_id(aw)
        e.run(aw, {'%s::%s' % (fid, aw.params[0]): fs(('fn', 'OP')), '%s::%s' % (fid, aw.params[1]): fs(7), '%s::%s' % (fid, aw.params[2]): fs(('&', 'B[0]')), '%s::%s' % (fid, aw.params[3]): fs(ln)})
        rep.count_states(e.states, e.transitions)
        if len(H.ends) != 1:
            bad.setdefault('allwrite:0=everything-written,-1=error,short-writes-and-EINTR-retried', ('%d bytes, write results %s: allwrite() does not come back (%d ends): it asks for more writes than the data needs' % (ln, script, len(H.ends)), []))
            continue
        store, val, tr = H.ends[0]
        got_r, got_calls = one(val), list(one(store.get('$calls')) or ())
        if got_r != want_r or got_calls != want_calls:
            bad.setdefault('allwrite:0=everything-written,-1=error,short-writes-and-EINTR-retried',
                           ('%d bytes, write results %s: allwrite() returns %s after the writes (offset, length) %s; documented %s after %s' % (ln, script, got_r, got_calls, want_r, want_calls), tr))
    for script, want_r in (([5], 0), ([(-1, EIO)], -1), ([2, 3], 0)):
        H = WriteScript('substdio_flush', script)
        e = Engine(db, prog, H, max_states=20000)
        fid = e.frame_id(fl)
        e.run(fl, {'%s::%s' % (fid, fl.params[0]): fs(('&', 'SS')), 'SS.x': fs(('&', 'B[0]')), 'SS.p': fs(5), 'SS.n': fs(16), 'SS.fd': fs(7), 'SS.op': fs(('fn', 'OP'))})
        rep.count_states(e.states, e.transitions)
        if len(H.ends) != 1:
            raise AnalysisBroken('substdio_flush: %d ends for the write results %s' % (len(H.ends), script))
        store, val, tr = H.ends[0]
        if one(val) != want_r or one(store.get('SS.p')) != 0:
            bad.setdefault('flush-returns-allwrite', ('5 bytes buffered, write results %s: substdio_flush() returns %s and leaves %s byte(s) in the buffer; documented %s and an empty buffer' % (script, one(val), one(store.get('SS.p')), want_r), tr))
    return {k: (k not in bad, 'substdo.c', bad[k][0] if k in bad else 'scripted write results', bad[k][1] if k in bad else [])
            for k in ('allwrite:0=everything-written,-1=error,short-writes-and-EINTR-retried', 'flush-returns-allwrite')}


# =============================================================================== lock.h: the three lock operations
def lock_sites(db, rep, prog, which=('lock_ex', 'lock_exnb', 'lock_un')):
    """lock_ex waits for an exclusive lock, lock_exnb takes it or fails at once, lock_un releases: the request that reaches
    flock()/lockf() is evaluated (flock: LOCK_EX=2, LOCK_NB=4, LOCK_UN=8; lockf: F_ULOCK=0, F_LOCK=1, F_TLOCK=2, F_TEST=3 only tests)"""
    want = {'lock_ex': {('flock', 2), ('lockf', 1)}, 'lock_exnb': {('flock', 6), ('lockf', 2)}, 'lock_un': {('flock', 8), ('lockf', 0)}}
    what = {'lock_ex': 'waits for the exclusive lock (concurrent mbox deliveries are serialised)', 'lock_exnb': 'takes the exclusive lock or fails at once (a second daemon must be refused)',
            'lock_un': 'releases the lock'}
    names = {('flock', 2): 'LOCK_EX', ('flock', 6): 'LOCK_EX|LOCK_NB', ('flock', 8): 'LOCK_UN', ('flock', 4): 'LOCK_NB', ('flock', 1): 'LOCK_SH', ('flock', 5): 'LOCK_SH|LOCK_NB',
             ('lockf', 0): 'F_ULOCK', ('lockf', 1): 'F_LOCK', ('lockf', 2): 'F_TLOCK', ('lockf', 3): 'F_TEST (tests, never acquires)'}
    out = {}
    for name in which:
        fn = prog.fn(name) if hasattr(prog, 'fn') else None
        if fn is None:
            raise AnalysisBroken('%s not linked into %s' % (name, getattr(prog, 'name', '?')))
        seen = []

        class LH(Conc):
            def _req(self, E, x, args):
                seen.append((x.callee, _one(args[0]), _one(args[1]), _one(args[2]) if len(args) > 2 else None))
                return [Outcome(ret=fs(0))]
            prim_flock = prim_lockf = _req
        H = LH(name)
        _run_conc(db, rep, prog, fn, {0: fs(7)}, name, H)
        ok = len(seen) == 1 and len(H.ends) == 1 and seen[0][1] == 7 and (seen[0][0], seen[0][2]) in want[name] and (seen[0][0] != 'lockf' or seen[0][3] == 0) and one(H.ends[0][1]) == 0
        shown = ', '.join('%s(fd %s, %s%s)' % (c, f, names.get((c, r), r), '' if c == 'flock' else ', %s' % l) for c, f, r, l in seen) or 'no lock request'
        out['%s:%s' % (name, {'lock_ex': 'blocking-exclusive', 'lock_exnb': 'non-blocking-exclusive', 'lock_un': 'unlock'}[name])] = (
            ok, '%s:%s' % (fn.unit, name), '%s(fd) issues %s and returns %s; documented: %s - flock %s or lockf %s on that descriptor, its result returned' % (
                name, shown, [one(e[1]) for e in H.ends], what[name], *[names[k] for k in sorted(want[name])]), [])
    return out


# =============================================================================== commands(): one line -> one handler
def commands_sites(db, rep, progname='qmail-pop3d', unit='qmail-pop3d.c', table='pop3commands'):
    """commands() run on scripted lines against the program's real command table: a line selects the entry whose verb equals its
    first word up to case - the whole word, nothing shorter - else the catch-all entry; the handler is handed the text behind the
    blanks; the line may end in LF or CRLF; nothing outside the line buffer is looked at"""
    prog = db.program(progname)
    fn = db.fn('commands.c', 'commands')
    tab = db.unit(unit).globals.get(table)
    if not tab or tab.get('init', {}).get('k') != 'list':
        raise AnalysisBroken('%s[] initialiser not found' % table)
    verbs = {}
    other = None
    flushers = set()
    cells = {}      # the table as the program's initialiser fills it (its address may be taken, so it is handed over explicitly)
    for row in tab['init']['v']:
        r = row['v']
        name = r[0].get('v') if r[0].get('k') == 'str' else None
        fnm = r[1].get('v')[2:] if r[1].get('k') == 'fn' else None
        k_ = len(cells) // 3
        cells['G:%s[%d].text' % (table, k_)] = fs(('str', name)) if name is not None else fs(0)
        cells['G:%s[%d].fun' % (table, k_)] = fs(('fn', fnm))
        cells['G:%s[%d].flush' % (table, k_)] = fs(('fn', r[2].get('v')[2:])) if len(r) > 2 and r[2].get('k') == 'fn' else fs(0)
        if len(r) > 2 and r[2].get('k') == 'fn':
            flushers.add(r[2].get('v')[2:])
        if name is None:
            other = fnm
        else:
            verbs.setdefault(name.lower(), fnm)
    if other is None or len(verbs) < 3:
        raise AnalysisBroken('%s[]: no catch-all entry' % table)
    some = sorted(verbs)
    v1, v2 = some[0], some[-1]
    lines = [(v1.upper() + ' 1\r\n', verbs[v1], b'1'), (v1 + '  2\n', verbs[v1], b'2'), ('\n', other, b''), ('\r\n', other, b''), (v1[:1] + ' 1\n', other, b'1'),
             (v1[:-1] + '\n', other, b''), (v1 + 'x\n', other, b''), (v2.capitalize() + '\r\n', verbs[v2], b''), (v2 + ' x y\n', verbs[v2], b'x y'), (' ' + v2 + '\n', other, v2.encode()),
             (v1 + '\r\r\n', other, b'')]
    bad = {}
    calls_seen = 0
    for text, want_fn, want_arg in lines:
        data = text.encode('latin-1')
        calls = []

        class CH(SAConc, Conc):
            over = None

            def prim_substdio_get(self, E, x, args):
                k = _one(E.get('$k')) or 0
                p, n = _one(args[1]), _one(args[2])
                if k >= len(data) or n != 1 or not isinstance(p, tuple):
                    return [Outcome(ret=fs(0))]
                return [Outcome(ret=fs(1), sets={p[1]: fs(data[k] - 256 if data[k] >= 128 else data[k]), '$k': fs(k + 1)})]

            def materialize(self, E, path):
                if '.s[' in path and self.over is None:
                    CH.over = (path, E.trace.list())
                return fs(0) if '.s[' in path else Conc.materialize(self, E, path)

            def materialize_split(self, E, path):
                return None
        for h_ in set(verbs.values()) | {other}:
            def mk(h_):
                def prim(self, E, x, args):
                    calls.append((h_, self.cstring(E, _one(args[0])) if args else None))
                    return [Outcome(ret=TOP)]
                return prim
            setattr(CH, 'prim_' + h_, mk(h_))
        for f_ in flushers:
            setattr(CH, 'prim_' + f_, lambda self, E, x, args: [Outcome(ret=TOP)])
        H = CH('commands')
        st_ = {0: fs(('&', 'SSIN')), 1: fs(('&', 'G:%s[0]' % table))}
        st_.update(cells)
        _run_conc(db, rep, prog, fn, st_, 'commands', H)
        calls_seen += len(calls)
        if CH.over is not None:
            bad.setdefault('commands:line-buffer-bounds', ('line %r: %s is read, which no byte of the line was stored into' % (text, CH.over[0].split('::')[-1]), CH.over[1]))
        if calls != [(want_fn, want_arg)]:
            bad.setdefault('commands:whole-verb-selects-the-handler', ('line %r: handlers called %s; documented: %s(%r) (%s)' % (
                text, calls, want_fn, want_arg, 'the catch-all entry: the first word is not a verb of the table' if want_fn == other else 'the entry whose verb equals the first word up to case'), []))
    if not calls_seen and not bad:
        raise AnalysisBroken('commands(): no handler call explored')
    out = {}
    for k in ('commands:whole-verb-selects-the-handler', 'commands:line-buffer-bounds'):
        out[k] = (k not in bad, 'commands.c:commands', bad[k][0] if k in bad else '%d scripted lines against %s[]' % (len(lines), table), bad[k][1] if k in bad else [])
    return out


# =============================================================================== rules decided under another property
def borrow(ctx, modname, rules):
    """runs another property's rule file on the same program database and hands back the instances of the named rules:
    {rule/instance: (ok, where, detail, path)} - for clauses two properties share (the deciding code stays in one place)"""
    import importlib
    from qv.report import Report
    sub = Report(modname, ctx.tier)
    class C2:
        pass
    c2 = C2()
    c2.__dict__.update(ctx.__dict__)
    c2.report = sub
    c2.deep = ctx.deep
    try:
        importlib.import_module('rules.' + modname).run(c2)
    except AnalysisBroken:
        if not sub.violations:
            raise
    ctx.report.count_states(sub.states, sub.transitions)
    paths = {(v['rule'], v['instance']): v['path'] for v in sub.violations}
    out = {}
    for r in sub.rules:
        if r.name in rules:
            for inst, ok, where, detail in r.instances:
                out['%s/%s' % (r.name, inst)] = (ok, where, detail, paths.get((r.name, inst), []))
    if not out:
        raise AnalysisBroken('%s: rules %s produced no instance' % (modname, sorted(rules)))
    return out


# =============================================================================== fmtqfn(): the name of a queue file
def fmtqfn_sites(db, rep, prog):
    """fmtqfn(s, dir, id, split) on concrete message numbers up to 2^64-1: the name is dir + (id mod auto_split as computed in
    the width of a message number) + "/" + id in decimal, NUL-terminated, and its length is what the sizing call announced"""
    fn = db.fn('fmtqfn.c', 'fmtqfn')
    split = 23
    bad = None
    n = 0
    for ident in (0, 1, 22, 23, 1000, 2 ** 31 + 5, 2 ** 32 - 1, 2 ** 32, 2 ** 32 + 12, 3 * 2 ** 32 + 7, 2 ** 63 + 11, 2 ** 64 - 1):
        for d, fl in ((b'mess/', 1), (b'info/', 1), (b'todo/', 0), (b'intd/', 0)):
            want = d + (str(ident % split).encode() + b'/' if fl else b'') + str(ident).encode() + b'\0'
            res = []
            for sized in (False, True):
                H = type('FQ', (SAConc, Conc), {})('fmtqfn')
                st = {0: fs(0) if sized else fs(('&', 'OUT[0]')), 1: fs(('&', 'DIR[0]')), 2: fs(ident), 3: fs(fl), 'G:auto_split': fs(split)}
                st.update(conc_string_cells('DIR', d))
                _run_conc(db, rep, prog, fn, st, 'fmtqfn', H)
                n += 1
                if len(H.ends) != 1:
                    raise AnalysisBroken('fmtqfn: %d ends for id %d' % (len(H.ends), ident))
                end, val, tr = H.ends[0]
                got = bytes((one(end.get('OUT[%d]' % k)) or 0) & 255 for k in range(len(want))) if not sized else None
                res.append((one(val), got))
            if (res[0] != (len(want), want) or res[1][0] != len(want)) and bad is None:
                bad = 'fmtqfn(%r, %d, split=%d) with auto_split = %d writes %r (length %s, announced %s); documented: %r - the bucket is the message number modulo the split, taken on the whole number' % (
                    d.decode(), ident, fl, split, res[0][1], res[0][0], res[1][0], want)
    return {'fmtqfn:name=dir+(id-mod-split)+id-for-64-bit-message-numbers': (bad is None, 'fmtqfn.c:fmtqfn', bad or '%d runs, message numbers up to 2^64-1' % n, [])}
