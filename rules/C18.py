"""C18 — helpers at trust boundaries act only on validated requests.

1. qmail-clean: the request loop is explored path-sensitively with the request modelled as
   a buffer of lazily materialised bytes (every byte value) and every request length in a
   small-scope set; at each unlink the accumulated path facts must prove: no answer given
   yet, 7 <= len <= 100, NUL-terminated, bytes 5..len-2 all digits, scan_ulong of offset 5
   succeeded, keyword bytes 0..4 spell foop/ or todo/, name = allowed prefix + that id.
   Exactly one respond() per request; no 'x' after an unlink.
2. literal/length agreement lint, repo-wide.
3. spawn.c docmd: bytes of messid reaching open_read are digits, '/' (not first) or NUL;
   spawn() needs S_IFREG and st_uid == auto_uidq; d[delnum] guarded by range checks; one
   err() or one slot marked used per command.
4. qmail-send del_dochan: range/in-use guard before any state change; REPORTMAX clamp.
"""
from qv.core import AnalysisBroken
from qv.esp import Engine, Outcome, TOP, fs
from qv.lib import QHooks, cond_matches

BYTE = frozenset(range(256))
CHARS = frozenset(range(-128, 128))      # plain char is signed on this target
DIGITS = frozenset(range(48, 58))
CLASSES = [frozenset([0]), DIGITS, frozenset([47]), frozenset(range(1, 47)), frozenset(range(58, 128)), frozenset(range(-128, 0))]
LENS = [0, 1, 5, 6, 7, 8, 9, 10, 11, 12, 99, 100, 101, 102]
ALLOWED = {'foop/': [('intd/', 0), ('mess/', 1)], 'todo/': [('intd/', 0), ('todo/', 0)]}


from rules import libtab


class CleanHooks(QHooks):
    tracked = frozenset(['G:line'])
    precise = frozenset(['L:i'])
    no_inline = frozenset(['cleanuppid', 'respond'])

    def __init__(self):
        self.sites = {}
        self.unlinks = 0
        self.responds = 0
        self.requests = 0

    def site(self, inst, x, ok, detail, E):
        prev = self.sites.get(inst)
        if prev is None or (prev[0] and not ok):
            self.sites[inst] = (ok, x.where if x is not None else 'qmail-clean.c:main', detail, E.trace.list() if not ok else [])
        if not ok:
            E.kill()

    def g(self, E, k, d=0):
        v = E.get(k)
        return next(iter(v)) if v else d

    def materialize(self, E, path):
        if path == 'G:line.s':
            return fs(('&', 'G:line.s[0]'))      # so that a pointer walking the request indexes the same bytes
        return TOP

    def materialize_split(self, E, path):
        if path.startswith('G:line.s['):
            # long requests exist to exercise the length rule: digit-only id there; every byte
            # value at every position for the short ones, as a partition (the state splits per class, so a
            # local copy of the byte stays correlated with it)
            n = self.g(E, 'G:line.len', 0)
            k = int(path[len('G:line.s['):-1])
            if n > 12 and 6 <= k < n - 1:
                return [DIGITS]
            return CLASSES
        return None

    def end_request(self, E, x):
        if self.g(E, '$inreq'):
            n = self.g(E, '$resp')
            self.site('exactly-one-status-byte-per-request', x, n == 1,
                      'a request is answered with %d status bytes' % n, E)

    def prim_getln(self, E, x, args):
        self.end_request(E, x)
        self.requests += 1
        mp = None
        if args[2] is not TOP and len(args[2]) == 1:
            (a,) = args[2]
            if isinstance(a, tuple) and a[0] == '&':
                mp = a[1]
        if mp is None or x.args[1].strip().args[0].path() != 'G:line':
            raise AnalysisBroken('qmail-clean: getln call shape changed: %s' % x.src())
        sep = x.args[3].const
        base = {'$resp': fs(0), '$unl': fs(0), '$inreq': fs(0), '$scan': fs(0), '$name': fs(None), '$seq': fs(()), '$unlfail': fs(0)}

        def fresh(E2):
            for p in [p for p in E2.store if p.startswith('G:line.s[')]:
                del E2.store[p]
        outs = [Outcome(ret=fs(-1), sets=dict(base), apply=fresh),
                Outcome(ret=fs(0), sets=dict(base, **{mp: fs(0)}), apply=fresh)]
        for n in LENS:
            if n == 0:
                continue
            st = dict(base, **{mp: fs(1), 'G:line.len': fs(n), '$inreq': fs(1)})
            # getln with separator NUL and match: the last byte is the separator
            def app(E2, n=n):
                fresh(E2)
                if sep == 0:
                    E2.set('G:line.s[%d]' % (n - 1), fs(0))
            outs.append(Outcome(ret=fs(0), sets=st, apply=app, log='request of %d bytes' % n))
        return outs

    def prim_memcmp(self, E, x, args):
        a0 = x.args[0].path()
        lit = x.args[1].string
        n = x.args[2].const
        if a0 != 'G:line.s' or lit is None or n is None:
            return [Outcome(ret=fs(0)), Outcome(ret=fs(1))]
        outs = [Outcome(ret=fs(1))]
        sets = {}
        feasible = True
        for k in range(min(n, len(lit) + 1)):
            b = ord(lit[k]) if k < len(lit) else 0
            cur = E.get('G:line.s[%d]' % k)
            if cur is not TOP and b not in cur:
                feasible = False
            sets['G:line.s[%d]' % k] = fs(b)
        if feasible:
            outs.append(Outcome(ret=fs(0), sets=sets, log='keyword bytes 0..%d equal %r' % (n - 1, lit[:n])))
        return outs

    def prim_scan_ulong(self, E, x, args):
        a = x.args[0].strip()
        off = None
        if a.k == 'bin' and a.op == '+' and a.args[0].path() == 'G:line.s':
            off = a.args[1].const
        elif a.path() == 'G:line.s':
            off = 0
        idp = None
        if args[1] is not TOP and len(args[1]) == 1:
            (v,) = args[1]
            if isinstance(v, tuple) and v[0] == '&':
                idp = v[1]
        st = {'$scan': fs(('ok', off, idp))}
        if idp:
            st[idp] = fs(('reqid', off))
        return [Outcome(ret=fs(0), sets={'$scan': fs(0)}, havoc=()),
                Outcome(ret=fs(1), sets=st)]

    def prim_fmtqfn(self, E, x, args):
        from qv.lib import lit_of
        buf = x.args[0].path()
        lit = lit_of(E, x.args[1])
        idv = args[2]
        idtok = next(iter(idv)) if idv is not TOP and len(idv) == 1 else None
        flag = x.args[3].const
        if flag is None and args[3] is not TOP and len(args[3]) == 1:
            flag = next(iter(args[3]))
        E.set('$name', fs((buf, lit, flag, idtok)))
        return [Outcome(ret=TOP)]

    def prim_unlink(self, E, x, args):
        self.unlinks += 1
        n = self.g(E, 'G:line.len', None)
        self.site('no-unlink-after-an-answer', x, self.g(E, '$resp') == 0,
                  'unlink after the request was already answered (%d status bytes sent)' % self.g(E, '$resp'), E)
        ok_len = isinstance(n, int) and 7 <= n <= 100
        self.site('unlink-needs-7<=len<=100', x, ok_len, 'unlink reachable with request length %s' % n, E)
        if isinstance(n, int) and n >= 1:
            last = E.get('G:line.s[%d]' % (n - 1))
            self.site('unlink-needs-NUL-terminated-request', x, last == fs(0), 'request not known to end in NUL', E)
            bad = [k for k in range(5, n - 1) if not (E.get('G:line.s[%d]' % k) is not TOP and E.get('G:line.s[%d]' % k) <= DIGITS)]
            self.site('unlink-needs-all-digits-5..len-2', x, not bad,
                      'byte(s) %s of the id are not proven to be digits on this path (len %d); values %s' %
                      (bad[:4], n, sorted(E.get('G:line.s[%d]' % bad[0]) or [])[:6] if bad else ''), E)
            kw = ''
            for k in range(5):
                v = E.get('G:line.s[%d]' % k)
                kw += chr(next(iter(v))) if v is not TOP and len(v) == 1 and next(iter(v)) >= 0 else '?'
            self.site('unlink-needs-5-byte-keyword', x, kw in ALLOWED, 'keyword bytes on this path: %r' % kw, E)
            sc = self.g(E, '$scan')
            nm = self.g(E, '$name', None)
            arg = x.args[0].path()
            ok_name = (nm is not None and nm[0] == arg and kw in ALLOWED and (nm[1], nm[2]) in ALLOWED[kw]
                       and isinstance(sc, tuple) and sc[1] == 5 and nm[3] == ('reqid', 5))
            self.site('unlink-path-is-prefix+validated-id', x, ok_name,
                      'unlink(%s) with name %s under keyword %r, id source %s' % (arg, nm, kw, sc), E)
            # removal order (C02): the k-th successful unlink of a request is the k-th name of the table
            seq = self.g(E, '$seq', ())
            if kw in ALLOWED and nm is not None:
                exp = ALLOWED[kw]
                k = len(seq)
                self.site('removal-order:%s' % kw, x, k < len(exp) and (nm[1], nm[2]) == exp[k],
                          'under %r the unlink attempt number %d names %s%s; documented order is %s' % (kw, k + 1, nm[1], '(split)' if nm[2] else '', [e[0] for e in exp]), E)
            newseq = tuple(seq) + ((nm[1] if nm else '?'),)
        else:
            newseq = self.g(E, '$seq', ())
        return [Outcome(ret=fs(0), sets={'$unl': fs(self.g(E, '$unl') + 1 if self.g(E, '$unl') < 3 else 3), '$seq': fs(newseq)}),
                Outcome(ret=fs(-1), sets={'$unlfail': fs(1), '$seq': fs(newseq)})]

    def prim_respond(self, E, x, args):
        self.responds += 1
        lit = x.args[0].string
        n = self.g(E, '$resp')
        if lit == 'x':
            self.site('rejected-request-changes-nothing', x, self.g(E, '$unl') == 0,
                      'request answered x after %d unlink(s)' % self.g(E, '$unl'), E)
        if lit == '+':
            self.site('plus-only-after-the-whole-removal-sequence', x, len(self.g(E, '$seq', ())) >= 2,
                      'request answered + after only %s' % (list(self.g(E, '$seq', ())),), E)
        E.set('$resp', fs(min(n + 1, 3)))
        E.set('$last', fs(lit))
        return [Outcome(ret=TOP, log='respond(%r)' % lit)]

    def prim_cleanuppid(self, E, x, args):
        return [Outcome(ret=TOP)]

    def on_return(self, E, fn, val):
        self.end_request(E, None)


def lint_literal_lengths(db, rep):
    r = rep.rule('C18.2-literal-length', 'R-SIBLING', 'a comparison of n bytes with a string literal uses n = the literal\'s length (whole repository)')
    CMP = {'memcmp': (0, 1, 2), 'byte_diff': (0, 2, 1), 'strncmp': (0, 1, 2), 'case_diffb': (0, 2, 1), 'strncasecmp': (0, 1, 2)}
    n = 0
    for fn in db.all_functions():
        if fn.sys:
            continue
        for c in fn.calls(tuple(CMP)):
            a, b, ln = CMP[c.callee]
            if max(a, b, ln) >= len(c.args):
                continue
            lit = c.args[b].string if c.args[b] is not None else None
            if lit is None:
                lit = c.args[a].string if c.args[a] is not None else None
            k = c.args[ln].const if c.args[ln] is not None else None
            if lit is None or k is None:
                continue
            n += 1
            via = ('via ' + c.macros[0]) if c.macros else ''
            r.check(k == len(lit) or k == len(lit) + 1, '%s:%s(%r,%d)' % (fn.name, c.callee, lit, k), c.where,
                    'compares %d byte(s) of the %d-byte literal %r %s' % (k, len(lit), lit, via))
    r.expect_min(4)
    return r


class CleanSession(libtab.SAConc, QHooks):
    """qmail-clean main() fed a concrete sequence of requests: which files it unlinks and what it answers"""
    SPLIT = 23

    def __init__(self, requests, fail_at=None):
        self.requests = requests          # list of bytes, each including its terminating NUL (or not, for the last fragment)
        self.fail_at = fail_at            # (request index, unlink number within it, errno): that unlink fails
        self.ends = []

    def tracked_global(self, path):
        return True

    def precise_arith(self, path):
        return True

    def materialize(self, E, path):
        if path == 'G:auto_split':
            return fs(self.SPLIT)
        if path in ('G:error_noent', 'E:error_noent'):
            return fs(2)
        return TOP

    def ev(self, E, e):
        E.set('$ev', fs(tuple(libtab._one(E.get('$ev')) or ()) + (e,)))

    def _ok0(self, E, x, args):
        return [Outcome(ret=fs(0))]

    def _n(self, E, x, args):
        return [Outcome(ret=TOP)]

    prim_chdir = _ok0
    prim_sig_pipeignore = prim_cleanuppid = _n

    def prim_getln(self, E, x, args):
        k = libtab._one(E.get('$k')) or 0
        mp = libtab._one(args[2])
        if not (isinstance(mp, tuple) and mp[0] == '&'):
            raise AnalysisBroken('qmail-clean main: getln() is not handed the address of its match flag')
        if k >= len(self.requests):
            return [Outcome(ret=fs(0), sets={mp[1]: fs(0), '$k': fs(k + 1)}, log='end of input')]
        req = self.requests[k]
        o = self._put(E, x, args[1:2], req, False)[0]
        return [Outcome(ret=fs(0), sets=dict(o.sets, **{mp[1]: fs(1 if req.endswith(b'\0') else 0), '$k': fs(k + 1), '$req': fs(k), '$nunl': fs(0)}), log='request %r' % req)]

    def prim_scan_ulong(self, E, x, args):
        s_ = self.cstring(E, libtab._one(args[0]))
        up = libtab._one(args[1])
        if s_ is None or not (isinstance(up, tuple) and up[0] == '&'):
            return [Outcome(ret=TOP)]
        n = 0
        while n < len(s_) and 48 <= s_[n] <= 57:
            n += 1
        return [Outcome(ret=fs(n), sets={up[1]: fs(int(s_[:n] or b'0') & 0xFFFFFFFFFFFFFFFF)})]

    def prim_fmt_ulong(self, E, x, args):
        from qv.esp import ptr_add
        buf, u = libtab._one(args[0]), libtab._one(args[1])
        if not isinstance(u, int):
            return [Outcome(ret=TOP)]
        digits = b'%d' % (u & 0xFFFFFFFFFFFFFFFF)
        st = {}
        if isinstance(buf, tuple) and buf[0] == '&':
            for k, b_ in enumerate(digits):
                st[ptr_add(buf, k)[1]] = fs(b_)
        return [Outcome(ret=fs(len(digits)), sets=st)]

    def prim_fmtqfn(self, E, x, args):
        from qv.esp import ptr_add
        buf, pre, idv, split = libtab._one(args[0]), self.cstring(E, libtab._one(args[1])), libtab._one(args[2]), libtab._one(args[3])
        if pre is None or not isinstance(idv, int) or not isinstance(split, int) or not (isinstance(buf, tuple) and buf[0] == '&'):
            raise AnalysisBroken('qmail-clean main: fmtqfn() with undetermined arguments')
        name = pre + (b'%d/' % (idv % self.SPLIT) if split else b'') + b'%d' % idv + b'\0'
        st = {}
        for k, b_ in enumerate(name):
            st[ptr_add(buf, k)[1]] = fs(b_)
        return [Outcome(ret=fs(len(name)), sets=st)]

    def prim_unlink(self, E, x, args):
        name = self.cstring(E, libtab._one(args[0]))
        r, k = libtab._one(E.get('$req')), libtab._one(E.get('$nunl')) or 0
        self.ev(E, ('unlink', r, name))
        sets = {'$nunl': fs(k + 1)}
        if self.fail_at is not None and self.fail_at[:2] == (r, k):
            return [Outcome(ret=fs(-1), sets=dict(sets, **{'$errno': fs(self.fail_at[2]), 'G:errno': fs(self.fail_at[2]), 'E:errno': fs(self.fail_at[2])}), log='unlink(%r) fails with errno %d' % (name, self.fail_at[2]))]
        return [Outcome(ret=fs(0), sets=sets)]

    def prim___errno_location(self, E, x, args):
        return [Outcome(ret=fs(('&', '$errno')))]

    def prim_respond(self, E, x, args):
        self.ev(E, ('answer', libtab._one(E.get('$req')), self.cstring(E, libtab._one(args[0]))))
        return [Outcome(ret=TOP)]

    def on_return(self, E, fn, val):
        if fn.name == 'main':
            self.ends.append((tuple(libtab._one(E.get('$ev')) or ()), E.trace.list()))

    def prim__exit(self, E, x, args):
        self.ends.append((tuple(libtab._one(E.get('$ev')) or ()), E.trace.list()))
        return 'noreturn'


def clean_reference(req, fail=None, split=23):
    """qmail-clean(8): (unlinks attempted, answer) for one request (bytes including the terminating NUL)"""
    ok = 7 <= len(req) <= 100 and req.endswith(b'\0') and req[5:-1].isdigit() and req[:5] in (b'foop/', b'todo/')
    # the number named must be one a message can have: it fits the id type (64 bits here) - a request cannot name one message and remove another;
    # written as qmail-send writes it (no leading zeros) or not, it is then that number
    if ok and int(req[5:-1]) >= 2 ** 64:
        return [], b'x'
    if not ok:
        return [], b'x'
    idv = int(req[5:-1])
    names = [b'intd/%d' % idv, (b'mess/%d/%d' % (idv % split, idv)) if req[:5] == b'foop/' else b'todo/%d' % idv]
    if fail is not None and fail[1] != 2:
        return names[:fail[0] + 1], b'!'
    return names, b'+'


def explore_clean(db, rep):
    """concrete sessions: valid and malformed requests, unlink failures; results under the instance names of the clauses"""
    prog = db.program('qmail-clean')
    main = prog.fn('main', 'qmail-clean.c')
    long_ok = b'foop/' + b'1' * 94 + b'\0'            # 100 bytes: the longest request accepted
    reqs = [b'foop/12\0', b'todo/7\0', b'foop/0\0', b'todo/4294967297\0', b'foop/12a4\0', b'foop/a12\0', b'foop/12a\0', b'todoX77\0', b'todo/\0', b'foop/\0', b'foop7\0', b'\0',
            b'foop/18446744073709551617\0', b'todo/18446744073709551616\0', b'todo/18446744073709551615\0', b'foop/99999999999999999999999999\0',
            b'mess/12\0', b'intd/12\0', b'FOOP/12\0', b'foop/12/3\0', b'foop/-1\0', b'foop/ 12\0', b'todo/../12\0', b'foop/' + b'1' * 95 + b'\0', long_ok, b'todo/99\0']
    sessions = [(reqs, None)]
    for k_unl in (0, 1):
        for errno_ in (2, 5):
            sessions.append(([b'foop/12\0', b'todo/7\0'], (0, k_unl, errno_)))
            sessions.append(([b'todo/7\0', b'foop/12\0'], (0, k_unl, errno_)))
    sessions.append(([b'foop/12\0', b'todo/8'], None))          # input ends in the middle of a request
    bad = {}
    n_req = n_unl = 0

    def viol(key, text, tr):
        bad.setdefault(key, (text, tr))
    for rq, fail in sessions:
        H = CleanSession(rq, fail)
        eng = Engine(db, prog, H, max_states=120000)
        eng.run(main, {})
        rep.count_states(eng.states, eng.transitions)
        if len(H.ends) != 1:
            raise AnalysisBroken('qmail-clean main: %d ends for a scripted session of %d requests' % (len(H.ends), len(rq)))
        ev, tr = H.ends[0]
        for k, req in enumerate(rq):
            mine = [e for e in ev if e[1] == k]
            if not req.endswith(b'\0'):
                if mine:
                    viol('rejected-request-changes-nothing', 'the input ends inside the request %r and qmail-clean acts on it: %s' % (req, mine), tr)
                continue
            n_req += 1
            f_ = (fail[1], fail[2]) if fail is not None and fail[0] == k else None
            wunl, wans = clean_reference(req, f_)
            unl = [e[2] for e in mine if e[0] == 'unlink']
            ans = [e[2] for e in mine if e[0] == 'answer']
            n_unl += len(unl)
            what = 'request %r%s: ' % (req, (' (unlink number %d fails with errno %d)' % (f_[0] + 1, f_[1])) if f_ else '')
            if len(ans) != 1 or len(ans[0] or b'') != 1:
                viol('exactly-one-status-byte-per-request', what + 'answers %s' % ans, tr)
                continue
            if mine and mine[-1][0] != 'answer':
                viol('no-unlink-after-an-answer', what + 'the sequence is %s' % [(e[0], e[2]) for e in mine], tr)
            if wans == b'x':
                if unl:
                    key = ('unlink-needs-7<=len<=100' if not 7 <= len(req) <= 100 else 'unlink-needs-NUL-terminated-request' if not req.endswith(b'\0') else
                           'unlink-needs-all-digits-5..len-2' if not req[5:-1].isdigit() else
                           'unlink-only-for-the-number-named(fits-the-id-type)' if int(req[5:-1]) >= 2 ** 64 else 'unlink-needs-5-byte-keyword')
                    viol(key, what + 'qmail-clean unlinks %s; a request that does not name a message number after "foop/" or "todo/" must change nothing' % unl, tr)
                elif ans[0] != b'x':
                    viol('rejected-request-changes-nothing', what + 'the answer is %r, documented "x"' % ans[0], tr)
                continue
            if unl != wunl:
                if sorted(unl) == sorted(wunl):
                    viol('removal-order:%s' % req[:5].decode(), what + 'unlinks %s; documented order %s' % (unl, wunl), tr)
                elif unl[:len(wunl)] == wunl or wunl[:len(unl)] == unl:
                    viol('plus-only-after-the-whole-removal-sequence', what + 'unlinks %s; documented %s' % (unl, wunl), tr)
                else:
                    viol('unlink-path-is-prefix+validated-id', what + 'unlinks %s; documented %s' % (unl, wunl), tr)
            if ans[0] != wans:
                viol('plus-only-after-the-whole-removal-sequence', what + 'the answer is %r after unlinking %s; documented %r' % (ans[0], unl, wans), tr)
    if n_req < 30 or n_unl < 20:
        if not bad:
            raise AnalysisBroken('qmail-clean main: %d requests / %d unlinks explored' % (n_req, n_unl))

    class R:
        pass
    H = R()
    H.sites = {}
    for k in ('exactly-one-status-byte-per-request', 'no-unlink-after-an-answer', 'plus-only-after-the-whole-removal-sequence', 'rejected-request-changes-nothing',
              'removal-order:foop/', 'removal-order:todo/', 'unlink-needs-5-byte-keyword', 'unlink-needs-7<=len<=100', 'unlink-needs-NUL-terminated-request',
              'unlink-needs-all-digits-5..len-2', 'unlink-path-is-prefix+validated-id', 'unlink-only-for-the-number-named(fits-the-id-type)'):
        H.sites[k] = (k not in bad, 'qmail-clean.c:main', bad[k][0] if k in bad else '%d requests, %d unlinks' % (n_req, n_unl), bad[k][1] if k in bad else [])
    H.n_req, H.n_unl = n_req, n_unl

    class Eng:
        states = 0
    return H, Eng()


def run(ctx):
    db, rep = ctx.db, ctx.report
    # ---------- 1. qmail-clean
    prog = db.program('qmail-clean')
    main = prog.fn('main', 'qmail-clean.c')
    r1 = rep.rule('C18.1-clean-validation', 'R-TYPESTATE',
                  'qmail-clean: every unlink is preceded on its path by the full validation of the request; one answer per request; nothing changes for a rejected request')
    H, eng = explore_clean(db, rep)
    for inst, (ok, where, detail, path) in sorted(H.sites.items()):
        if inst.startswith('removal-order:') or inst.startswith('plus-only-after'):
            continue        # removal order is a clause of C02, reported there
        r1.check(ok, inst, where, detail, path)
    r1.expect_min(7)
    r1.note(requests_explored=H.n_req, unlinks_explored=H.n_unl)
    rep.sample({'qmail-clean request model': 'concrete sessions: valid requests, 16 kinds of malformed requests, the boundary lengths, unlink failures (ENOENT and EIO) at each position, input ending inside a request'})

    # ---------- 2. literal lengths
    lint_literal_lengths(db, rep)

    # ---------- 3. spawn.c docmd
    from rules import C18_spawn
    C18_spawn.run(ctx)
    r6 = rep.rule('C18.6-child-output', 'R-BOUND', 'the spawners\' report(): of a delivery program\'s output only the len bytes it wrote are relayed, cut at the first NUL - bytes behind a NUL (or behind the output) can never become a second report with a delivery number of the child\'s choosing')
    from rules import C20 as _c20r
    for inst_, v_ in sorted(_c20r.report_read_sites(db, rep).items()):
        r6.check(v_[0], inst_, v_[1], v_[2], v_[3])
    r6.expect_min(2)
    r7 = rep.rule('C18.7-file-names', 'R-TABLE', 'fmtqfn(): the path qmail-clean unlinks for a validated request is dir/(id mod split)/id of exactly the number named, for message numbers up to 2^64-1 (the bucket is computed on the whole number)')
    from rules import libtab as _ltq
    for inst_, v_ in sorted(_ltq.fmtqfn_sites(db, rep, db.program('qmail-clean')).items()):
        r7.check(v_[0], inst_, v_[1], v_[2], v_[3])
    r7.expect_min(1)
    rep.assume('getln(...,&match,0) with match set returns a buffer whose last byte is the separator',
               'memcmp/scan_ulong/fmtqfn have their documented meaning', 'plain char is signed (x86-64 Linux)')
