"""C18 — helpers at trust boundaries act only on validated requests.

1. qmail-clean: the request loop is explored path-sensitively with the request modelled as
   a buffer of lazily materialised bytes (every byte value) and every request length in a
   small-scope set; at each unlink the accumulated path facts must prove: no answer given
   yet, 7 <= len <= 100, NUL-terminated, bytes 5..len-2 all digits, scan_ulong of offset 5
   succeeded, keyword bytes 0..4 spell foop/ or todo/, name = allowed prefix + that id.
   Exactly one respond() per request; no 'x' after an unlink.
2. literal/length agreement lint, repo-wide.
3. spawn.c docmd: bytes of messid reaching open_read are digits, '/' (not first) or NUL;
   spawn() needs S_IFREG and st_uid == auto_uidq; d[delnum] guarded by range checks; one
   err() or one slot marked used per command.
4. qmail-send del_dochan: range/in-use guard before any state change; REPORTMAX clamp.
"""
from qv.core import AnalysisBroken
from qv.esp import Engine, Outcome, TOP, fs
from qv.lib import QHooks, cond_matches

BYTE = frozenset(range(256))
CHARS = frozenset(range(-128, 128))      # plain char is signed on this target
DIGITS = frozenset(range(48, 58))
CLASSES = [frozenset([0]), DIGITS, frozenset([47]), frozenset(range(1, 47)), frozenset(range(58, 128)), frozenset(range(-128, 0))]
LENS = [0, 1, 5, 6, 7, 8, 9, 10, 11, 12, 99, 100, 101, 102]
ALLOWED = {'foop/': [('intd/', 0), ('mess/', 1)], 'todo/': [('intd/', 0), ('todo/', 0)]}


class CleanHooks(QHooks):
    tracked = frozenset(['G:line'])
    precise = frozenset(['L:i'])
    no_inline = frozenset(['cleanuppid', 'respond'])

    def __init__(self):
        self.sites = {}
        self.unlinks = 0
        self.responds = 0
        self.requests = 0

    def site(self, inst, x, ok, detail, E):
        prev = self.sites.get(inst)
        if prev is None or (prev[0] and not ok):
            self.sites[inst] = (ok, x.where if x is not None else 'qmail-clean.c:main', detail, E.trace.list() if not ok else [])
        if not ok:
            E.kill()

    def g(self, E, k, d=0):
        v = E.get(k)
        return next(iter(v)) if v else d

    def materialize(self, E, path):
        if path == 'G:line.s':
            return fs(('&', 'G:line.s[0]'))      # so that a pointer walking the request indexes the same bytes
        return TOP

    def materialize_split(self, E, path):
        if path.startswith('G:line.s['):
            # long requests exist to exercise the length rule: digit-only id there; every byte
            # value at every position for the short ones, as a partition (the state splits per class, so a
            # local copy of the byte stays correlated with it)
            n = self.g(E, 'G:line.len', 0)
            k = int(path[len('G:line.s['):-1])
            if n > 12 and 6 <= k < n - 1:
                return [DIGITS]
            return CLASSES
        return None

    def end_request(self, E, x):
        if self.g(E, '$inreq'):
            n = self.g(E, '$resp')
            self.site('exactly-one-status-byte-per-request', x, n == 1,
                      'a request is answered with %d status bytes' % n, E)

    def prim_getln(self, E, x, args):
        self.end_request(E, x)
        self.requests += 1
        mp = None
        if args[2] is not TOP and len(args[2]) == 1:
            (a,) = args[2]
            if isinstance(a, tuple) and a[0] == '&':
                mp = a[1]
        if mp is None or x.args[1].strip().args[0].path() != 'G:line':
            raise AnalysisBroken('qmail-clean: getln call shape changed: %s' % x.src())
        sep = x.args[3].const
        base = {'$resp': fs(0), '$unl': fs(0), '$inreq': fs(0), '$scan': fs(0), '$name': fs(None), '$seq': fs(()), '$unlfail': fs(0)}

        def fresh(E2):
            for p in [p for p in E2.store if p.startswith('G:line.s[')]:
                del E2.store[p]
        outs = [Outcome(ret=fs(-1), sets=dict(base), apply=fresh),
                Outcome(ret=fs(0), sets=dict(base, **{mp: fs(0)}), apply=fresh)]
        for n in LENS:
            if n == 0:
                continue
            st = dict(base, **{mp: fs(1), 'G:line.len': fs(n), '$inreq': fs(1)})
            # getln with separator NUL and match: the last byte is the separator
            def app(E2, n=n):
                fresh(E2)
                if sep == 0:
                    E2.set('G:line.s[%d]' % (n - 1), fs(0))
            outs.append(Outcome(ret=fs(0), sets=st, apply=app, log='request of %d bytes' % n))
        return outs

    def prim_memcmp(self, E, x, args):
        a0 = x.args[0].path()
        lit = x.args[1].string
        n = x.args[2].const
        if a0 != 'G:line.s' or lit is None or n is None:
            return [Outcome(ret=fs(0)), Outcome(ret=fs(1))]
        outs = [Outcome(ret=fs(1))]
        sets = {}
        feasible = True
        for k in range(min(n, len(lit) + 1)):
            b = ord(lit[k]) if k < len(lit) else 0
            cur = E.get('G:line.s[%d]' % k)
            if cur is not TOP and b not in cur:
                feasible = False
            sets['G:line.s[%d]' % k] = fs(b)
        if feasible:
            outs.append(Outcome(ret=fs(0), sets=sets, log='keyword bytes 0..%d equal %r' % (n - 1, lit[:n])))
        return outs

    def prim_scan_ulong(self, E, x, args):
        a = x.args[0].strip()
        off = None
        if a.k == 'bin' and a.op == '+' and a.args[0].path() == 'G:line.s':
            off = a.args[1].const
        elif a.path() == 'G:line.s':
            off = 0
        idp = None
        if args[1] is not TOP and len(args[1]) == 1:
            (v,) = args[1]
            if isinstance(v, tuple) and v[0] == '&':
                idp = v[1]
        st = {'$scan': fs(('ok', off, idp))}
        if idp:
            st[idp] = fs(('reqid', off))
        return [Outcome(ret=fs(0), sets={'$scan': fs(0)}, havoc=()),
                Outcome(ret=fs(1), sets=st)]

    def prim_fmtqfn(self, E, x, args):
        from qv.lib import lit_of
        buf = x.args[0].path()
        lit = lit_of(E, x.args[1])
        idv = args[2]
        idtok = next(iter(idv)) if idv is not TOP and len(idv) == 1 else None
        flag = x.args[3].const
        if flag is None and args[3] is not TOP and len(args[3]) == 1:
            flag = next(iter(args[3]))
        E.set('$name', fs((buf, lit, flag, idtok)))
        return [Outcome(ret=TOP)]

    def prim_unlink(self, E, x, args):
        self.unlinks += 1
        n = self.g(E, 'G:line.len', None)
        self.site('no-unlink-after-an-answer', x, self.g(E, '$resp') == 0,
                  'unlink after the request was already answered (%d status bytes sent)' % self.g(E, '$resp'), E)
        ok_len = isinstance(n, int) and 7 <= n <= 100
        self.site('unlink-needs-7<=len<=100', x, ok_len, 'unlink reachable with request length %s' % n, E)
        if isinstance(n, int) and n >= 1:
            last = E.get('G:line.s[%d]' % (n - 1))
            self.site('unlink-needs-NUL-terminated-request', x, last == fs(0), 'request not known to end in NUL', E)
            bad = [k for k in range(5, n - 1) if not (E.get('G:line.s[%d]' % k) is not TOP and E.get('G:line.s[%d]' % k) <= DIGITS)]
            self.site('unlink-needs-all-digits-5..len-2', x, not bad,
                      'byte(s) %s of the id are not proven to be digits on this path (len %d); values %s' %
                      (bad[:4], n, sorted(E.get('G:line.s[%d]' % bad[0]) or [])[:6] if bad else ''), E)
            kw = ''
            for k in range(5):
                v = E.get('G:line.s[%d]' % k)
                kw += chr(next(iter(v))) if v is not TOP and len(v) == 1 and next(iter(v)) >= 0 else '?'
            self.site('unlink-needs-5-byte-keyword', x, kw in ALLOWED, 'keyword bytes on this path: %r' % kw, E)
            sc = self.g(E, '$scan')
            nm = self.g(E, '$name', None)
            arg = x.args[0].path()
            ok_name = (nm is not None and nm[0] == arg and kw in ALLOWED and (nm[1], nm[2]) in ALLOWED[kw]
                       and isinstance(sc, tuple) and sc[1] == 5 and nm[3] == ('reqid', 5))
            self.site('unlink-path-is-prefix+validated-id', x, ok_name,
                      'unlink(%s) with name %s under keyword %r, id source %s' % (arg, nm, kw, sc), E)
            # removal order (C02): the k-th successful unlink of a request is the k-th name of the table
            seq = self.g(E, '$seq', ())
            if kw in ALLOWED and nm is not None:
                exp = ALLOWED[kw]
                k = len(seq)
                self.site('removal-order:%s' % kw, x, k < len(exp) and (nm[1], nm[2]) == exp[k],
                          'under %r the unlink attempt number %d names %s%s; documented order is %s' % (kw, k + 1, nm[1], '(split)' if nm[2] else '', [e[0] for e in exp]), E)
            newseq = tuple(seq) + ((nm[1] if nm else '?'),)
        else:
            newseq = self.g(E, '$seq', ())
        return [Outcome(ret=fs(0), sets={'$unl': fs(self.g(E, '$unl') + 1 if self.g(E, '$unl') < 3 else 3), '$seq': fs(newseq)}),
                Outcome(ret=fs(-1), sets={'$unlfail': fs(1), '$seq': fs(newseq)})]

    def prim_respond(self, E, x, args):
        self.responds += 1
        lit = x.args[0].string
        n = self.g(E, '$resp')
        if lit == 'x':
            self.site('rejected-request-changes-nothing', x, self.g(E, '$unl') == 0,
                      'request answered x after %d unlink(s)' % self.g(E, '$unl'), E)
        if lit == '+':
            self.site('plus-only-after-the-whole-removal-sequence', x, len(self.g(E, '$seq', ())) >= 2,
                      'request answered + after only %s' % (list(self.g(E, '$seq', ())),), E)
        E.set('$resp', fs(min(n + 1, 3)))
        E.set('$last', fs(lit))
        return [Outcome(ret=TOP, log='respond(%r)' % lit)]

    def prim_cleanuppid(self, E, x, args):
        return [Outcome(ret=TOP)]

    def on_return(self, E, fn, val):
        self.end_request(E, None)


def lint_literal_lengths(db, rep):
    r = rep.rule('C18.2-literal-length', 'R-SIBLING', 'a comparison of n bytes with a string literal uses n = the literal\'s length (whole repository)')
    CMP = {'memcmp': (0, 1, 2), 'byte_diff': (0, 2, 1), 'strncmp': (0, 1, 2), 'case_diffb': (0, 2, 1), 'strncasecmp': (0, 1, 2)}
    n = 0
    for fn in db.all_functions():
        if fn.sys:
            continue
        for c in fn.calls(tuple(CMP)):
            a, b, ln = CMP[c.callee]
            if max(a, b, ln) >= len(c.args):
                continue
            lit = c.args[b].string if c.args[b] is not None else None
            if lit is None:
                lit = c.args[a].string if c.args[a] is not None else None
            k = c.args[ln].const if c.args[ln] is not None else None
            if lit is None or k is None:
                continue
            n += 1
            via = ('via ' + c.macros[0]) if c.macros else ''
            r.check(k == len(lit) or k == len(lit) + 1, '%s:%s(%r,%d)' % (fn.name, c.callee, lit, k), c.where,
                    'compares %d byte(s) of the %d-byte literal %r %s' % (k, len(lit), lit, via))
    r.expect_min(4)
    return r


def explore_clean(db, rep):
    prog = db.program('qmail-clean')
    main = prog.fn('main', 'qmail-clean.c')
    H = CleanHooks()
    eng = Engine(db, prog, H, max_states=600000)
    eng.run(main)
    rep.count_states(eng.states, eng.transitions)
    if H.unlinks < 4 or H.responds < 5 or H.requests < 1:
        raise AnalysisBroken('qmail-clean main: expected unlink/respond/getln sites not found (%d/%d/%d)' % (H.unlinks, H.responds, H.requests))
    return H, eng


def run(ctx):
    db, rep = ctx.db, ctx.report
    # ---------- 1. qmail-clean
    prog = db.program('qmail-clean')
    main = prog.fn('main', 'qmail-clean.c')
    r1 = rep.rule('C18.1-clean-validation', 'R-TYPESTATE',
                  'qmail-clean: every unlink is preceded on its path by the full validation of the request; one answer per request; nothing changes for a rejected request')
    H, eng = explore_clean(db, rep)
    for inst, (ok, where, detail, path) in sorted(H.sites.items()):
        if inst.startswith('removal-order:') or inst.startswith('plus-only-after'):
            continue        # removal order is a clause of C02, reported there
        r1.check(ok, inst, where, detail, path)
    r1.expect_min(7)
    r1.note(request_lengths_explored=LENS, byte_values_per_position=256, abstract_states=eng.states)
    rep.sample({'qmail-clean request model': 'lengths %s, every byte value per position, keyword via memcmp outcomes' % LENS})

    # ---------- 2. literal lengths
    lint_literal_lengths(db, rep)

    # ---------- 3. spawn.c docmd
    from rules import C18_spawn
    C18_spawn.run(ctx)
    rep.assume('getln(...,&match,0) with match set returns a buffer whose last byte is the separator',
               'memcmp/scan_ulong/fmtqfn have their documented meaning', 'plain char is signed (x86-64 Linux)')
