"""C06 — outbound SMTP DATA cannot be terminated or hijacked by message content.

blast() in qmail-remote.c touches the message byte only through comparisons with
'.', CR and LF, so over the alphabet {CR, LF, DOT, other} its input/output relation is a
finite transducer.  The ESP engine explores that transducer from the CFG (every path,
every byte class); the bytes it emits are pushed through an RFC 5321 receiver automaton
and the decoded stream is compared, symbol by symbol with bounded lag, with the
canonical line structure of the input.  Decided for all byte strings, not sampled.
"""
from qv.core import AnalysisBroken
from qv.esp import Engine, Outcome, TOP, fs
from qv.lib import QHooks
from qv import stream as S

# a bare CR in the input is a line break for this encoder (unit test test_blast_barecr); the
# property itself only fixes "original line contents", so a decoded bare CR is accepted as well
CRNL = frozenset(['NL', S.CR])


class BlastHooks(QHooks):
    inline_names = frozenset()
    generic_results = True

    def __init__(self):
        self.cmp = S.Cmp()
        self.bad = {}       # instance -> (where, detail, trace)
        self.reads = 0
        self.puts = 0
        self.returns = 0
        self.partial_exits = 0
        self.edges = set()

    def fail(self, E, inst, x, detail):
        if inst not in self.bad:
            self.bad[inst] = (x.where if x is not None else 'qmail-remote.c:blast', detail, E.trace.list())
        E.kill()

    def g(self, E, k, d):
        v = E.get(k)
        return next(iter(v)) if v else d

    # input side: canonical line structure
    def ref_input(self, E, x, sym):
        """sym in CR/LF/DOT/x/EOF"""
        pend = self.g(E, '$incr', 0)
        out = []
        if pend:
            if sym == S.LF:
                out.append('NL')
                E.set('$incr', fs(0))
                E.set('$inline', fs(0))
                return self._ref(E, x, out)
            out.append(CRNL)      # bare CR
            E.set('$incr', fs(0))
            E.set('$inline', fs(0))
        if sym == S.CR:
            E.set('$incr', fs(1))
        elif sym == S.LF:
            out.append('NL')
            E.set('$inline', fs(0))
        elif sym == 'EOF':
            pass
        else:
            out.append(sym)
            E.set('$inline', fs(1))
        return self._ref(E, x, out)

    def _ref(self, E, x, out):
        m = self.cmp.emit(E, 'ref', out)
        if m:
            self.fail(E, 'decoded-lines-equal-input-lines', x, m)

    def prim_substdio_get(self, E, x, args):
        self.reads += 1
        tgt = args[1]
        chp = None
        if tgt is not TOP and len(tgt) == 1:
            (a,) = tgt
            if isinstance(a, tuple) and a[0] == '&':
                chp = a[1]
        if chp is None or x.args[2].const != 1 or x.args[0].strip().args[0].path() != 'G:ssin':
            raise AnalysisBroken('blast(): unexpected read %s' % x.src())
        outs = [Outcome(ret=fs(-1), log='read error')]
        if self.g(E, '$eof', 0):
            outs.append(Outcome(ret=fs(0), log='EOF again'))
            return outs
        outs.append(Outcome(ret=fs(0), sets={'$eof': fs(1)}, log='input: EOF',
                            apply=lambda E2: self.ref_input(E2, x, 'EOF')))
        for name, vals in S.CLASSES:
            outs.append(Outcome(ret=fs(1), sets={chp: vals}, log='input: %s' % name,
                                apply=lambda E2, name=name: self.ref_input(E2, x, name)))
        return outs

    def emit_wire(self, E, x, syms):
        st = self.g(E, '$rx', 'BOL')
        for s in syms:
            st2, dec, err = S.rfc_receiver(st, s)
            self.edges.add((st, s, st2))
            if err:
                self.fail(E, 'wire-stream-safe:' + err.split(':')[0].split('(')[0].strip().replace(' ', '-'), x, err)
            if st2 == 'END' and not self.g(E, '$final', 0):
                self.fail(E, 'end-of-data-only-at-the-end', x,
                          'CR LF . CR LF appears on the wire before the final dot: message content ends the DATA phase early')
            m = self.cmp.emit(E, 'impl', dec)
            if m:
                self.fail(E, 'decoded-lines-equal-input-lines', x, m)
            st = st2
        E.set('$rx', fs(st))

    def prim_substdio_put(self, E, x, args):
        self.puts += 1
        if x.args[0].strip().args[0].path() != 'G:smtpto':
            return None
        lit = x.args[1].string
        n = x.args[2].const
        if lit is not None:
            if n is None or n > len(lit):
                raise AnalysisBroken('blast(): put of literal with non-constant or oversized length')
            data = lit[:n]
            if data == '.\r\n' and self.g(E, '$eof', 0):
                E.set('$final', fs(1))
                if not self.cmp.empty(E) or self.g(E, '$incr', 0):
                    # flush a CR pending at EOF
                    pass
            self.emit_wire(E, x, S.sym_of_bytes(data))
        else:
            a = x.args[1].strip()
            if not (a.k == 'un' and a.op == '&' and n == 1):
                raise AnalysisBroken('blast(): cannot model output %s' % x.src())
            p = E.canon(a.args[0])
            cls = S.classify(E.get(p))
            if cls is None:
                self.fail(E, 'output-byte-is-an-input-byte', x, 'emits a byte that is not the byte just read')
                return [Outcome(ret=TOP)]
            self.emit_wire(E, x, [cls])
        return [Outcome(ret=TOP)]

    def prim_substdio_flush(self, E, x, args):
        E.set('$flushed', fs(1))
        return [Outcome(ret=TOP)]

    def on_assign(self, E, x, path, val):
        if path == self.critflag:
            E.set('$crit', val if val is not TOP else fs(-1))

    def prim_perm_partialline(self, E, x, args):
        return 'noreturn'

    def prim_temp_read(self, E, x, args):
        return 'noreturn'

    def on_exit(self, E, x):
        name = x.callee
        if name == 'perm_partialline':
            self.partial_exits += 1
            # legitimate only when the input ended inside a line
            if not (self.g(E, '$eof', 0) and self.g(E, '$inline', 0)):
                self.fail(E, 'partial-line-exit-only-on-unterminated-last-line', x,
                          'perm_partialline() reached although the input did not end inside a line')

    def on_return(self, E, fn, val):
        self.returns += 1
        # flush a pending bare CR at EOF in the reference
        if self.g(E, '$incr', 0):
            self.ref_input(E, None, 'EOF')
        ok_end = self.g(E, '$rx', 'BOL') == 'END' and self.g(E, '$final', 0) == 1
        if not ok_end:
            self.fail(E, 'end-of-data-exactly-once-at-the-end', None,
                      'blast() returns with the receiver in state %s' % self.g(E, '$rx', 'BOL'))
        if not self.cmp.empty(E):
            self.fail(E, 'decoded-lines-equal-input-lines', None, 'at return: %s' % self.cmp.describe(E))
        if self.g(E, '$inline', 0):
            self.fail(E, 'unterminated-last-line-refused', None, 'blast() returns although the input ended inside a line')
        if not self.g(E, '$flushed', 0):
            self.fail(E, 'final-dot-flushed', None, 'no substdio_flush(&smtpto) after the final dot')
        if self.g(E, '$crit', 0) != 1:
            self.fail(E, 'flagcritical-set-before-final-dot', None, 'flagcritical is not 1 when blast() returns')


def critical_flag(prog, dr):
    """the global whose being non-zero guards the "Possible duplicate" text of dropped() (possibly inside a helper)"""
    from qv.lib import branch_zero_test, _cmp_parts, deep_calls, guards_through
    for f, c in deep_calls(prog, dr, 'out'):
        if c.args[0].string and 'duplicate' in c.args[0].string.lower():
            for cc, t in guards_through(prog, dr, f, c):
                if branch_zero_test(cc, t, lambda v: (v.path() or '').startswith('G:')) == 'nonzero':
                    return _cmp_parts(cc)[0].path()
    # the warning may be guarded by a local copy of the flag: then the flag is the one global that blast() sets to 1 and
    # smtp() clears to 0 (its effect on dropped()'s text is decided by exploration in C09.dropped_sites either way)
    def consts(fname, value):
        f_ = prog.resolve(fname, 'qmail-remote.c')
        out = set()
        for x in (f_.all_x() if f_ is not None else ()):
            if x.k == 'asg' and x.op == '=' and x.args[1] is not None and x.args[1].const == value and (x.args[0].path() or '').startswith('G:'):
                out.add(x.args[0].path())
        return out
    cand = consts('blast', 1) & consts('smtp', 0)
    return next(iter(cand)) if len(cand) == 1 else None


def encoder_sites(db, rep):
    """qmail-remote blast() against the RFC 5321 receiver: instance -> (ok, where, detail, path); shared with C05 (round trip)"""
    prog = db.program('qmail-remote')
    blast = prog.fn('blast', 'qmail-remote.c')
    H = BlastHooks()
    dr = prog.fn('dropped', 'qmail-remote.c')
    H.critflag = critical_flag(prog, dr)
    if H.critflag is None:
        raise AnalysisBroken('dropped(): the flag guarding the duplicate warning was not identified')
    eng = Engine(db, prog, H)
    eng.run(blast)
    rep.count_states(eng.states, eng.transitions)
    if not H.bad and (H.reads < 2 or H.puts < 3 or H.returns == 0):
        raise AnalysisBroken('blast(): expected reads/puts/returns not found (%d/%d/%d)' % (H.reads, H.puts, H.returns))
    insts = ['end-of-data-only-at-the-end', 'end-of-data-exactly-once-at-the-end', 'decoded-lines-equal-input-lines',
             'wire-stream-safe:bare-LF-on-the-wire', 'wire-stream-safe:un-stuffed-dot-at-the-start-of-a-wire-line',
             'unterminated-last-line-refused', 'partial-line-exit-only-on-unterminated-last-line']
    out = {}
    for i in insts:
        if i in H.bad:
            w, d, t = H.bad[i]
            out[i] = (False, w, d, t)
        else:
            out[i] = (True, 'qmail-remote.c:blast', '', [])
    return out



def run(ctx):
    db, rep = ctx.db, ctx.report
    prog = db.program('qmail-remote')
    blast = prog.fn('blast', 'qmail-remote.c')
    r = rep.rule('C06.1-encoder-safety', 'R-TRANSDUCER',
                 'for every input over {CR,LF,DOT,other}: no bare LF on the wire, CRLF.CRLF only as the final terminator, '
                 'an RFC 5321 receiver decodes exactly the input lines, unterminated last line refused')
    H = BlastHooks()
    # the flag that guards the "Possible duplicate" warning in dropped()
    from qv.lib import branch_zero_test, _cmp_parts
    dr = prog.fn('dropped', 'qmail-remote.c')
    H.critflag = critical_flag(prog, dr)
    if H.critflag is None:
        raise AnalysisBroken('dropped(): the flag guarding the duplicate warning was not identified')
    eng = Engine(db, prog, H)
    eng.run(blast)
    rep.count_states(eng.states, eng.transitions)
    if not H.bad and (H.reads < 2 or H.puts < 3 or H.returns == 0):
        raise AnalysisBroken('blast(): expected reads/puts/returns not found (%d/%d/%d)' % (H.reads, H.puts, H.returns))
    insts = ['end-of-data-only-at-the-end', 'end-of-data-exactly-once-at-the-end', 'decoded-lines-equal-input-lines',
             'wire-stream-safe:bare-LF-on-the-wire', 'wire-stream-safe:un-stuffed-dot-at-the-start-of-a-wire-line',
             'unterminated-last-line-refused', 'partial-line-exit-only-on-unterminated-last-line',
             'final-dot-flushed', 'flagcritical-set-before-final-dot', 'output-byte-is-an-input-byte']
    for i in insts:
        if i in H.bad:
            w, d, t = H.bad[i]
            r.bad(i, w, d, t)
        else:
            r.ok(i, 'qmail-remote.c:blast')
    for i in H.bad:
        if i not in insts:
            w, d, t = H.bad[i]
            r.bad(i, w, d, t)
    r.note(abstract_states=eng.states, receiver_edges_exercised=len(H.edges), exhaustive=True)
    rep.exhaustive_rules.append('C06.1-encoder-safety')
    rep.sample({'receiver edges exercised by the extracted encoder': sorted('%s --%s--> %s' % e for e in H.edges)})
    rep.notes['states'] = eng.states
    rep.notes['transitions'] = eng.transitions

    # the byte is only compared, never computed with (exactness of the class abstraction)
    r2 = rep.rule('C06.2-abstraction-exact', 'R-GUARD', 'blast() uses the message byte only in comparisons with constants and as output')
    from qv.lib import unit_callees
    n = 0
    for f in unit_callees(prog, blast):
        if f.name in ('temp_read', 'perm_partialline', 'out', 'zerodie', 'outhost', 'temp_nomem'):
            continue
        users = {}
        for y in f.all_x():
            for a in y.args:
                if a is not None:
                    users.setdefault(a.id, []).append(y)
        for x in f.all_x():
            if not (x.k == 'cast' and x.op == 'LValueToRValue' and x.type in ('char', 'unsigned char') and x.args[0].var and x.args[0].var[:2] in ('L:', 'P:')):
                continue
            n += 1
            ok = True
            work = [x]
            while work:
                u = work.pop()
                for uu in users.get(u.id, []):
                    if uu.k == 'cast':
                        work.append(uu)
                    elif uu.k == 'bin' and uu.op in ('==', '!=') and (uu.args[0].const is not None or uu.args[1].const is not None):
                        pass
                    elif uu.k == 'call' or uu.k == 'decl' or (uu.k == 'asg' and uu.op == '='):
                        pass        # handed on unchanged (argument, copy)
                    else:
                        ok = False
            r2.check(ok, 'byte-only-compared-or-copied:%s:%s@%d' % (f.name, x.args[0].var.split('#')[0], n), x.where, 'message byte used other than in ==/!= with a constant, as an argument or in a copy')
    r2.expect_min(3)
    r3 = rep.rule('C06.3-short-writes', 'R-BOUND', 'substdo.c allwrite: after a short write exactly the unwritten remainder is written next (linear symbolic check of the buffer and length arguments over three iterations), so nothing but the encoded stream reaches the socket')
    from rules import shortwrite
    for inst, v in sorted(shortwrite.allwrite_sites(db, rep).items()):
        r3.check(v[0], 'allwrite:' + inst, v[1], v[2], v[3])
    # the write operation of every output substdio object of qmail-remote.c (found through the objects' initialisers)
    ops = set()
    for gname, g in db.unit('qmail-remote.c').globals.items():
        if 'substdio' not in g.get('t', ''):
            continue
        flat = []

        def walk(v):
            if isinstance(v, dict):
                if v.get('k') == 'fn':
                    flat.append(v['v'][2:])
                elif v.get('k') == 'list':
                    for e_ in v['v']:
                        walk(e_)
        walk(g.get('init'))
        for f_ in flat:
            fo = prog.resolve(f_, 'qmail-remote.c')
            if fo is not None and fo.blocks and fo.unit == 'qmail-remote.c' and any(c_.callee in ('timeoutwrite', 'write') for c_ in fo.calls()):
                ops.add(f_)
    if not ops:
        raise AnalysisBroken('qmail-remote.c: no output substdio with a write operation defined in the unit')
    for op in sorted(ops):
        for inst, v in sorted(shortwrite.writeop_sites(db, rep, prog, 'qmail-remote.c', op).items()):
            r3.check(v[0], inst, v[1], v[2], v[3])
    r3.expect_min(3)
    r4 = rep.rule('C06.4-message-read-side', 'R-TABLE', 'substdio_get/substdio_feed under blast(): a read error is -1 (never end of file), a short read is moved to the end of the buffer intact (byte_copyr on overlapping regions), so the encoder sees exactly the bytes of the queue file')
    # "a conforming receiver - including this package's own server - reconstructs exactly the lines": the receiving decoder (C05 rule 1)
    from rules import C05 as _c05
    dsites_, _, _ = _c05.decoder_sites(db, rep)
    for inst_, v_ in sorted(dsites_.items()):
        r4.check(v_[0], 'own-server:' + inst_, v_[1], v_[2], v_[3])
    # message content goes on the wire only after the server accepted DATA: the client's action per DATA reply class (C09 rule 1)
    from rules import C09 as _c09
    for inst_, v_ in sorted(_c09.smtp_verdict_explore(db, rep).sites.items()):
        if inst_.startswith('verdict:data') or inst_ in ('blast-only-after-DATA-accepted', 'DATA-needs-an-accepted-recipient', 'one-action-per-reply'):
            r4.check(v_[0], 'client:' + inst_, v_[1], v_[2], v_[3])
    from rules import libtab
    for f_ in (libtab.substdio_read_sites, libtab.byte_copyr_sites):
        for inst, v in sorted(f_(db, rep, prog).items()):
            r4.check(v[0], inst, v[1], v[2], v[3])
    r4.expect_min(4)
    r5 = rep.rule('C06.5-reply-framing-and-critical-window', 'R-TRANSDUCER', 'smtpcode() ends a reply exactly at the LF of its last line, however long the reply (a reply cut short or overrun makes every later answer belong to the wrong command - the body would follow a refused DATA); dropped() warns of a possible duplicate exactly when the connection is lost after the final dot went out (decided by C09.4\'s explorations)')
    for inst_, v_ in sorted(_c09.reply_framing_sites(db, rep).items()):
        r5.check(v_[0], inst_, v_[1], v_[2], v_[3])
    for inst_, v_ in sorted(_c09.dropped_sites(db, rep).items()):
        r5.check(v_[0], inst_, v_[1], v_[2], v_[3])
    r5.expect_min(3)
    rep.assume('substdio_put(&smtpto,...) sends bytes in order',
               'receiver model: RFC 5321 section 4.5.2 (CRLF line ends, leading dot removed, CRLF.CRLF ends the data)')
