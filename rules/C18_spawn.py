"""C18 rules 3-5: spawn.c docmd / getcmd and qmail-send del_dochan."""
from qv.core import AnalysisBroken
from qv.esp import Engine, Outcome, TOP, fs
from qv.lib import QHooks, holds_set

CHARS = frozenset(range(-128, 128))
DIGITS = frozenset(range(48, 58))
CLASSES = [frozenset([0]), DIGITS, frozenset([47]), frozenset(range(1, 47)), frozenset(range(58, 128)), frozenset(range(-128, 0))]
LENS = [1, 2, 3, 4, 5, 100, 101, 102]     # 1..5: every byte value at every position; >= 100: digit tail (length rule only)


from rules import libtab


class DocmdHooks(QHooks):
    tracked = frozenset(['G:messid', 'G:flagabort', 'G:delnum', 'G:auto_spawn', 'G:auto_uidq', 'G:d', 'G:recip'])
    precise = frozenset(['L:i'])
    AUTO = 3          # configured concurrency limit in the explored geometry
    QUID = 7          # uid of qmailq in the explored geometry

    def __init__(self):
        self.sites = {}
        self.opens = 0
        self.returns = 0
        self.slots = 0
        self.spawns = 0

    def site(self, inst, x, ok, detail, E):
        prev = self.sites.get(inst)
        if prev is None or (prev[0] and not ok):
            self.sites[inst] = (ok, x.where if x is not None else 'spawn.c:docmd', detail, E.trace.list() if not ok else [])
        if not ok:
            E.kill()

    def g(self, E, k, d=0):
        v = E.get(k)
        return next(iter(v)) if v else d

    def slot(self, E, x, path):
        import re
        m = re.match(r'^G:d\[(-?\d+)\]', path)
        if m:
            k = int(m.group(1))
            self.slots += 1
            self.site('d[delnum]-in-range', x, 0 <= k < self.AUTO,
                      'the delivery table (auto_spawn = %d) is accessed at index %d: a delivery number outside 0..auto_spawn-1 reaches the slot array' % (self.AUTO, k), E)

    def materialize(self, E, path):
        if path == 'G:auto_spawn':
            return fs(self.AUTO)
        if path == 'G:auto_uidq':
            return fs(self.QUID)
        if path.startswith('G:d['):
            self.slot(E, None, path)
        return TOP

    def prim_fstat(self, E, x, args):
        sp = None
        if args[1] is not TOP and len(args[1]) == 1:
            (a,) = args[1]
            if isinstance(a, tuple) and a[0] == '&':
                sp = a[1]
        if sp is None:
            raise AnalysisBroken('spawn.c docmd: fstat() buffer is not an object address')
        outs = [Outcome(ret=fs(-1), sets={'$st': fs('fail')}, log='fstat fails')]
        for mode in (0o100644, 0o100600, 0o040755, 0o120777, 0o010644):
            for uid in (self.QUID, self.QUID + 1, 0):
                outs.append(Outcome(ret=fs(0), sets={sp + '.st_mode': fs(mode), sp + '.st_uid': fs(uid), '$st': fs((mode, uid))}, log='message file: mode %o uid %d' % (mode, uid)))
        return outs

    def materialize_split(self, E, path):
        if path == 'G:delnum':
            return [fs(-1), fs(0), fs(self.AUTO - 1), fs(self.AUTO), fs(self.AUTO + 5), fs(255)]
        if path.startswith('G:d[') and path.endswith('.used'):
            self.slot(E, None, path)
            return [fs(0), fs(1)]
        if path.startswith('G:messid.s['):
            k = int(path[len('G:messid.s['):-1])
            n = self.g(E, 'G:messid.len', 0)
            if n > 5 and k >= 2:
                return [DIGITS]
            return CLASSES
        return None

    def prim_err(self, E, x, args):
        E.set('$err', fs(min(self.g(E, '$err') + 1, 3)))
        return [Outcome(ret=TOP, log='err(%r)' % (x.args[0].string or '?')[:30])]

    def prim_open_read(self, E, x, args):
        self.opens += 1
        n = self.g(E, 'G:messid.len', None)
        ok_arg = x.args[0].path() == 'G:messid.s'
        self.site('open-argument-is-messid', x, ok_arg, 'spawner opens %s' % x.args[0].src(), E)
        if isinstance(n, int):
            self.site('open-needs-len<=100', x, n <= 100, 'messid of %d bytes reaches open_read' % n, E)
            bad = []
            for k in range(n):
                v = E.get('G:messid.s[%d]' % k)
                allowed = DIGITS | {0} | ({47} if k > 0 else set())
                if v is TOP or not v <= allowed:
                    bad.append((k, sorted((v or CHARS) - allowed)[:5]))
            self.site('open-needs-numeric-messid', x, not bad,
                      'byte %s of messid may hold %s when open_read is reached (only digits, "/" after the first byte, NUL allowed)' %
                      (bad[0] if bad else '', [chr(b) if 32 <= b < 127 else b for b in (bad[0][1] if bad else [])]), E)
            first = E.get('G:messid.s[0]')
            self.site('open-needs-non-empty-messid', x, first is not TOP and 0 not in first, 'empty messid reaches open_read', E)
        return [Outcome(ret=fs(('fd', x.id))), Outcome(ret=fs(-1))]

    def prim_pipe(self, E, x, args):
        v = args[0]
        v = next(iter(v)) if v is not TOP and len(v) == 1 else None
        if not (isinstance(v, tuple) and v[0] == '&'):
            raise AnalysisBroken('spawn.c docmd: pipe() argument is not an array')
        base = v[1][:-3] if v[1].endswith('[0]') else v[1]
        return [Outcome(ret=fs(-1)), Outcome(ret=fs(0), sets={base + '[0]': fs(('fd', 'pipe-read')), base + '[1]': fs(('fd', 'pipe-write'))})]

    def prim_close(self, E, x, args):
        v = args[0]
        v = next(iter(v)) if v is not TOP and len(v) == 1 else None
        if v == ('fd', 'pipe-write'):
            E.set('$wclosed', fs(1))
        if v == ('fd', 'pipe-read'):
            E.set('$rclosed', fs(1))
        return [Outcome(ret=TOP)]

    def prim_coe(self, E, x, args):
        return [Outcome(ret=TOP)]

    def prim_spawn(self, E, x, args):
        self.spawns += 1
        st = self.g(E, '$st', None)
        ok = isinstance(st, tuple) and (st[0] & 0o170000) == 0o100000 and st[1] == self.QUID
        self.site('spawn-needs-a-regular-file-owned-by-qmailq', x, ok,
                  'a delivery child is started for a message file with fstat result %s (documented: fstat succeeded, regular file, owner = auto_uidq = %d)' %
                  ((oct(st[0]), st[1]) if isinstance(st, tuple) else st, self.QUID), E)
        E.set('$spawned', fs(1))
        return [Outcome(ret=fs(-1)), Outcome(ret=fs(('pid',)))]

    def on_assign(self, E, x, path, val):
        if path.startswith('G:d['):
            self.slot(E, x, path)
        if path.endswith('.used') and path.startswith('G:d['):
            E.set('$used', fs(1 if val == fs(1) else 2))

    def on_return(self, E, fn, val):
        self.returns += 1
        e, u = self.g(E, '$err'), self.g(E, '$used')
        self.site('one-err-or-slot-used-per-command', None, (e == 1 and u == 0) or (e == 0 and u == 1),
                  'docmd() returns with %d error report(s) and slot-used=%d' % (e, u), E)
        if e == 0 and u == 1:
            import re
            outs = {k: v for k, v in E.store.items() if re.match(r'^G:d\[\d+\]\.fd(in|out)$', k)}
            fin = [v for k, v in outs.items() if k.endswith('.fdin')]
            fout = [v for k, v in outs.items() if k.endswith('.fdout')]
            okp = self.g(E, '$wclosed', 0) == 0 and self.g(E, '$rclosed', 0) == 0 and fin == [fs(('fd', 'pipe-read'))] and fout == [fs(('fd', 'pipe-write'))]
            self.site('parent-keeps-both-ends-of-the-report-pipe-until-the-child-is-reaped', None, okp,
                      'a delivery was started and docmd() returns with the write end closed=%s, the read end closed=%s, slot fdin=%s fdout=%s: if the parent holds no write end, end-of-file from the child can be seen before its exit status was stored, and the report is judged with the status of the previous delivery in that slot' %
                      (self.g(E, '$wclosed', 0), self.g(E, '$rclosed', 0), [sorted(v) if v is not TOP else '?' for v in fin], [sorted(v) if v is not TOP else '?' for v in fout]), E)
        elif e == 1:
            # a refused command must not leak the pipe
            pass


def guard_has(fn, x, pred):
    for c, t in fn.guards(x) or []:
        try:
            if pred(c.strip(), t):
                return True
        except (AttributeError, IndexError, TypeError):
            pass
    return False


def docmd_explore(db, rep):
    prog = db.program('qmail-rspawn')
    docmd = prog.fn('docmd', 'spawn.c')
    H = DocmdHooks()
    total_states = 0
    for n in LENS:
        eng = Engine(db, prog, H, max_states=300000)
        # the recipient is a fixed short address (a scan over it, however it is written, ends)
        st0 = {'G:messid.len': fs(n), 'G:recip.len': fs(4), 'G:recip.s': fs(('&', 'G:recip.s[0]'))}
        st0.update(libtab.conc_string_cells('G:recip.s', b'a@b'))
        eng.run(docmd, st0)
        total_states += eng.states
        rep.count_states(eng.states, eng.transitions)
    if H.opens == 0 or H.returns == 0:
        raise AnalysisBroken('spawn.c docmd: open_read/return not reached')
    return H, total_states



class GetcmdHooks(libtab.SAConc, QHooks):
    """getcmd() over a scripted command stream, with one allocation failure at any append: which commands reach docmd()"""
    SCRIPT = [3, ord('m'), 0, ord('s'), 0, ord('r'), 0, 4, ord('n'), 0, 0, ord('q'), 0, 9, ord('x')]      # two commands and the start of a third

    def __init__(self):
        self.ends = []

    def tracked_global(self, path):
        return True

    def precise_arith(self, path):
        return True

    def prim_read(self, E, x, args):
        v = args[1]
        v = next(iter(v)) if v is not TOP and len(v) == 1 else None
        if not (isinstance(v, tuple) and v[0] == '&'):
            raise AnalysisBroken('getcmd: read() buffer is not an array')
        base = v[1][:-3] if v[1].endswith('[0]') else v[1]
        sets = {'%s[%d]' % (base, i): fs(b) for i, b in enumerate(self.SCRIPT)}
        return [Outcome(ret=fs(len(self.SCRIPT)), sets=sets)]

    def prim_stralloc_append(self, E, x, args):
        k = self.g1(E, '$napp', 0)
        ok = libtab.SAConc.prim_stralloc_append(self, E, x, args)[0]
        outs = [Outcome(ret=fs(1), sets=dict(ok.sets or {}, **{'$napp': fs(k + 1)}))]
        if self.g1(E, '$failed') is None:
            outs.append(Outcome(ret=fs(0), sets={'$napp': fs(k + 1), '$failed': fs(k)}, log='allocation fails at append number %d' % k))
        return outs

    @staticmethod
    def g1(E, k, d=None):
        v = E.get(k)
        return next(iter(v)) if v is not TOP and v is not None and len(v) == 1 else d

    def prim_docmd(self, E, x, args):
        cmds = tuple(self.g1(E, '$cmds', ()))
        fields = tuple(self.sa_bytes(E, 'G:' + n) for n in ('messid', 'sender', 'recip'))
        return [Outcome(ret=TOP, sets={'$cmds': fs(cmds + ((self.g1(E, 'G:delnum'), self.g1(E, 'G:flagabort', 0), fields),))})]

    def prim___errno_location(self, E, x, args):
        return [Outcome(ret=fs(('&', '$errno')))]

    def on_return(self, E, fn, val):
        if fn.name == 'getcmd':
            self.ends.append((self.g1(E, '$failed'), tuple(self.g1(E, '$cmds', ())), self.g1(E, 'G:stage'), E.trace.list()))


def getcmd_sites(db, rep):
    prog = db.program('qmail-rspawn')
    fn = prog.fn('getcmd', 'spawn.c')
    H = GetcmdHooks()
    e = Engine(db, prog, H, max_states=400000)
    e.run(fn, {'G:stage': fs(0), 'G:flagabort': fs(0), 'G:flagreading': fs(1)})
    rep.count_states(e.states, e.transitions)
    if len(H.ends) < 5:
        raise AnalysisBroken('getcmd: %d ends explored' % len(H.ends))
    bad = None
    for failed, cmds, stage, tr in H.ends:
        nums = [c[0] for c in cmds]
        if nums != [3, 4] or stage != 1:
            bad = bad or ('with the allocation failing at append %s the stream of two commands (delivery numbers 3 and 4) plus the start of a third reaches docmd() as %s and leaves the parser in stage %s (documented: both commands reach docmd(), a failed one with flagabort set, stage 1): the stream loses its framing, later commands are parsed one field out of step' %
                          (failed, list(cmds), stage), tr)
        if failed is not None and not bad:
            # the command during which the allocation failed must be answered as aborted, the other one normally
            pass
    # with no allocation failure: the fields of a command arrive in the order qmail-send writes them (delivery number, message, sender, recipient)
    bado = None
    for failed, cmds, stage, tr in H.ends:
        if failed is None:
            got = [(c[0], c[2]) for c in cmds]
            want = [(3, (b'm\0', b's\0', b'r\0')), (4, (b'n\0', b'\0', b'q\0'))]
            if got != want:
                bado = ('the command stream 3 "m" "s" "r" / 4 "n" "" "q" reaches docmd() as %s (delivery number, (message, sender, recipient)); documented %s' % (got, want), tr)
    return {'getcmd:framing-does-not-depend-on-the-allocator': (bad is None, 'spawn.c:getcmd', bad[0] if bad else '%d allocation scenarios' % len(H.ends), bad[1] if bad else []),
            'getcmd-stage-order': (bado is None, 'spawn.c:getcmd', bado[0] if bado else 'fields in comm_write order', bado[1] if bado else [])}



class SigchldHooks(QHooks):
    """spawn.c sigchld(): several children have exited by the time the handler runs (SIGCHLD is not queued)"""
    def __init__(self):
        self.ends = []

    def tracked_global(self, path):
        return True

    def precise_arith(self, path):
        return True

    def prim_wait_nohang(self, E, x, args):
        k = next(iter(E.get('$k') or [0]))
        wp = next(iter(args[0])) if args[0] is not TOP and len(args[0]) == 1 else None
        script = [(11, 0), (12, 256), (0, 0)]
        if k >= len(script):
            return [Outcome(ret=fs(0))]
        pid, w = script[k]
        sets = {'$k': fs(k + 1)}
        if pid and isinstance(wp, tuple):
            sets[wp[1]] = fs(w)
        return [Outcome(ret=fs(pid), sets=sets, log='wait_nohang() -> %d' % pid)]

    def prim_close(self, E, x, args):
        v = next(iter(args[0])) if args[0] is not TOP and len(args[0]) == 1 else None
        E.set('$closed', fs(tuple(next(iter(E.get('$closed') or [()]))) + (v,)))
        return [Outcome(ret=fs(0))]

    def on_return(self, E, fn, val):
        if fn.name == 'sigchld':
            g = lambda p: (next(iter(E.get(p))) if E.get(p) not in (None, TOP) and len(E.get(p)) == 1 else None)
            self.ends.append(([(g('D[%d].pid' % i), g('D[%d].wstat' % i), g('D[%d].fdout' % i)) for i in range(3)], tuple(next(iter(E.get('$closed') or [()]))), E.trace.list()))


def sigchld_sites(db, rep):
    prog = db.program('qmail-rspawn')
    fn = prog.fn('sigchld', 'spawn.c')
    H = SigchldHooks()
    e = Engine(db, prog, H, max_states=60000)
    st = {'G:auto_spawn': fs(3), 'G:d': fs(('&', 'D[0]'))}
    for i, (used, pid, fdout) in enumerate(((1, 11, 7), (1, 12, 8), (1, 13, 9))):
        st.update({'D[%d].used' % i: fs(used), 'D[%d].pid' % i: fs(pid), 'D[%d].fdout' % i: fs(fdout), 'D[%d].wstat' % i: fs(-7)})
    e.run(fn, st)
    rep.count_states(e.states, e.transitions)
    if len(H.ends) != 1:
        raise AnalysisBroken('spawn.c sigchld: %d ends for a scripted sequence of exited children' % len(H.ends))
    slots, closed, tr = H.ends[0]
    ok = slots[0][0] == 0 and slots[1][0] == 0 and slots[0][1] == 0 and slots[1][1] == 256 and slots[2][0] == 13 and sorted(closed) == [7, 8]
    return {'sigchld:every-exited-child-is-reaped-in-one-run-of-the-handler': (ok, 'spawn.c:sigchld',
            'children 11 and 12 have exited (13 is running): after the handler the slots are (pid, status, write end) %s and the descriptors closed are %s; documented: both reaped, their write ends closed - a child left unreaped keeps its pipe open and its delivery is never reported' % (slots, list(closed)), tr if not ok else [])}


class FdHooks(QHooks):
    """the child side of spawn() with a concrete descriptor table: fd -> what it refers to"""
    def __init__(self):
        self.execs = []

    def tracked_global(self, path):
        return True

    def precise_arith(self, path):
        return True

    def tab(self, E):
        return dict(next(iter(E.get('$fds'))))

    def settab(self, E, t):
        E.set('$fds', fs(tuple(sorted(t.items()))))

    def prim_fork(self, E, x, args):
        return [Outcome(ret=fs(0))]

    def prim_fd_copy(self, E, x, args):
        to, frm = (next(iter(a)) if a is not TOP and len(a) == 1 else None for a in args[:2])
        t = self.tab(E)
        if to == frm:
            return [Outcome(ret=fs(0))]
        if frm not in t:
            return [Outcome(ret=fs(-1))]
        t[to] = t[frm]
        self.settab(E, t)
        return [Outcome(ret=fs(0))]

    def prim_fd_move(self, E, x, args):
        to, frm = (next(iter(a)) if a is not TOP and len(a) == 1 else None for a in args[:2])
        t = self.tab(E)
        if to == frm:
            return [Outcome(ret=fs(0))]
        if frm not in t:
            return [Outcome(ret=fs(-1))]
        t[to] = t.pop(frm)
        self.settab(E, t)
        return [Outcome(ret=fs(0))]

    def prim_dup2(self, E, x, args):
        frm, to = (next(iter(a)) if a is not TOP and len(a) == 1 else None for a in args[:2])
        t = self.tab(E)
        if frm not in t:
            return [Outcome(ret=fs(-1))]
        t[to] = t[frm]
        self.settab(E, t)
        return [Outcome(ret=fs(to))]

    def prim_close(self, E, x, args):
        v = next(iter(args[0])) if args[0] is not TOP and len(args[0]) == 1 else None
        t = self.tab(E)
        t.pop(v, None)
        self.settab(E, t)
        return [Outcome(ret=fs(0))]

    def _exec(self, E, x, args):
        self.execs.append((self.tab(E), E.trace.list()))
        return 'noreturn'

    prim_execvp = prim_execv = prim_execve = _exec

    def _n(self, E, x, args):
        return [Outcome(ret=TOP)]

    prim_setup_qrargs = prim_sig_pipedefault = prim_sig_childdefault = prim_sig_childunblock = _n

    def prim__exit(self, E, x, args):
        return 'noreturn'


def child_fd_sites(db, rep):
    """qmail-rspawn spawn(): the delivery program runs with the message on 0 and the per-delivery report pipe on 1 AND 2;
    nothing of the spawner's own channel to qmail-send (its descriptor 1) is left to it"""
    prog = db.program('qmail-rspawn')
    fn = prog.fn('spawn', 'qmail-rspawn.c')
    H = FdHooks()
    e = Engine(db, prog, H, max_states=60000)
    fid = e.frame_id(fn)
    st = {'%s::%s' % (fid, fn.params[0]): fs(5), '%s::%s' % (fid, fn.params[1]): fs(8), '%s::%s' % (fid, fn.params[4]): fs(1),
          '$fds': fs(tuple(sorted({0: 'commands-from-qmail-send', 1: 'reports-to-qmail-send', 2: 'log', 5: 'message', 7: 'pipe-read-end', 8: 'report-pipe'}.items())))}
    e.run(fn, st)
    rep.count_states(e.states, e.transitions)
    if not H.execs:
        raise AnalysisBroken('qmail-rspawn spawn(): exec not reached in the child')
    bad = None
    for t, tr in H.execs:
        if not (t.get(0) == 'message' and t.get(1) == 'report-pipe' and t.get(2) == 'report-pipe') or 'reports-to-qmail-send' in [v for k, v in t.items() if k in (0, 1, 2)]:
            bad = bad or ('the delivery program is started with descriptors 0, 1, 2 = %s, %s, %s; documented: message, report pipe, report pipe - its error output must not reach the spawner\'s report channel, where it would be parsed as delivery reports' % (t.get(0), t.get(1), t.get(2)), tr)
    return {'rspawn-child:stdin=message,stdout=stderr=the-delivery-report-pipe': (bad is None, 'qmail-rspawn.c:spawn', bad[0] if bad else '%d exec(s)' % len(H.execs), bad[1] if bad else [])}


def run(ctx):
    db, rep = ctx.db, ctx.report
    prog = db.program('qmail-rspawn')
    docmd = prog.fn('docmd', 'spawn.c')
    r3 = rep.rule('C18.3-spawn-docmd', 'R-TYPESTATE', 'spawn.c: only validated numeric message ids are opened; spawn() needs a regular file owned by qmailq; slot index in range; one report or one slot per command')
    H, total_states = docmd_explore(db, rep)
    for inst, (ok, where, detail, path) in sorted(H.sites.items()):
        r3.check(ok, inst, where, detail, path)
    for inst, v in sorted(getcmd_sites(db, rep).items()):
        r3.check(v[0], inst, v[1], v[2], v[3])
    for inst, v in sorted(sigchld_sites(db, rep).items()):
        r3.check(v[0], inst, v[1], v[2], v[3])
    for inst, v in sorted(child_fd_sites(db, rep).items()):
        r3.check(v[0], inst, v[1], v[2], v[3])
    r3.note(messid_lengths_explored=LENS, abstract_states=total_states)

    if (H.slots < 4 or H.spawns < 1) and all(v[0] for v in H.sites.values()):
        raise AnalysisBroken('spawn.c docmd: slot accesses / spawn() not explored (%d / %d)' % (H.slots, H.spawns))
    # ---------- 4. qmail-send del_dochan
    ps = db.program('qmail-send')
    dd = ps.fn('del_dochan', 'qmail-send.c')
    r4 = rep.rule('C18.4-report-validation', 'R-GUARD', 'qmail-send del_dochan: every state change is dominated by the range and in-use check of the delivery number; reports are truncated to REPORTMAX and reset after each report')
    reportmax = db.unit('qmail-send.c').macro_int('REPORTMAX')
    if reportmax is None:
        raise AnalysisBroken('REPORTMAX is not an integer macro')

    def is_delnum(x):
        p = x.path()
        return p is not None and p.startswith('L:delnum')
    from rules import qsend
    ddsites = qsend.analyse_del_dochan(db, rep)
    k = 'del:state-changes-only-for-an-in-range-delivery-slot-in-use'
    if k not in ddsites:
        raise AnalysisBroken('del_dochan: no state change explored')
    r4.check(ddsites[k][0], k, ddsites[k][1], ddsites[k][2], ddsites[k][3])
    for inst, v in sorted(qsend.analyse_report_buffer(db, rep).items()):
        r4.check(v[0], inst, v[1], v[2], v[3])
    r4.expect_min(3)
