"""C15 — retry schedule (gating, bookkeeping and heap index arithmetic; the numerical
exactness of squareroot and the heap order as a property of values are not decided)."""
from qv.core import AnalysisBroken
from qv.esp import Engine, Env, TOP, fs
from qv.lib import QHooks
from rules import qsend
from rules.qsend import attach


def run(ctx):
    db, rep = ctx.db, ctx.report
    prog = db.program('qmail-send')
    eng = Engine(db, prog, QHooks())
    r1 = rep.rule('C15.1-gating', 'R-GUARD', 'pass_dochan takes an entry only when it is due, from the queue it inspected; the retry time of a job is nextretry(birth,c) and job_close re-inserts with it')
    ps = qsend.analyse_pass_dochan(db, rep)
    attach(r1, ps, only={'pass:entry-taken-only-when-due', 'pass:delmin-on-the-queue-just-inspected'})
    pd = prog.fn('pass_dochan', 'qmail-send.c')
    ra = [x for x in pd.all_x() if x.k == 'asg' and (x.args[0].path() or '').endswith('.retry')]
    r1.check(len(ra) == 1 and ra[0].args[1].strip().k == 'call' and ra[0].args[1].strip().callee == 'nextretry' and
             (ra[0].args[1].strip().args[0].var or '').startswith('L:birth') and ra[0].args[1].strip().args[1].path() == 'P:c',
             'job-retry-time=nextretry(birth,c)', pd.unit + ':pass_dochan', 'jo[..].retry must be nextretry(birth, c)')
    gi = pd.calls('getinfo')
    r1.check(bool(gi) and bool(ra) and pd.dominates(gi[0], ra[0]) and 'birth' in gi[0].args[1].src(), 'birth-comes-from-the-info-file', pd.unit + ':pass_dochan', 'birth must be filled by getinfo() before nextretry')
    attach(r1, qsend.analyse_job_reinsert(db, rep), prefixes=['jc:'])
    r1.expect_min(5)

    r2 = rep.rule('C15.2-back-off-shape', 'R-CONST', 'nextretry: n = 0 if birth > recent else squareroot(recent - birth); n += chanskip[c]; return birth + n*n; chanskip = {10, 20}, all >= 1')
    nr = prog.fn('nextretry', 'qmail-send.c')
    cs0 = db.unit('qmail-send.c').globals.get('chanskip')
    skips = [e.get('v') for e in cs0['init']['v']] if cs0 and cs0.get('init', {}).get('k') == 'list' else None
    if not skips or len(skips) != 2:
        raise AnalysisBroken('chanskip[] initialiser not found')
    from qv.esp import Outcome

    class NR(QHooks):
        tracked = frozenset(['G:recent', 'G:chanskip'])

        def precise_arith(self, path):
            return True

        def __init__(self):
            self.out = None
            self.sq = []

        def prim_squareroot(self, E, x, args):
            v = args[0]
            a = next(iter(v)) if v is not TOP and len(v) == 1 else None
            self.sq.append(a)
            return [Outcome(ret=fs(7 if a is not None else 0))]      # squareroot is abstract: "some value" (7) of the age

        def on_return(self, E, fn, val):
            self.out = next(iter(val)) if val is not TOP and len(val) == 1 else None
    bad = []
    ages = []
    for birth, recent, c in ((100, 200, 0), (100, 200, 1), (300, 200, 0), (300, 200, 1), (200, 200, 1)):
        h = NR()
        e = Engine(db, prog, h)
        e.run(nr, {'nextretry::P:birth': fs(birth), 'nextretry::P:c': fs(c), 'G:recent': fs(recent), 'G:chanskip[0]': fs(skips[0]), 'G:chanskip[1]': fs(skips[1])})
        rep.count_states(e.states, e.transitions)
        n = (7 if birth <= recent else 0) + skips[c]
        want = birth + n * n
        if h.out != want:
            bad.append(((birth, recent, c), h.out, want))
        if birth <= recent:
            ages.append((h.sq, recent - birth))
        elif h.sq:
            bad.append(((birth, recent, c), 'squareroot called for a negative age', h.sq))
    r2.check(not bad, 'nextretry=birth+(sqrt(age)+skip)^2,age-0-when-born-in-the-future', nr.unit + ':nextretry',
             'with squareroot abstracted to 7: (birth, recent, channel) -> got, expected: %s' % bad[:3])
    r2.check(all(sq == [age] for sq, age in ages), 'age=recent-birth', nr.unit + ':nextretry', 'squareroot arguments %s' % ages)
    cs = db.unit('qmail-send.c').globals.get('chanskip')
    vals = [e.get('v') for e in cs['init']['v']] if cs and cs.get('init', {}).get('k') == 'list' else None
    r2.check(vals == [10, 20], 'chanskip=={10,20}', 'qmail-send.c', 'chanskip is %s (documented: 10 local, 20 remote; 0 would put the retry time in the past)' % vals)
    r2.expect_min(3)

    r3 = rep.rule('C15.3-expiry', 'R-GUARD', 'flagdying = recent > birth + lifetime (evaluated at the boundary); a dying Z report becomes D with its bounce (C03 rule 1)')
    fd = [x for x in pd.all_x() if x.k == 'asg' and (x.args[0].path() or '').endswith('.flagdying')]
    okd = False
    if len(fd) == 1:
        E = Env(eng, pd, {}, {}, None)
        cond = fd[0].args[1]

        def ev(age, life):
            env = {}
            for y in cond.walk():
                if y.k == 'cast' and y.op == 'LValueToRValue':
                    p = eng.canon(E, y.args[0])
                    if p == 'G:recent':
                        env[p] = 1000000 + age
                    elif p and 'birth' in p:
                        env[p] = 1000000
                    elif p == 'G:lifetime':
                        env[p] = life
            return eng.concrete(E, cond, env)
        okd = ev(604800, 604800) == 0 and ev(604801, 604800) == 1 and ev(5, 604800) == 0
    r3.check(okd, 'flagdying-iff-age>lifetime', pd.unit + ':pass_dochan', 'flagdying must be recent > birth + lifetime')
    dd = qsend.analyse_del_dochan(db, rep)
    attach(r3, dd, only={'del:DONE-only-for-K-or-D-(Z-when-expired)', 'del:bounce-only-for-D-(Z-when-expired)', 'del:K/D-reports-are-marked'})
    r3.expect_min(4)

    r4 = rep.rule('C15.4-ALRM-and-restart', 'R-ORDER', 'ALRM: handler sets flagrunasap, the loop calls pqrun before computing the wake-up, pqrun makes every channel entry due; shutdown saves each entry\'s time in its channel file\'s mtime and pqadd reads it back')
    sa = prog.fn('sigalrm', 'qmail-send.c')
    r4.check(any(x.k == 'asg' and x.args[0].path() == 'G:flagrunasap' and x.args[1].const == 1 for x in sa.all_x()), 'sigalrm-sets-flagrunasap', sa.unit + ':sigalrm', '')
    ms = qsend.analyse_main(db, rep)
    attach(r4, ms, only={'main:ALRM-handled-before-the-wakeup-time-is-computed', 'main:retry-times-saved-before-exit-0'})
    mainf = prog.fn('main', 'qmail-send.c')
    pr = mainf.calls('pqrun')
    r4.check(bool(pr) and any(c.path() == 'G:flagrunasap' and t is True for c, t in mainf.guards(pr[0], fresh=False) or []), 'loop-calls-pqrun-when-flagged', mainf.unit + ':main', '')
    prf = prog.fn('pqrun', 'qmail-send.c')
    asg = [x for x in prf.all_x() if x.k == 'asg' and x.op == '=' and x.args[0].src().endswith('.dt') and x.args[1].path() == 'G:recent']
    okr = False
    if asg:
        g = prf.guards(asg[0]) or []
        over_c = any(c.strip().k == 'bin' and c.strip().op == '<' and c.strip().args[1].const == 2 for c, t in g)
        over_i = any(c.strip().k == 'bin' and c.strip().op == '<' and c.strip().args[1].src().endswith('.len') for c, t in g)
        okr = over_c and over_i and 'pqchan[c].p[i]' in asg[0].args[0].src()
    r4.check(okr, 'pqrun-sets-every-channel-entry-to-recent', prf.unit + ':pqrun', 'pqchan[c].p[i].dt = recent for every c < CHANNELS and i < len')
    pf = prog.fn('pqfinish', 'qmail-send.c')
    ut = pf.calls('utimes')
    okf = False
    if ut:
        role = qsend.static_role(pf, ut[0], ut[0].args[0], prog)
        tv = [x for x in pf.all_x() if x.k == 'asg' and x.args[0].src().endswith('.tv_sec') and x.args[-1].src().endswith('pe.dt')]
        mins = pf.calls('prioq_min')
        okf = role == 'chan' and bool(tv) and pf.dominates(tv[0], ut[0]) and bool(mins) and 'pqchan[c]' in mins[0].args[0].src()
    r4.check(okf, 'pqfinish-saves-each-entry-time-as-mtime', pf.unit + ':pqfinish', 'utimes(channel file, pe.dt) for every entry of every channel queue')
    pa = prog.fn('pqadd', 'qmail-send.c')
    rd = [x for x in pa.all_x() if x.k == 'asg' and x.args[0].src().endswith('.dt') and 'st_mtim' in x.args[1].src()]
    okp = False
    if rd:
        st = [c for c in pa.calls('stat') if pa.dominates(c, rd[0])]
        okp = bool(st) and qsend.static_role(pa, st[-1], st[-1].args[0], prog) == 'chan'
    r4.check(okp, 'pqadd-reads-the-time-back-from-the-channel-file-mtime', pa.unit + ':pqadd', 'pechan[c].dt = st.st_mtime after stat of the channel file')
    r4.expect_min(7)

    r5 = rep.rule('C15.5-heap-index-arithmetic', 'R-GUARD', 'prioq.c: parent of j is (j-1)/2; delmin stops without comparing only when node i has no live child (evaluated for i < 8, n < 18) and never indexes beyond the last element')
    pq = db.fn('prioq.c', 'prioq_delmin')
    E = Env(eng, pq, {}, {}, None)
    # the child index: a local assigned from arithmetic over one other local and compared with a third in an if
    jx = brk = None
    for x in pq.all_x():
        if not (x.k == 'asg' and x.op == '=' and x.args[0].var and x.args[0].var[:2] == 'L:'):
            continue
        refs = {r for r in x.args[1].refs() if r[:2] == 'L:'}
        if len(refs) != 1 or x.args[1].strip().k != 'bin' or x.args[0].var in refs:
            continue
        for bid in pq.order():
            b = pq.blocks[bid]
            if b.cond is not None and b.term.get('k') == 'if':
                cr = {r for r in b.cond.refs() if r[:2] == 'L:'}
                if x.args[0].var in cr and len(cr) == 2 and not (cr & refs) and pq.dominates(x, b.cond) and b.cond.strip().k == 'bin':
                    jx, brk = x, b
                    break
        if jx is not None:
            break
    if jx is None:
        raise AnalysisBroken('prioq_delmin: child index computation / loop exit test not found')
    # which successor leaves the loop?  the one from which jx's block is not reachable
    jb = pq.pos[jx.id][0]
    leave_true = not pq.can_reach_from(brk.succs[0], jb) if hasattr(pq, 'can_reach_from') else None

    def reach_from(start, target):
        seen, work = set(), [start]
        while work:
            b = work.pop()
            if b in seen or b is None:
                continue
            seen.add(b)
            if b == target:
                return True
            work.extend(pq.blocks[b].succs)
        return False
    leave_true = not reach_from(brk.succs[0], jb)
    ipath = [eng.qualify(pq, r) for r in jx.args[1].refs() if r[:2] == 'L:'][0]
    jpath = eng.qualify(pq, jx.args[0].var)
    npath = [eng.qualify(pq, r) for r in brk.cond.refs() if r[:2] == 'L:' and r != jx.args[0].var][0]
    bad = None
    oob = None
    for i in range(0, 8):
        j = eng.concrete(E, jx.args[1], {ipath: i})
        for n in range(0, 18):          # n = index of the last element (len - 1)
            c = eng.concrete(E, brk.cond, {jpath: j, npath: n})
            leaves = bool(c) == leave_true
            live_child = 2 * i + 1 < n          # children are live if their index is below the element being moved
            if leaves and live_child and bad is None:
                bad = (i, n, j)
            if not leaves and j > n and oob is None:
                oob = (i, n, j)
    r5.check(j is not None and bad is None, 'delmin-compares-whenever-a-live-child-exists', brk.cond.where,
             'at node i=%s with last index n=%s (child index j=%s) the sift-down stops although child %s is live: an earlier-due entry can stay below a later one' % (bad + (2 * bad[0] + 1,) if bad else (None, None, None, None)))
    r5.check(oob is None, 'delmin-never-reads-beyond-the-last-element', brk.cond.where, 'i=%s n=%s: continues with j=%s > n' % (oob if oob else (None, None, None)))
    pi = db.fn('prioq.c', 'prioq_insert')
    Ei = Env(eng, pi, {}, {}, None)
    iasg = [x for x in pi.all_x() if x.k == 'asg' and x.op == '=' and x.args[0].var and x.args[0].var[:2] == 'L:' and
            len({r for r in x.args[1].refs() if r[:2] == 'L:'}) == 1 and any(y.k == 'bin' and y.op in ('/', '>>') for y in x.args[1].walk())]
    okp = bool(iasg)
    if iasg:
        jp = [eng.qualify(pi, r) for r in iasg[0].args[1].refs() if r[:2] == 'L:'][0]
        okp = all(eng.concrete(Ei, iasg[0].args[1], {jp: j}) == (j - 1) // 2 for j in range(1, 40))
    r5.check(okp, 'insert-parent-index=(j-1)/2', pi.unit + ':prioq_insert', 'parent index computation')
    r5.expect_min(3)
    rep.assume('NOT decided: exactness of squareroot for all ages, birth + n*n > recent as arithmetic, and the heap order as a property of values (only the index arithmetic of the sift loops is)',
               'a flipped dt comparison in prioq.c is covered by the repository\'s unit tests, not by this check')
