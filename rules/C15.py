"""C15 — retry schedule (gating, bookkeeping and heap index arithmetic; the numerical
exactness of squareroot and the heap order as a property of values are not decided)."""
from qv.core import AnalysisBroken
from qv.esp import Engine, Env, Outcome, TOP, fs
from qv.lib import QHooks
from rules import qsend
from rules.qsend import attach, g1


class HeapHooks(QHooks):
    def __init__(self, ln):
        self.ln = ln
        self.out = []
        self.oob = None

    def tracked_global(self, path):
        return True

    def precise_arith(self, path):
        return True

    def prim_prioq_readyplus(self, E, x, args):
        return [Outcome(ret=fs(1))]

    def materialize(self, E, path):
        import re
        m = re.match(r'^HEAP\[(-?\d+)\]', path)
        if m and self.oob is None:
            k = int(m.group(1))
            ln = E.get('PQ.len')
            ln = next(iter(ln)) if ln is not TOP and len(ln) == 1 else None
            # a whole-record read of a live cell is a copy; an unknown field, or any cell at/after len, is a stray read
            if not (path == 'HEAP[%d]' % k and isinstance(ln, int) and 0 <= k < max(ln, 1)):
                self.oob = (k, E.trace.list())
        return TOP

    def on_return(self, E, fn, val):
        if fn.name == self.entry:
            self.out.append((dict(E.store), val))


def heap_sites(db, rep, prog, maxn):
    import itertools
    ins, mn, dm = db.fn('prioq.c', 'prioq_insert'), db.fn('prioq.c', 'prioq_min'), db.fn('prioq.c', 'prioq_delmin')
    bad = None
    nvec = 0
    states = 0

    def run(fn, store, extra):
        nonlocal states
        H = HeapHooks(None)
        H.entry = fn.name
        e = Engine(db, prog, H)
        fid = e.frame_id(fn)
        st = dict(store)
        st['%s::%s' % (fid, fn.params[0])] = fs(('&', 'PQ'))
        if len(fn.params) > 1:
            st['%s::%s' % (fid, fn.params[1])] = fs(('&', 'PE'))
        st.update(extra)
        e.run(fn, st)
        states += e.states
        return H

    def g(store, k):
        v = store.get(k)
        return next(iter(v)) if v is not None and v is not TOP and len(v) == 1 else None
    for n in range(1, maxn + 1):
        for keys in itertools.product(range(n), repeat=n):
            if bad:
                break
            nvec += 1
            store = {'PQ.p': fs(('&', 'HEAP[0]')), 'PQ.len': fs(0)}
            live = []
            for idv, dt in enumerate(keys):
                H = run(ins, store, {'PE.dt': fs(dt * 10), 'PE.id': fs(idv)})
                if len(H.out) != 1 or H.oob:
                    bad = ('inserting %s: %s' % (list(keys), 'cell %s beyond the queue is read' % H.oob[0] if H.oob else '%d outcomes' % len(H.out)), H.oob[1] if H.oob else [])
                    break
                store = {k: v for k, v in H.out[0][0].items() if k.startswith('PQ') or k.startswith('HEAP')}
                live.append((dt * 10, idv))
            while live and not bad:
                H = run(mn, store, {})
                if len(H.out) != 1 or H.oob:
                    bad = ('prioq_min on a queue of %d: %s' % (len(live), 'reads cell %s' % H.oob[0] if H.oob else '%d outcomes' % len(H.out)), [])
                    break
                st_, ret = H.out[0]
                got = (g(st_, 'PE.dt'), g(st_, 'PE.id'))
                if not (ret is not TOP and ret == fs(1)) or got not in live or got[0] != min(d for d, _ in live):
                    bad = ('after inserting the times %s (x10) and %d removals prioq_min answers %s; the earliest pending entry is due at %d: a later-due message is served first and the earlier one waits' %
                           (list(keys), n - len(live), got, min(d for d, _ in live)), [])
                    break
                H = run(dm, store, {})
                if len(H.out) != 1 or (H.oob and H.oob[0] >= len(live)):
                    bad = ('prioq_delmin on a queue of %d entries touches cell %s' % (len(live), H.oob[0] if H.oob else '?'), H.oob[1] if H.oob else [])
                    break
                store = {k: v for k, v in H.out[0][0].items() if k.startswith('PQ') or k.startswith('HEAP')}
                live.remove(got)
                ln = g(store, 'PQ.len')
                cells = sorted((g(store, 'HEAP[%d].dt' % k), g(store, 'HEAP[%d].id' % k)) for k in range(ln)) if isinstance(ln, int) and 0 <= ln <= n else None
                if ln != len(live) or cells != sorted(live):
                    bad = ('after inserting the times %s (x10), removing the minimum leaves %s (len %s); expected the entries %s: an entry was lost or duplicated' % (list(keys), cells, ln, sorted(live)), [])
                    break
            # an empty queue answers 0
        if bad:
            break
    H = run(mn, {'PQ.p': fs(('&', 'HEAP[0]')), 'PQ.len': fs(0)}, {})
    if not bad and not (len(H.out) == 1 and H.out[0][1] == fs(0)):
        bad = ('prioq_min on an empty queue does not answer 0', [])
    rep.count_states(states, states)
    return {'min/delmin-serve-entries-in-time-order': (bad is None, 'prioq.c', bad[0] if bad else '%d key vectors' % nvec, bad[1] if bad else [])}



def run(ctx):
    db, rep = ctx.db, ctx.report
    prog = db.program('qmail-send')
    eng = Engine(db, prog, QHooks())
    r1 = rep.rule('C15.1-gating', 'R-GUARD', 'pass_dochan takes an entry only when it is due, from the queue it inspected; the retry time of a job is nextretry(birth,c) and job_close re-inserts with it')
    ps = qsend.analyse_pass_dochan(db, rep)
    attach(r1, ps, only={'pass:entry-taken-only-when-due', 'pass:delmin-on-the-queue-just-inspected'})
    pst = qsend.analyse_pass_start(db, rep)
    attach(r1, pst, only={'pass:job-retry-time=nextretry(birth-from-the-info-file,channel)', 'pass:job-opened-for-the-entry-taken'})
    attach(r1, qsend.analyse_job_reinsert(db, rep), prefixes=['jc:'])
    r1.expect_min(5)

    r2 = rep.rule('C15.2-back-off-shape', 'R-CONST', 'nextretry: n = 0 if birth > recent else squareroot(recent - birth); n += chanskip[c]; return birth + n*n; chanskip = {10, 20}, all >= 1')
    # the square root itself: result^2 <= x < (result+1)^2 for ages from 0 to 2^31-1 (squareroot() run concretely)
    import math
    sq = prog.fn('squareroot', 'qmail-send.c')
    badsq = None
    xs = [0, 1, 2, 3, 4, 8, 9, 15, 16, 24, 25, 99, 100, 3599, 3600, 604800, 2 ** 20 - 1, 2 ** 20, 2 ** 24, 2 ** 28 - 1, 2 ** 28, 2 ** 30 - 1, 2 ** 30, 2 ** 30 + 1, 1075000000, 2 ** 31 - 1]
    for x_ in xs:
        class SQ(QHooks):
            def __init__(self):
                self.rets = []

            def tracked_global(self, path):
                return True

            def precise_arith(self, path):
                return True

            def on_return(self, E, fn, val):
                if fn.name == 'squareroot':
                    self.rets.append(val)
        hq = SQ()
        eq = Engine(db, prog, hq, max_states=20000)
        eq.run(sq, {'%s::%s' % (eq.frame_id(sq), sq.params[0]): fs(x_)})
        rep.count_states(eq.states, eq.transitions)
        got = next(iter(hq.rets[0])) if len(hq.rets) == 1 and hq.rets[0] is not TOP and len(hq.rets[0]) == 1 else None
        if got != math.isqrt(x_) and badsq is None:
            badsq = 'squareroot(%d) is %s; documented %d: for a message this old the retry time lies too early (beyond 2^30 seconds in the past, so it is retried without pause)' % (x_, got, math.isqrt(x_))
    r2.check(badsq is None, 'squareroot=floor-of-the-square-root(0..2^31-1)', 'qmail-send.c:squareroot', badsq or '%d ages' % len(xs))
    nr = prog.fn('nextretry', 'qmail-send.c')
    cs0 = db.unit('qmail-send.c').globals.get('chanskip')
    skips = [e.get('v') for e in cs0['init']['v']] if cs0 and cs0.get('init', {}).get('k') == 'list' else None
    if not skips or len(skips) != 2:
        raise AnalysisBroken('chanskip[] initialiser not found')
    from qv.esp import Outcome

    class NR(QHooks):
        tracked = frozenset(['G:recent', 'G:chanskip'])

        def precise_arith(self, path):
            return True

        def __init__(self):
            self.out = None
            self.sq = []

        def prim_squareroot(self, E, x, args):
            v = args[0]
            a = next(iter(v)) if v is not TOP and len(v) == 1 else None
            self.sq.append(a)
            return [Outcome(ret=fs(7 if a is not None else 0))]      # squareroot is abstract: "some value" (7) of the age

        def on_return(self, E, fn, val):
            self.out = next(iter(val)) if val is not TOP and len(val) == 1 else None
    bad = []
    ages = []
    for birth, recent, c in ((100, 200, 0), (100, 200, 1), (300, 200, 0), (300, 200, 1), (200, 200, 1)):
        h = NR()
        e = Engine(db, prog, h)
        e.run(nr, {'nextretry::P:birth': fs(birth), 'nextretry::P:c': fs(c), 'G:recent': fs(recent), 'G:chanskip[0]': fs(skips[0]), 'G:chanskip[1]': fs(skips[1])})
        rep.count_states(e.states, e.transitions)
        n = (7 if birth <= recent else 0) + skips[c]
        want = birth + n * n
        if h.out != want:
            bad.append(((birth, recent, c), h.out, want))
        if birth <= recent:
            ages.append((h.sq, recent - birth))
        elif h.sq:
            bad.append(((birth, recent, c), 'squareroot called for a negative age', h.sq))
    r2.check(not bad, 'nextretry=birth+(sqrt(age)+skip)^2,age-0-when-born-in-the-future', nr.unit + ':nextretry',
             'with squareroot abstracted to 7: (birth, recent, channel) -> got, expected: %s' % bad[:3])
    r2.check(all(sq == [age] for sq, age in ages), 'age=recent-birth', nr.unit + ':nextretry', 'squareroot arguments %s' % ages)
    cs = db.unit('qmail-send.c').globals.get('chanskip')
    vals = [e.get('v') for e in cs['init']['v']] if cs and cs.get('init', {}).get('k') == 'list' else None
    r2.check(vals == [10, 20], 'chanskip=={10,20}', 'qmail-send.c', 'chanskip is %s (documented: 10 local, 20 remote; 0 would put the retry time in the past)' % vals)
    r2.expect_min(3)

    r3 = rep.rule('C15.3-expiry', 'R-GUARD', 'flagdying = recent > birth + lifetime (evaluated at the boundary); a dying Z report becomes D with its bounce (C03 rule 1)')
    attach(r3, pst, only={'pass:flagdying-iff-age>lifetime'})
    dd = qsend.analyse_del_dochan(db, rep)
    attach(r3, dd, only={'del:DONE-only-for-K-or-D-(Z-when-expired)', 'del:bounce-only-for-D-(Z-when-expired)', 'del:K/D-reports-are-marked'})
    from rules import C14 as _c14c
    v_ = _c14c.control_value_sites(db, rep)['controls:queuelifetime-is-taken-as-written(0-included)']
    r3.check(v_[0], 'controls:queuelifetime-is-taken-as-written(0-included)', v_[1], v_[2], v_[3])
    r3.expect_min(5)

    r4 = rep.rule('C15.4-ALRM-and-restart', 'R-ORDER', 'ALRM: handler sets flagrunasap, the loop calls pqrun before computing the wake-up, pqrun makes every channel entry due; shutdown saves each entry\'s time in its channel file\'s mtime and pqadd reads it back')
    sa = prog.fn('sigalrm', 'qmail-send.c')
    r4.check(any(x.k == 'asg' and x.args[0].path() == 'G:flagrunasap' and x.args[1].const == 1 for x in sa.all_x()), 'sigalrm-sets-flagrunasap', sa.unit + ':sigalrm', '')
    ms = qsend.analyse_main(db, rep)
    attach(r4, ms, only={'main:ALRM-handled-before-the-wakeup-time-is-computed', 'main:retry-times-saved-before-exit-0', 'main:ALRM-flag-cleared-before-pqrun'})
    mainf = prog.fn('main', 'qmail-send.c')
    pr = mainf.calls('pqrun')
    r4.check(bool(pr) and any(c.path() == 'G:flagrunasap' and t is True for c, t in mainf.guards(pr[0], fresh=False) or []), 'loop-calls-pqrun-when-flagged', mainf.unit + ':main', '')
    prf = prog.fn('pqrun', 'qmail-send.c')

    class PR(QHooks):
        def __init__(self):
            self.ends = []

        def tracked_global(self, path):
            return True

        def precise_arith(self, path):
            return True

        def on_return(self, E, fn, val):
            if fn.name == 'pqrun':
                self.ends.append(dict(E.store))
    badp = None
    for lens in ((3, 2), (0, 1), (2, 0)):
        PH = PR()
        e_ = Engine(db, prog, PH)
        st = {'G:recent': fs(7000)}
        for c_ in (0, 1):
            st['G:pqchan[%d].p' % c_] = fs(('&', 'Q%d[0]' % c_)) if lens[c_] else fs(0)
            st['G:pqchan[%d].len' % c_] = fs(lens[c_])
            for i_ in range(lens[c_] + 1):
                st['Q%d[%d].dt' % (c_, i_)] = fs(100 + i_)
                st['Q%d[%d].id' % (c_, i_)] = fs(10 * c_ + i_)
        e_.run(prf, st)
        rep.count_states(e_.states, e_.transitions)
        if len(PH.ends) != 1:
            raise AnalysisBroken('pqrun: %d ends explored' % len(PH.ends))
        end = PH.ends[0]
        for c_ in (0, 1):
            for i_ in range(lens[c_] + 1):
                dt = end.get('Q%d[%d].dt' % (c_, i_))
                idv = end.get('Q%d[%d].id' % (c_, i_))
                want = 7000 if i_ < lens[c_] else 100 + i_
                if dt != fs(want) or idv != fs(10 * c_ + i_):
                    badp = badp or 'queue lengths %s: entry %d of channel %d ends with time %s id %s (documented: every queued entry becomes due now = 7000, nothing else changes)' % (lens, i_, c_, sorted(dt) if dt not in (None, TOP) else dt, sorted(idv) if idv not in (None, TOP) else idv)
    r4.check(badp is None, 'pqrun-sets-every-channel-entry-to-recent', prf.unit + ':pqrun', badp or '')
    pf = prog.fn('pqfinish', 'qmail-send.c')
    pa = prog.fn('pqadd', 'qmail-send.c')
    rd = [x for x in pa.all_x() if x.k == 'asg' and x.args[0].src().endswith('.dt') and 'st_mtim' in x.args[1].src()]
    okp = False
    if rd:
        st = [c for c in pa.calls('stat') if pa.dominates(c, rd[0])]
        okp = bool(st) and qsend.static_role(pa, st[-1], st[-1].args[0], prog) == 'chan'
    r4.check(okp, 'pqadd-reads-the-time-back-from-the-channel-file-mtime', pa.unit + ':pqadd', 'pechan[c].dt = st.st_mtime after stat of the channel file')
    r4.expect_min(7)

    # pqfinish: every queued entry's time is written back to its channel file (that is all a restart has)
    pf = prog.fn('pqfinish', 'qmail-send.c')

    class PF(QHooks):
        Q = {'G:pqchan[0]': [(7100, 31), (6900, 32), (7000, 33)], 'G:pqchan[1]': [(6500, 41)]}

        def __init__(self):
            self.stamped = []

        def tracked_global(self, path):
            return True

        def precise_arith(self, path):
            return True

        def _q(self, E, args):
            v = args[0]
            v = next(iter(v)) if v is not TOP and len(v) == 1 else None
            return v[1] if isinstance(v, tuple) and v[0] == '&' and v[1] in self.Q else None

        def prim_prioq_min(self, E, x, args):
            q = self._q(E, args)
            pe = next(iter(args[1])) if args[1] is not TOP and len(args[1]) == 1 else None
            if q is None or not (isinstance(pe, tuple) and pe[0] == '&'):
                raise AnalysisBroken('pqfinish: prioq_min() on an unknown queue')
            k = g1(E, '$k:' + q, 0)
            if k >= len(self.Q[q]):
                return [Outcome(ret=fs(0))]
            dt, idv = self.Q[q][k]
            return [Outcome(ret=fs(1), sets={pe[1] + '.dt': fs(dt), pe[1] + '.id': fs(idv)})]

        def prim_prioq_delmin(self, E, x, args):
            q = self._q(E, args)
            return [Outcome(ret=TOP, sets={'$k:' + q: fs(g1(E, '$k:' + q, 0) + 1)} if q else {})]

        def prim_fnmake_chanaddr(self, E, x, args):
            return [Outcome(ret=TOP, sets={'$fn': fs((next(iter(args[0])) if args[0] is not TOP and len(args[0]) == 1 else None, next(iter(args[1])) if args[1] is not TOP and len(args[1]) == 1 else None))})]

        def prim_utimes(self, E, x, args):
            tp = next(iter(args[1])) if args[1] is not TOP and len(args[1]) == 1 else None
            base = tp[1][:-3] if isinstance(tp, tuple) and tp[0] == '&' and tp[1].endswith('[0]') else (tp[1] if isinstance(tp, tuple) else None)
            t1 = g1(E, '%s[1].tv_sec' % base) if base else None
            self.stamped.append((g1(E, '$fn'), t1))
            return [Outcome(ret=fs(0)), Outcome(ret=fs(-1))]

        prim_utime = prim_utimes

        def _n(self, E, x, args):
            return [Outcome(ret=TOP)]

        prim_log3 = prim_log1 = _n
    badf = None
    for recent in (6000, 7050, 9000):
        PH = PF()
        e_ = Engine(db, prog, PH)
        e_.run(pf, {'G:recent': fs(recent)})
        rep.count_states(e_.states, e_.transitions)
        want = {((idv, c_), dt) for c_, q in ((0, 'G:pqchan[0]'), (1, 'G:pqchan[1]')) for dt, idv in PF.Q[q]}
        got = set(PH.stamped)
        if got != want and badf is None:
            badf = 'at time %d pqfinish writes back %s; queued (message, channel) -> time: %s: an entry whose time is not written keeps the older time of its file and is retried at the wrong time after the restart (an ALRM is forgotten)' % (recent, sorted(got, key=str), sorted(want, key=str))
    r4.check(badf is None, 'pqfinish-writes-back-the-time-of-every-queued-entry', pf.unit + ':pqfinish', badf or '')

    r6 = rep.rule('C15.6-wake-up-for-retries', 'R-TABLE', 'pass_selprep over every combination of open passes, job and delivery slots and queue contents: the daemon asks to be woken at the earliest due time of every channel queue it can serve (a retry whose time has passed is not slept over)')
    attach(r6, qsend.selprep_tables(db, names=('pass_selprep',)), prefixes=['selprep:'])
    r6.expect_min(1)

    r5 = rep.rule('C15.5-heap-operations', 'R-TABLE', 'prioq.c over every key vector {0..n-1}^n, n <= %d: after inserting the entries, prioq_min names an entry with the smallest time and prioq_delmin removes exactly that entry, until the queue is empty; no operation touches a cell at or beyond len' % ctx.deep(4, 5))
    for inst, v in sorted(heap_sites(db, rep, prog, ctx.deep(4, 5)).items()):
        r5.check(v[0], inst, v[1], v[2], v[3])
    r5.expect_min(1)
    rep.exhaustive_rules.append('C15.5-heap-operations')
    rep.assume('NOT decided: exactness of squareroot for all ages and birth + n*n > recent as arithmetic',
               'heap order is decided for queues of up to %d entries (all key vectors), not for larger ones' % ctx.deep(4, 5))
