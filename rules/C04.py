"""C04 — finished recipients are never retried; bounded concurrency (structural clauses)."""
from qv.core import AnalysisBroken
from qv.lib import holds_set
from rules import qsend
from rules.qsend import attach


def run(ctx):
    db, rep = ctx.db, ctx.report
    prog = db.program('qmail-send')
    ps = qsend.analyse_pass_dochan(db, rep)
    r1 = rep.rule('C04.1-only-T-records-are-delivered', 'R-TYPESTATE', 'pass_dochan: del_start only for T records, D records have no effect, any other byte ends the pass')
    attach(r1, ps, only={'pass:delivery-only-for-T-records', 'pass:D-record-has-no-effect', 'pass:pass-ends-with-job_close', 'pass:T-record-starts-one-delivery-attempt'})
    r1.expect_min(4)
    r2 = rep.rule('C04.2-mark-position', 'R-TYPESTATE', 'the D mark lands on the record that was delivered: del_start gets mpos before the advance, mpos advances exactly once per record by the record length, markdone receives the delivery\'s mpos and seeks there')
    for inst_, v_ in sorted(qsend.reread_sites(db, rep).items()):
        r2.check(v_[0], inst_, v_[1], v_[2], v_[3])
    for inst_, v_ in sorted(qsend.id_width_sites(db).items()):
        r2.check(v_[0], inst_, v_[1], v_[2], v_[3])
    attach(r2, ps, only={'pass:mark-position-is-the-start-of-this-record', 'pass:mpos-advances-exactly-once-per-record', 'pass:mpos-advances-by-the-record-length'})
    dd = qsend.analyse_del_dochan(db, rep)
    attach(r2, dd, only={"del:mark-position-is-the-delivery's-mpos"})
    eff = qsend.effect_sites(db)
    attach(r2, eff, only={'effect:markdone-writes-one-byte-D-at-pos'})
    dst = qsend.analyse_del_start(db, rep)
    attach(r2, dst, only={'ds:slot-records-job-and-mark-position'})
    attach(r2, ps, only={'pass:a-new-pass-marks-from-offset-0'})
    r2.expect_min(7)

    r3 = rep.rule('C04.3-concurrency-bound', 'R-GUARD', 'a delivery slot is taken only for an index below concurrency[c] found unused; used=1 and ++concurrencyused come together, used=0 and --concurrencyused come together; del_avail bounds the count; concurrency clamped to the spawner\'s byte')
    attach(r3, dst, only={'ds:no-slot-no-effect', 'ds:announced-delivery-number-is-a-slot-below-concurrency', 'ds:slot-taken-with-counter-and-reference',
                         'ds:announced-message-is-the-job-message', 'ds:full-table-starts-nothing', 'ds:a-slot-in-use-is-never-taken', 'ds:del_avail-iff-concurrencyused<concurrency'})
    attach(r3, dd, only={'del:slot-release-and-counter-decrement-come-together', 'del:slot-freed-only-after-job_close'})
    attach(r3, ps, only={'pass:record-read-only-when-a-delivery-slot-is-free'})
    attach(r3, qsend.clamp_sites(db, rep), prefixes=["clamp:"])
    from rules import C14 as _c14c
    _cv = _c14c.control_value_sites(db, rep)
    v_ = _cv['controls:concurrency-is-taken-as-written(0-holds-the-channel)']
    r3.check(v_[0], 'controls:concurrency-is-taken-as-written(0-holds-the-channel)', v_[1], v_[2], v_[3])
    r3.expect_min(10)

    r4 = rep.rule('C04.4-one-job-per-message-and-channel', 'R-EFFECT', 'pqchan insertion sites are exactly pqadd, job_close, pass_dochan(trouble), todo_do; an entry is removed before its job is opened; preprocessing happens once')
    from qv.lib import only_reached_through
    allowed = {'pqadd', 'job_close', 'pass_dochan', 'todo_do'}
    sites = set()
    bad_sites = []
    for fn in prog.functions():
        if fn.unit != 'qmail-send.c':
            continue
        for c in fn.calls('prioq_insert'):
            q = c.args[0].strip().args[0].src() if c.args[0].strip().k == 'un' else c.args[0].src()
            if q.startswith('pqchan'):
                sites.add(fn.name)
                if fn.name not in allowed:
                    okr, _ = only_reached_through(prog, 'qmail-send.c', fn.name, allowed)
                    if not okr:
                        bad_sites.append(fn.name)
    r4.check(bool(sites) and not bad_sites, 'pqchan-insertion-sites', 'qmail-send.c', 'pqchan is inserted into from %s; not reached only through pqadd/job_close/pass_dochan/todo_do: %s' % (sorted(sites), bad_sites))
    attach(r4, ps, only={'pass:removed-entry-is-handed-to-a-job-or-reinserted', 'pass:delmin-on-the-queue-just-inspected'})
    td = qsend.analyse_todo_do(db, rep)
    attach(r4, td, only={'todo:schedule-only-after-qmail-clean-confirmed', 'todo:nothing-removed-after-files-are-being-written'})
    attach(r4, dst, only={'ds:slot-taken-with-counter-and-reference'})
    attach(r4, qsend.analyse_messdone(db, rep), only={'md:a-message-that-still-has-a-channel-file-is-left-alone'})
    attach(r4, qsend.job_slot_sites(db, rep))
    attach(r4, dd, only={'del:slot-freed-only-after-job_close'})
    attach(r4, qsend.analyse_pqadd(db, rep), prefixes=['pqadd:'])
    r4.expect_min(8)

    r5 = rep.rule('C04.5-TERM', 'R-GUARD', 'after TERM nothing new is started: the scanners return at once when flagexitasap; the loop ends only when no delivery is in flight; retry times are saved')
    for nm in ('pass_dochan', 'todo_do', 'todo_selprep', 'pass_selprep'):
        fn = prog.fn(nm, 'qmail-send.c')
        first_effect = None
        bad = []
        for c in fn.calls():
            if c.callee in ('prioq_delmin', 'open_read', 'opendir', 'trigger_set', 'job_open', 'del_start', 'getln', 'readdir', 'trigger_selprep'):
                g = fn.guards(c) or []
                if not any(cc.path() == 'G:flagexitasap' and t is False for cc, t in g):
                    bad.append('%s@%d' % (c.callee, c.line))
        r5.check(not bad, '%s:returns-before-any-action-when-flagexitasap' % nm, '%s:%s' % (fn.unit, nm), 'actions not guarded by !flagexitasap: %s' % bad)
    ms = qsend.analyse_main(db, rep)
    attach(r5, ms, only={'main:loop-left-only-on-TERM-with-no-delivery-in-flight', 'main:retry-times-saved-before-exit-0'})
    attach(r5, dst, only={'ds:del_canexit-iff-no-live-channel-has-a-delivery-in-flight'})
    r5.expect_min(7)
    rep.assume('exactly-once over histories and the documented crash window between delivery and mark are not decided', 'plain char is signed')
