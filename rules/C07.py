"""C07 — daemons acknowledge iff exactly that message was queued (control skeleton).

1. qmail.c failure latch (path-sensitive, per API function, symbolic struct qmail object).
2. qmail_close() decision table over all 256 exit statuses x crashed x latch.
3. positive acknowledgement only on the empty qmail_close result (smtpd, qmtpd, qmqpd).
4. every refusal cause latches before qmail_close (hops, size countdown, bad addresses).
6. disconnect: read wrappers never return <= 0.
7. received.c: issafe() table over all 256 bytes; untrusted strings flow only through safeput.
"""
from qv.core import AnalysisBroken
from qv.esp import Engine, Outcome, TOP, fs
from qv.lib import QHooks, holds_set, transitive_callees

BYTE = frozenset(range(256))
CHARS = frozenset(range(-128, 128))


def g1(E, k, d=None):
    v = E.get(k)
    return next(iter(v)) if v else d


class LatchHooks(QHooks):
    inline_unit = 'qmail.c'
    inline_names = frozenset(['qmail_puts'])
    tracked = frozenset(['OBJ'])
    precise = frozenset(['OBJ.flagerr'])
    inline_depth = 4

    def __init__(self):
        self.sites = {}
        self.events = 0
        self.fn = None

    def precise_arith(self, path):
        return path == 'OBJ.flagerr'

    def site(self, inst, x, ok, detail, E):
        prev = self.sites.get(inst)
        if prev is None or (prev[0] and not ok):
            self.sites[inst] = (ok, x.where if x is not None else 'qmail.c', detail, E.trace.list() if not ok else [])

    def _ss(self, E, x):
        v = E.val(x.args[0])
        if v is not TOP and len(v) == 1:
            (a,) = v
            if isinstance(a, tuple) and a[0] == '&' and a[1] == 'OBJ.ss':
                return True
        return False

    def prim_substdio_fdbuf(self, E, x, args):
        if self._ss(E, x):
            p = E.canon(x.args[2])
            E.set('$bind', fs(p.split('.')[-1] if p else '?'))
        return [Outcome(ret=TOP)]

    def _write(self, E, x, args, kind):
        if not self._ss(E, x):
            return None
        self.events += 1
        bind = g1(E, '$bind', '?')
        fe = E.get('OBJ.flagerr')
        latched = fe is not TOP and 0 not in fe
        if latched and bind == 'fde':
            self.site('%s:no-envelope-byte-after-failure' % self.fn, x, False,
                      '%s on the envelope descriptor although the failure latch is set: the queue program could still see a complete envelope' % x.callee, E)
        if kind == 'put' and bind == 'fde' and len(x.args) > 2 and x.args[1].string == '' and x.args[2].const == 1 and self.fn == 'qmail_close':
            E.set('$term', fs(1))
        return [Outcome(ret=fs(0)), Outcome(ret=fs(-1), sets={'$failed': fs(1)}, log='%s fails' % x.callee)]

    def prim_substdio_put(self, E, x, args):
        return self._write(E, x, args, 'put')

    def prim_substdio_bput(self, E, x, args):
        return self._write(E, x, args, 'put')

    def prim_substdio_puts(self, E, x, args):
        return self._write(E, x, args, 'put')

    def prim_substdio_flush(self, E, x, args):
        return self._write(E, x, args, 'flush')

    def prim_substdio_putflush(self, E, x, args):
        return self._write(E, x, args, 'put')

    def prim_substdio_get(self, E, x, args):
        return [Outcome(ret=fs(0)), Outcome(ret=fs(1)), Outcome(ret=fs(-1))]

    def prim_wait_pid(self, E, x, args):
        return [Outcome(ret=TOP, havoc=self._arg_roots(E, x, args))]

    def on_return(self, E, fn, val):
        fe = E.get('OBJ.flagerr')
        init = g1(E, '$init')
        if init == 1:
            self.site('%s:latch-stays-set' % self.fn, None, fe is not TOP and 0 not in fe,
                      'the failure latch (set on entry) may be clear when %s returns: flagerr in %s' % (self.fn, sorted(fe) if fe is not TOP else 'unknown'), E)
        if g1(E, '$failed', 0):
            self.site('%s:failed-write-sets-latch' % self.fn, None, fe is not TOP and 0 not in fe,
                      'a write to the queue program failed and %s returns with the latch clear' % self.fn, E)
        else:
            self.site('%s:failed-write-sets-latch' % self.fn, None, True, '', E)
        if self.fn == 'qmail_fail':
            self.site('qmail_fail:sets-latch', None, fe is not TOP and 0 not in fe, 'qmail_fail() leaves the latch clear', E)


class CloseHooks(LatchHooks):
    def __init__(self):
        super().__init__()
        self.table = {}

    def precise_arith(self, path):
        return True         # every input of qmail_close is concrete here; a loop over a table of exit codes has a concrete counter

    def prim_wait_pid(self, E, x, args):
        wp = None
        if args[0] is not TOP and len(args[0]) == 1:
            (a,) = args[0]
            if isinstance(a, tuple) and a[0] == '&':
                wp = a[1]
        if wp is None:
            raise AnalysisBroken('qmail_close: wait_pid(&wstat, ...) shape changed')
        outs = [Outcome(ret=fs('OTHERPID'), sets={'$w': fs(-1)}, log='wait_pid returns something else than the child')]
        for w in [1, 9, 11, 139, 0x7f] + [e << 8 for e in range(256)]:
            outs.append(Outcome(ret=fs('PID'), sets={wp: fs(w), '$w': fs(w)}))
        return outs

    def prim_qmail_errstr(self, E, x, args):
        # the text the queue program wrote to its descriptor 6: length and first byte (D, Z, NUL, another byte)
        p = None
        if len(args) > 1 and args[1] is not TOP and len(args[1]) == 1:
            (a,) = args[1]
            if isinstance(a, tuple) and a[0] == '&':
                p = a[1]
        if p is None:
            raise AnalysisBroken('qmail_close: qmail_errstr(qq, buffer) shape changed')
        outs = [Outcome(ret=fs(0), sets={p: fs(0)})]
        for ln in (1, 2, 3, 200):
            for b in (ord('D'), ord('Z'), 0, ord('x')):
                outs.append(Outcome(ret=fs(ln), sets={p: fs(b)}, log='queue program wrote %d bytes to descriptor 6, the first is %r' % (ln, chr(b))))
        return outs

    def on_return(self, E, fn, val):
        w = g1(E, '$w')
        init = g1(E, '$init')
        fe = E.get('OBJ.flagerr')
        if val is TOP or len(val) != 1:
            kind = '?'
        else:
            (v,) = val
            if isinstance(v, tuple) and v[0] == 'str':
                kind = v[1][:1] if v[1] else 'EMPTY'
            elif isinstance(v, tuple) and v[0] == '&':
                b0 = g1(E, v[1])
                kind = 'errstr:' + (chr(b0) if isinstance(b0, int) and 32 < b0 < 127 else 'NUL' if b0 == 0 else '?')
            else:
                kind = '?'
        if w is None:
            # waitpid surprise path taken before wstat mattered
            w = -1
        crashed = w >= 0 and (w & 127) != 0
        code = (w >> 8) if w >= 0 else None
        latched = fe is TOP or 0 not in fe or g1(E, '$failed', 0) == 1
        key = ('crash' if crashed else code, 'latched' if (init == 1) else 'clear')
        self.table.setdefault(key, set()).add(kind)
        # the specification (qmail-queue.8 EXIT CODES; property C07)
        if kind.startswith('errstr') and not (not crashed and code == 82):
            self.site('qmail_close:custom-text-only-for-exit-82', None, False, 'the queue program\'s own text is returned for status %s crashed=%s' % (code, crashed), E)
        if kind == 'EMPTY':
            ok = (not crashed) and code == 0 and init == 0 and not g1(E, '$failed', 0)
            self.site('qmail_close:success-only-for-exit0+no-failure', None, ok,
                      'qmail_close returns "" (success) for status %s crashed=%s latch-on-entry=%s failed-write=%s' % (code, crashed, init, g1(E, '$failed', 0)), E)
        elif kind == '?':
            self.site('qmail_close:result-is-a-literal', None, False, 'unclassifiable return value', E)
        else:
            if crashed or w == -1:
                ok = kind == 'Z'
                self.site('qmail_close:crash->Z', None, ok, 'crashed/unknown child reported as %s' % kind, E)
            elif code == 0:
                self.site('qmail_close:exit0-with-failure->Z', None, kind == 'Z', 'exit 0 with the latch set reported as %s' % kind, E)
            elif 11 <= code <= 40:
                self.site('qmail_close:11..40->D', None, kind == 'D', 'exit %d reported as %s' % (code, kind), E)
            elif code == 82:
                self.site('qmail_close:82->custom-D/Z-text-or-Z', None, kind in ('errstr:D', 'errstr:Z', 'Z', 'D'),
                          'exit 82 (custom error text) is reported with the queue program\'s text although it does not start with D or Z (%s): callers take a result whose first byte is NUL for success and acknowledge a message that was not queued' % kind, E)
            elif code == 115:
                self.site('qmail_close:115-compat', None, kind in ('D', 'Z'), 'exit 115 reported as %s' % kind, E)
            else:
                self.site('qmail_close:other->Z', None, kind == 'Z', 'exit %d reported as %s (must be a temporary failure)' % (code, kind), E)


def deref_zero_test(cond, truth):
    """if (cond==truth) means *v == 0 for a local pointer v, return v's decl id"""
    c = cond.strip()
    neg = 0
    while c.k == 'un' and c.op == '!':
        neg += 1
        c = c.args[0].strip()
    if c.k == 'bin' and c.op in ('==', '!=') and c.args[1].const == 0:
        if c.op == '==':
            neg += 1
        c = c.args[0].strip()
    if c.k == 'un' and c.op == '*':
        v = c.args[0].var
        if v and (truth == (neg % 2 == 1)):
            return v
    return None


def defs_of(fn, var):
    out = []
    for x in fn.all_x():
        if x.k == 'asg' and x.op == '=' and x.args[0].var == var:
            out.append(x)
        if x.k == 'decl' and x.n.get('d') == var and x.args:
            out.append(x)
    return out


class SizeHooks(QHooks):
    """smtp_data() up to blast(), and put(): the size countdown as a function of databytes"""
    def __init__(self):
        self.armed = []
        self.after = []

    def tracked_global(self, path):
        return path.startswith('$') or path in ('G:databytes', 'G:bytestooverflow', 'G:seenmail', 'G:rcptto.len')

    def precise_arith(self, path):
        return True

    def prim_qmail_open(self, E, x, args):
        return [Outcome(ret=fs(0))]

    def _nop(self, E, x, args):
        return [Outcome(ret=TOP)]

    prim_qmail_qp = prim_out = prim_flush = prim_received = prim_qmail_put = prim_qmail_puts = _nop

    def prim_blast(self, E, x, args):
        self.armed.append((E.get('G:bytestooverflow'), E.trace.list()))
        return 'noreturn'

    def prim_qmail_fail(self, E, x, args):
        E.set('$fail', fs(1))
        return [Outcome(ret=TOP)]

    def on_return(self, E, fn, val):
        if fn.name == 'put':
            v = E.get('$fail')
            self.after.append((E.get('G:bytestooverflow'), 1 if v == fs(1) else 0))


def smtpd_size_sites(db, rep):
    """a message of n stored bytes is refused for size exactly when databytes != 0 and n > databytes"""
    prog = db.program('qmail-smtpd')
    sd = prog.fn('smtp_data', 'qmail-smtpd.c')
    pf = prog.fn('put', 'qmail-smtpd.c')
    out = {}
    bad = None
    for D in (0, 3):
        H = SizeHooks()
        e = Engine(db, prog, H)
        st = {'G:databytes': fs(D), 'G:seenmail': fs(1), 'G:rcptto.len': fs(5)}
        if D == 0:
            st['G:bytestooverflow'] = fs(0)
        e.run(sd, st)
        rep.count_states(e.states, e.transitions)
        if not H.armed:
            raise AnalysisBroken('smtp_data: blast() not reached')
        for bv, tr in H.armed:
            if bv is TOP or len(bv) != 1:
                bad = bad or ('databytes=%d: the countdown handed to blast() is not determined by databytes (left over from the previous message)' % D, tr)
                continue
            b = next(iter(bv))
            first = None
            for k in range(1, 8):
                H2 = SizeHooks()
                e2 = Engine(db, prog, H2)
                fid = e2.frame_id(pf)
                e2.run(pf, {'G:bytestooverflow': fs(b), '%s::%s' % (fid, pf.params[0]): fs(('&', 'CH'))})
                rep.count_states(e2.states, e2.transitions)
                if len(H2.after) != 1 or H2.after[0][0] is TOP or len(H2.after[0][0]) != 1:
                    raise AnalysisBroken('put(): countdown not modelled')
                b = next(iter(H2.after[0][0]))
                if H2.after[0][1] and first is None:
                    first = k
            want = None if D == 0 else D + 1
            if first != want:
                bad = bad or ('databytes=%d: the first stored byte refused for size is byte %s (documented: %s): %s' %
                              (D, first, want, 'a message of exactly databytes bytes is refused' if first is not None and want is not None and first < want else 'the limit is not enforced at databytes+1'), tr)
    out['smtpd:size-refusal-exactly-from-stored-byte-databytes+1'] = (bad is None, 'qmail-smtpd.c:smtp_data/put', bad[0] if bad else '', bad[1] if bad else [])
    return out



def wrapper_returns_only_positive(db, rep, p, f, entry):
    """explore a read/write wrapper: the underlying timeoutread/timeoutwrite/read/write yields -1 (timeout or other
    error), 0 or 5: the wrapper may return only on 5, with 5"""
    class SR(QHooks):
        def __init__(self):
            self.rets = []

        def tracked_global(self, path):
            return path.startswith('$')

        def prim_timeoutread(self, E, x, args):
            return [Outcome(ret=fs(-1), sets={'$errno': fs(110), '$r': fs(-1)}), Outcome(ret=fs(-1), sets={'$errno': fs(5), '$r': fs(-1)}),
                    Outcome(ret=fs(0), sets={'$r': fs(0)}), Outcome(ret=fs(5), sets={'$r': fs(5)})]

        prim_read = prim_write = prim_timeoutwrite = prim_timeoutread

        def prim___errno_location(self, E, x, args):
            return [Outcome(ret=fs(('&', '$errno')))]

        def _n(self, E, x, args):
            return [Outcome(ret=TOP)]

        prim_flush = prim_out = prim_substdio_flush = _n

        def prim__exit(self, E, x, args):
            return 'noreturn'

        def prim_dropped(self, E, x, args):
            return 'noreturn'

        def on_return(self, E, fn, val):
            if fn.name == entry:
                self.rets.append((g1(E, '$r'), val))
    SH_ = SR()
    e_ = Engine(db, p, SH_)
    e_.run(f, {})
    rep.count_states(e_.states, e_.transitions)
    return bool(SH_.rets) and all(r_ == 5 and v_ == fs(5) for r_, v_ in SH_.rets)



def latch_sites(db, rep, prog):
    """qmail.c failure latch: per function and initial latch value (shared with C03, C05, C14: their refusals rely on it)"""
    H = LatchHooks()
    states = 0
    for name, bind in (('qmail_put', 'fde'), ('qmail_puts', 'fde'), ('qmail_from', 'fdm'), ('qmail_to', 'fde'), ('qmail_close', 'fde'), ('qmail_fail', 'fde')):
        fn = prog.resolve(name, 'qmail.c')
        if fn is None or not fn.blocks:
            if name == 'qmail_puts':
                continue
            raise AnalysisBroken('qmail.c: %s not found' % name)
        for init in (0, 1):
            H.fn = name
            eng = Engine(db, prog, H)
            fid = eng.frame_id(fn)
            st = {'%s::%s' % (fid, fn.params[0]): fs(('&', 'OBJ')), 'OBJ.flagerr': fs(init), '$bind': fs(bind), '$init': fs(init)}
            eng.run(fn, st)
            states += eng.states
            rep.count_states(eng.states, eng.transitions)
    if H.events < 6:
        raise AnalysisBroken('qmail.c: fewer than 6 write events explored')
    return dict(H.sites), states



def databytes_setup_sites(db, rep):
    """the size limit after start-up: for every source (control file, $DATABYTES, both) and every value including the
    largest one, databytes + 1 does not wrap to 0 (a countdown armed with 0 is "unlimited", and the final test
    databytes && !bytestooverflow then refuses every message AFTER it was queued)"""
    out = {}
    for pname, unit, fname, stop in (('qmail-qmtpd', 'qmail-qmtpd.c', 'main', 'stralloc_copys'), ('qmail-smtpd', 'qmail-smtpd.c', 'setup', None)):
        prog = db.program(pname)
        fn = prog.fn(fname, unit)

        class DB_(QHooks):
            def __init__(self):
                self.finals = []

            def tracked_global(self, path):
                return path.startswith('$') or path == 'G:databytes'

            def precise_arith(self, path):
                return True

            def prim_control_readint(self, E, x, args):
                v = args[0]
                v = next(iter(v)) if v is not TOP and len(v) == 1 else None
                lit = x.args[1].string or ''
                if 'databytes' not in lit or not (isinstance(v, tuple) and v[0] == '&'):
                    return [Outcome(ret=fs(0)), Outcome(ret=fs(1), havoc=self._arg_roots(E, x, args))]
                return [Outcome(ret=fs(0), sets={'$file': fs('absent')})] + [Outcome(ret=fs(1), sets={v[1]: fs(val), '$file': fs(val)}) for val in (0, 5, 0xFFFFFFFE, 0xFFFFFFFF)]

            def prim_env_get(self, E, x, args):
                if x.args[0].string == 'DATABYTES':
                    return [Outcome(ret=fs(0), sets={'$env': fs('unset')}), Outcome(ret=fs(('&', 'ENVDB[0]')), sets={'$env': fs('set')})]
                return [Outcome(ret=fs(0)), Outcome(ret=fs(('&', 'ENVX[0]')))]

            def prim_scan_ulong(self, E, x, args):
                v = args[1]
                v = next(iter(v)) if v is not TOP and len(v) == 1 else None
                src = args[0]
                if not (isinstance(v, tuple) and v[0] == '&') or src != fs(('&', 'ENVDB[0]')):
                    return [Outcome(ret=fs(0)), Outcome(ret=fs(3), havoc=self._arg_roots(E, x, args))]
                return [Outcome(ret=fs(3), sets={v[1]: fs(val), '$envval': fs(val)}) for val in (0, 7, 0xFFFFFFFE, 0xFFFFFFFF, 0x1FFFFFFFF)]

            def _ok0(self, E, x, args):
                return [Outcome(ret=fs(0))]

            prim_chdir = prim_control_init = prim_rcpthosts_init = prim_control_readfile = _ok0

            def prim_control_rldef(self, E, x, args):
                return [Outcome(ret=fs(1))]

            def _n(self, E, x, args):
                return [Outcome(ret=TOP)]

            prim_sig_pipeignore = prim_sig_alarmcatch = prim_alarm = prim_str_len = prim_strlen = prim_constmap_init = prim_ipme_init = prim_dohelo = _n

            def fin(self, E):
                self.finals.append((g1(E, '$file'), g1(E, '$env'), g1(E, '$envval'), g1(E, 'G:databytes'), E.trace.list()))

            def on_call(self, E, x, args):
                if stop and x.callee == stop:
                    self.fin(E)
                    return 'noreturn'
                return super().on_call(E, x, args)

            def on_return(self, E, f_, val):
                if f_.name == fname:
                    self.fin(E)
        H = DB_()
        e = Engine(db, prog, H, max_states=400000)
        e.run(fn, {'G:databytes': fs(0)})      # its initialiser
        rep.count_states(e.states, e.transitions)
        rel = [r_ for r_ in H.finals if r_[0] is not None]
        if len(rel) < 10:
            raise AnalysisBroken('%s: databytes set-up not explored (%d ends)' % (pname, len(rel)))
        bad = None
        for fv, ev, evv, dbv, tr in rel:
            if not isinstance(dbv, int) or ((dbv + 1) & 0xFFFFFFFF) == 0:
                bad = bad or ('control/databytes %s, $DATABYTES %s%s: the limit in force is %s, and limit + 1 wraps to 0' % (fv, ev, ' = %s' % evv if ev == 'set' else '', dbv), tr)
        out['%s:size-limit+1-never-wraps-to-0' % pname] = (bad is None, '%s:%s' % (unit, fname), bad[0] if bad else '%d (file, environment) combinations' % len(rel), bad[1] if bad else [])
    return out



from rules import libtab as _lt


class NetSession(_lt.SAConc, _lt.Conc):
    """a whole QMTP/QMQP session of the daemon's main() over a scripted byte stream: what reaches the queue interface,
    what is written to the client, and how the process ends"""
    def __init__(self, script, close='', rcpt_ok=1, relay=None):
        _lt.Conc.__init__(self, 'main')
        self.script = script
        self.ends = []
        self.close = close          # what the queue program answers when nothing was failed ('' = queued)
        self.rcpt_ok = rcpt_ok      # rcpthosts() verdict: a number, or a function of the address
        self.relay = relay

    def ev(self, E, e):
        E.set('$ev', fs(_lt._one(E.get('$ev')) + (e,) if _lt._one(E.get('$ev')) else (e,)))

    def events(self, E):
        return list(_lt._one(E.get('$ev')) or ())

    def _none(self, E, x, args):
        return [Outcome(ret=TOP)]

    def _zero(self, E, x, args):
        return [Outcome(ret=fs(0))]

    prim_sig_pipeignore = prim_sig_alarmcatch = prim_alarm = prim_received = _none
    prim_chdir = prim_control_init = prim_rcpthosts_init = prim_env_get = prim_control_readint = prim_qmail_open = prim_substdio_flush = _zero

    def prim_qmail_qp(self, E, x, args):
        return [Outcome(ret=fs(77))]

    def prim_now(self, E, x, args):
        return [Outcome(ret=fs(1000))]

    prim_time = prim_now

    def prim_rcpthosts(self, E, x, args):
        n_ = _lt._one(args[1])
        a_ = self.mem(E, _lt._one(args[0]), n_) if isinstance(n_, int) and 0 <= n_ < 2000 else None
        return [Outcome(ret=fs(self.rcpt_ok(a_) if callable(self.rcpt_ok) else self.rcpt_ok))]

    def prim_qmail_put(self, E, x, args):
        n = _lt._one(args[2])
        self.ev(E, ('put', self.mem(E, _lt._one(args[1]), n) if isinstance(n, int) and 0 <= n < 4096 else None))
        return [Outcome(ret=TOP)]

    def prim_qmail_puts(self, E, x, args):
        self.ev(E, ('put', self.cstring(E, _lt._one(args[1]))))
        return [Outcome(ret=TOP)]

    def prim_qmail_from(self, E, x, args):
        self.ev(E, ('from', self.cstring(E, _lt._one(args[1]))))
        return [Outcome(ret=TOP)]

    def prim_qmail_to(self, E, x, args):
        self.ev(E, ('to', self.cstring(E, _lt._one(args[1]))))
        return [Outcome(ret=TOP)]

    def prim_qmail_fail(self, E, x, args):
        self.ev(E, ('fail',))
        return [Outcome(ret=TOP)]

    def prim_qmail_close(self, E, x, args):
        failed = ('fail',) in self.events(E)
        self.ev(E, ('close',))
        return [Outcome(ret=fs(('str', 'Zqq failed' if failed else self.close)))]      # a failed message is never queued

    def _stream(self, E, v):
        v = _lt._one(v)
        return v[1] if isinstance(v, tuple) and v[0] == '&' else None

    def prim_substdio_get(self, E, x, args):
        from qv.esp import ptr_add
        if self._stream(E, args[0]) != 'G:ssin':
            raise AnalysisBroken('%s: reads from %s' % (x.where, x.args[0].src()))
        k = _lt._one(E.get('$k')) or 0
        n = _lt._one(args[2])
        p = _lt._one(args[1])
        if not (isinstance(n, int) and n >= 1 and isinstance(p, tuple) and p[0] == '&'):
            raise AnalysisBroken('%s: substdio_get(%s) with an undetermined target or count' % (x.where, x.src()))
        if k >= len(self.script):
            self.ends.append((self.events(E), ('eof',)))
            return 'noreturn'
        data = self.script[k:k + n]          # a read hands back what is there, at least one byte
        sets = {'$k': fs(k + len(data))}
        for i, b in enumerate(data):
            q = ptr_add(p, i) or (p if i == 0 else None)
            if q is None:
                raise AnalysisBroken('%s: substdio_get into %r' % (x.where, p))
            sets[q[1]] = fs(b - 256 if b >= 128 else b)
        for q_, v_ in sets.items():
            if not q_.startswith('$'):
                self.on_assign(E, x, q_, v_)
        return [Outcome(ret=fs(len(data)), sets=sets)]

    prim_substdio_bget = prim_substdio_get

    def prim_substdio_put(self, E, x, args):
        n = _lt._one(args[2])
        self.ev(E, ('out', self.mem(E, _lt._one(args[1]), n) if isinstance(n, int) and 0 <= n < 4096 else None))
        return [Outcome(ret=fs(0))]

    prim_substdio_bput = prim_substdio_putflush = prim_substdio_put

    def prim_substdio_puts(self, E, x, args):
        self.ev(E, ('out', self.cstring(E, _lt._one(args[1]))))
        return [Outcome(ret=fs(0))]

    prim_substdio_bputs = prim_substdio_putsflush = prim_substdio_puts

    def prim__exit(self, E, x, args):
        self.ends.append((self.events(E), ('exit', _lt._one(args[0]))))
        return 'noreturn'

    def on_assign(self, E, x, path, val):
        import re as _re
        m = _re.match(r'^G:(buf2?)\[(-?\d+)\]', path or '')
        if m and not (0 <= int(m.group(2)) < {'buf': 1000, 'buf2': 100}[m.group(1)]):
            self.ev(E, ('overflow', path))


def netstring(b):
    return str(len(b)).encode() + b':' + b + b','


def run_session(db, rep, pname, unit, script, close='', rcpt_ok=1, databytes=0):
    prog = db.program(pname)
    main = prog.fn('main', unit)
    H = NetSession(script, close, rcpt_ok)
    if databytes:
        H.prim_control_readint = lambda E, x, args, d_=databytes: [Outcome(ret=fs(1), sets={_lt._one(args[0])[1]: fs(d_)})] if (x.args[1].string or '').endswith('databytes') or True else [Outcome(ret=fs(0))]
    e = Engine(db, prog, H, max_states=400000)
    st = {'G:databytes': fs(0), 'G:bytestooverflow': fs(0), 'G:bytesleft': fs(100), 'G:flagok': fs(1), 'G:failure.len': fs(0), 'G:failure.a': fs(0), 'G:failure.s': fs(0),
          'G:relayclient': fs(0), 'G:relayclientlen': fs(0)}       # the start-up values of the program's globals
    e.run(main, st)
    rep.count_states(e.states, e.transitions)
    if len(H.ends) != 1:
        raise AnalysisBroken('%s: %d ends for the session %r' % (pname, len(H.ends), script[:60]))
    return H.ends[0]


def wire_session(qmtp, msg, sender, rcpts, lens=None):
    """a QMTP / QMQP session; lens: replacement texts for the length fields, by position (0 message, 1 sender, 2 recipient list (QMTP) / whole package (QMQP), 3.. recipients)"""
    lens = lens or {}

    def ns(b, k):
        return lens.get(k, str(len(b)).encode()) + b':' + b + b','
    body = (b'\n' + msg) if qmtp else msg
    if qmtp:
        rl = b''.join(ns(r, 3 + i) for i, r in enumerate(rcpts))
        return ns(body, 0) + ns(sender, 1) + ns(rl, 2)
    inner = ns(body, 0) + ns(sender, 1) + b''.join(ns(r, 3 + i) for i, r in enumerate(rcpts))
    return ns(inner, 2)


def length_overflow_sites(db, rep):
    """a netstring length that does not fit the length variable (2^32+1, 2^64+1, eleven nines) in any field: the session ends as
    out of resources or malformed, never with a wrapped length taken for a small one"""
    out = {}
    for pname, unit in (('qmail-qmtpd', 'qmail-qmtpd.c'), ('qmail-qmqpd', 'qmail-qmqpd.c')):
        qmtp = pname == 'qmail-qmtpd'
        bad = None
        n = 0
        for pos in (0, 1, 2, 3):
            for txt in (b'4294967297', b'18446744073709551617', b'99999999999', b'4294967298', b'18446744073709551619'):
                if bad:
                    break
                evs, end = run_session(db, rep, pname, unit, wire_session(qmtp, b'hi', b'a@b', [b'c@d', b'e@f'], {pos: txt}))
                n += 1
                outb = b''.join(e[1] or b'?' for e in evs if e[0] == 'out')
                if any(e[0] == 'close' for e in evs) or b'K' in outb or end not in (('exit', 111), ('exit', 100)):
                    bad = 'a session whose length field %d reads %r: %s, reply %r, then %s; documented: a length beyond the 200000000 limit ends the session (exit 111 or 100) before the number can wrap' % (
                        pos, txt, [e for e in evs if e[0] != 'put'][:6], outb[:30], end)
        out['%s:over-long-lengths-end-the-session-before-they-wrap' % pname] = (bad is None, unit + ':main', bad or '%d scripted sessions' % n, [])
    return out


def verdict_sites(db, rep):
    """the daemons' answers over scripted sessions: the positive reply exactly when the queue program took the message; every refusal cause
    (bad sender, no acceptable recipient, message beyond databytes in either line mode) fails the message before the queue is asked"""
    out = {}
    for pname, unit in (('qmail-qmtpd', 'qmail-qmtpd.c'), ('qmail-qmqpd', 'qmail-qmqpd.c')):
        qmtp = pname == 'qmail-qmtpd'
        n = [0]

        def run(msg=b'hi', sender=b'a@b', rcpts=(b'c@d', b'e@f'), mode=b'\n', **kw):
            n[0] += 1
            if qmtp:
                lens = None
                body = mode + msg
                ns = lambda b: str(len(b)).encode() + b':' + b + b','
                script = ns(body) + ns(sender) + ns(b''.join(ns(r) for r in rcpts))
            else:
                script = wire_session(False, msg, sender, list(rcpts))
            evs, end = run_session(db, rep, pname, unit, script, **kw)
            outb = b''.join(e[1] or b'?' for e in evs if e[0] == 'out')
            return evs, end, outb

        def replies(outb):
            """the netstrings of the reply"""
            res = []
            while outb:
                k = outb.find(b':')
                if k < 0 or not outb[:k].isdigit():
                    return res + [None]
                ln = int(outb[:k])
                res.append(outb[k + 1:k + 1 + ln])
                outb = outb[k + 2 + ln:]
            return res

        def fail_before_close(evs):
            ks = [e[0] for e in evs]
            return 'fail' in ks and 'close' in ks and ks.index('fail') < ks.index('close') or ('fail' in ks and 'close' not in ks)
        bad = {}

        def check(key, ok, text):
            if not ok:
                bad.setdefault(key, text)
        # the positive reply exactly when the queue took the message
        for close in ('', 'Dqq permanent problem (#5.3.0)', 'Zqq temporary problem (#4.3.0)'):
            evs, end, outb = run(close=close)
            rs = replies(outb)
            want = b'K' if close == '' else close[:1].encode()
            check('ack-iff-the-queue-took-the-message', bool(rs) and None not in rs and all(r_[:1] == want for r_ in rs) and (close == '' or all(r_ == close.encode() for r_ in rs)) and ('close',) in evs,
                  'the queue program answers %r and the client is told %s' % (close or 'success', rs))
        # refusal causes
        evs, end, outb = run(sender=b'a\0b')
        check('bad-sender-fails-the-message', fail_before_close(evs) and all(r_ is not None and r_[:1] == b'D' for r_ in replies(outb)) and replies(outb),
              'a sender containing a NUL: %s, client told %s' % ([e for e in evs if e[0] != 'put'][:6], replies(outb)))
        evs, end, outb = run(rcpts=(b'c\0d', b'e@f'))
        rs = replies(outb)
        if qmtp:
            okr = ('to', b'e@f') in evs and not any(e[0] == 'to' and e[1] != b'e@f' for e in evs) and len(rs) == 2 and rs[0] is not None and rs[0][:1] == b'D' and rs[1][:1] == b'K'
        else:
            okr = fail_before_close(evs) and not any(e[0] == 'to' and e[1] != b'e@f' for e in evs) and len(rs) == 1 and rs[0][:1] == b'D'
        check('bad-recipient-is-refused-and-not-handed-on', okr, 'a recipient containing a NUL followed by a good one: %s, client told %s' % ([e for e in evs if e[0] != 'put'][:6], rs))
        if qmtp:
            evs, end, outb = run(rcpt_ok=0)
            rs = replies(outb)
            check('no-acceptable-recipient-fails-the-message', fail_before_close(evs) and not any(e[0] == 'to' for e in evs) and len(rs) == 2 and all(r_ is not None and r_[:1] == b'D' for r_ in rs),
                  'rcpthosts refuses every recipient: %s, client told %s' % ([e for e in evs if e[0] != 'put'][:6], rs))
            evs, end, outb = run(rcpt_ok=lambda a_: 0 if a_ == b'c@d' else 1)
            rs = replies(outb)
            check('refused-recipients-are-not-handed-on', [e for e in evs if e[0] == 'to'] == [('to', b'e@f')] and ('fail',) not in evs and len(rs) == 2 and rs[0][:1] == b'D' and rs[1][:1] == b'K',
                  'rcpthosts refuses the first of two recipients: %s, client told %s' % ([e for e in evs if e[0] != 'put'][:6], rs))
            for mode, name in ((b'\n', 'LF'), (b'\r', 'CRLF')):
                for msg, over in ((b'abcd', False), (b'abcde', True), (b'abcdefghij', True)):
                    evs, end, outb = run(msg=msg, mode=mode, databytes=4)
                    rs = replies(outb)
                    if over:
                        oks = fail_before_close(evs) and rs and all(r_ is not None and r_[:1] == b'D' for r_ in rs)
                    else:
                        oks = ('fail',) not in evs and rs and all(r_ is not None and r_[:1] == b'K' for r_ in rs) and b''.join(e[1] or b'?' for e in evs if e[0] == 'put') == msg
                    check('message-beyond-databytes-fails(%s-mode)' % name, oks, 'databytes = 4, a message of %d bytes in %s mode: %s, client told %s' % (len(msg), name, [e for e in evs if e[0] != 'put'][:5], rs))
        for key in ['ack-iff-the-queue-took-the-message', 'bad-sender-fails-the-message', 'bad-recipient-is-refused-and-not-handed-on'] + \
                (['no-acceptable-recipient-fails-the-message', 'refused-recipients-are-not-handed-on', 'message-beyond-databytes-fails(LF-mode)', 'message-beyond-databytes-fails(CRLF-mode)'] if qmtp else []):
            out['%s:%s' % (pname, key)] = (key not in bad, unit + ':main', bad.get(key, '%d scripted sessions' % n[0]), [])
    return out


def session_sites(db, rep):
    """both netstring daemons over well-formed sessions, sessions with a malformed length, and addresses at the size limit"""
    out = {}
    for pname, unit in (('qmail-qmtpd', 'qmail-qmtpd.c'), ('qmail-qmqpd', 'qmail-qmqpd.c')):
        qmtp = pname == 'qmail-qmtpd'

        def wire(msg, sender, rcpts, lens=None):
            """lens: replacement texts for the length fields, by position (0 message, 1 sender, 2 recipient list (QMTP) / whole package (QMQP), 3.. recipients)"""
            lens = lens or {}

            def ns(b, k):
                return lens.get(k, str(len(b)).encode()) + b':' + b + b','
            body = (b'\n' + msg) if qmtp else msg
            if qmtp:
                rl = b''.join(ns(r, 3 + i) for i, r in enumerate(rcpts))
                return ns(body, 0) + ns(sender, 1) + ns(rl, 2)
            inner = ns(body, 0) + ns(sender, 1) + b''.join(ns(r, 3 + i) for i, r in enumerate(rcpts))
            return ns(inner, 2)

        def describe(evs):
            return [(e[0], (e[1][:24] + b'..' if isinstance(e[1], bytes) and len(e[1]) > 26 else e[1]) if len(e) > 1 else '') for e in evs if e[0] != 'put'][:8]
        bad = None
        n = 0
        # 1. a well-formed session is queued as it was sent and acknowledged
        evs, end = run_session(db, rep, pname, unit, wire(b'hi', b'a@b', [b'c@d', b'e@f']))
        n += 1
        puts = b''.join(e[1] or b'?' for e in evs if e[0] == 'put')
        seq = [e for e in evs if e[0] in ('from', 'to', 'fail', 'close', 'overflow')]
        outb = b''.join(e[1] or b'?' for e in evs if e[0] == 'out')
        if not (puts == b'hi' and seq == [('from', b'a@b'), ('to', b'c@d'), ('to', b'e@f'), ('close',)] and b'Kok 1000 qp 77' in outb):
            bad = 'the session <hi, from a@b, to c@d e@f> gives message %r, %s, reply %r' % (puts, describe(evs), outb[:40])
        # 2. a length field that is not a decimal number is malformed framing: never queued, never acknowledged
        for pos in ((0, 1, 2, 3, 4)):
            for junk in (b'/', b'x', b' ', b'+', b'\xb1', b';'):
                for where in ('after', 'before'):
                    if bad:
                        break
                    fields = [b'\nhi' if qmtp else b'hi', b'a@b', None, b'c@d', b'e@f']
                    if pos == 2:
                        true = len(netstring(b'c@d') + netstring(b'e@f')) if qmtp else len(netstring(fields[0]) + netstring(b'a@b') + netstring(b'c@d') + netstring(b'e@f'))
                    else:
                        true = len(fields[pos])
                    txt = str(true).encode()
                    txt = (txt + junk) if where == 'after' else (junk + txt)
                    evs, end = run_session(db, rep, pname, unit, wire(b'hi', b'a@b', [b'c@d', b'e@f'], {pos: txt}))
                    n += 1
                    outb = b''.join(e[1] or b'?' for e in evs if e[0] == 'out')
                    if any(e[0] == 'close' for e in evs) or b'K' in outb or end != ('exit', 100):
                        bad = 'a session whose length field %d reads %r (the length is %d): %s, reply %r, then %s; documented: malformed framing ends the session (exit 100) and nothing is queued or acknowledged' % (pos, txt, true, describe(evs), outb[:30], end)
        # 3. addresses: up to 999 bytes are passed on whole, 1000 and more and addresses with a NUL are refused; the buffer is never overrun
        for which in ('sender', 'recipient'):
            for ln, nul in ((999, False), (1000, False), (1001, False), (1300, False), (3, True), (0, False)):
                if bad:
                    break
                addr = (b'a' * ln) if not nul else b'a\0b'
                s_, r_ = (addr, [b'c@d']) if which == 'sender' else (b'a@b', [addr])
                evs, end = run_session(db, rep, pname, unit, wire(b'hi', s_, r_))
                n += 1
                accepted = ((which == 'sender' and ('from', addr) in evs) or (which == 'recipient' and ('to', addr) in evs)) and ('fail',) not in evs
                # a failed message is discarded by the queue whatever was handed over before; a refused recipient is not handed over at all
                refused = ('fail',) in evs and not (which == 'recipient' and any(e[0] == 'to' for e in evs))
                want_ok = ln <= 999 and not nul
                over = [e for e in evs if e[0] == 'overflow']
                if over or (accepted if not want_ok else not accepted) or (not want_ok and not refused):
                    bad = 'a %s of %d bytes%s: %s%s; documented: %s' % (which, len(addr), ' containing a NUL' if nul else '', describe(evs), ' and a store outside the address buffer (%s)' % over[0][1] if over else '',
                                                                    'passed on whole' if want_ok else 'refused (the queue is told to fail, or the recipient is answered with a refusal), never passed on cut short')
        out['%s:sessions-with-malformed-lengths-or-oversized-addresses' % pname] = (bad is None, unit + ':main', bad or '%d scripted sessions' % n, [])
    return out


def run(ctx):
    db, rep = ctx.db, ctx.report
    prog = db.program('qmail-smtpd')
    # ---------------------------------------------------------------- 1. latch
    r1 = rep.rule('C07.1-failure-latch', 'R-TYPESTATE', 'qmail.c: once the latch is set no byte reaches the envelope descriptor, nothing clears it, every failed write sets it, qmail_fail sets it')
    lsites, states = latch_sites(db, rep, prog)
    for inst, (ok, where, detail, path) in sorted(lsites.items()):
        r1.check(ok, inst, where, detail, path)
    r1.expect_min(10)
    # envelope terminator goes through qmail_put
    qc = prog.fn('qmail_close', 'qmail.c')
    term = [c for c in qc.calls('qmail_put') if c.args[1].string == '' and c.args[2].const == 1]
    r1.check(bool(term), 'qmail_close:terminator-through-qmail_put', qc.unit + ':qmail_close', 'the envelope terminator must be written with qmail_put (guarded by the latch)')
    # qmail_open clears the latch (only place)
    for fn in prog.functions():
        if fn.unit != 'qmail.c':
            continue
        for x in fn.all_x():
            if x.k == 'asg' and (x.args[0].path() or '').endswith('->flagerr') and x.args[1].const == 0:
                r1.check(fn.name == 'qmail_open', 'latch-cleared-only-in-qmail_open', x.where, 'flagerr = 0 in %s' % fn.name)

    # ---------------------------------------------------------------- 2. qmail_close table
    r2 = rep.rule('C07.2-close-table', 'R-TABLE', 'qmail_close(): "" only for exit 0 without failure; 11..40 -> D; crash and every other status -> Z (82 custom text, 115 compat: don\'t care)')
    # the status macros every verdict on a child process goes through (wait.h): as functions of the status word
    from rules import libtab as _lt
    for inst_, v_ in sorted(_lt.waitmacro_sites(db, 'qmail.c').items()):
        r2.check(v_[0], inst_, v_[1], v_[2], v_[3])
    H2 = CloseHooks()
    for init in (0, 1):
        H2.fn = 'qmail_close'
        eng = Engine(db, prog, H2, max_states=4000000)
        fid = eng.frame_id(qc)
        eng.run(qc, {'%s::%s' % (fid, qc.params[0]): fs(('&', 'OBJ')), 'OBJ.flagerr': fs(init), 'OBJ.pid': fs('PID'), '$bind': fs('fde'), '$init': fs(init)})
        rep.count_states(eng.states, eng.transitions)
    for inst, (ok, where, detail, path) in sorted(H2.sites.items()):
        if inst.startswith('qmail_close:') and not inst.endswith('latch') and 'latch-stays' not in inst and 'failed-write' not in inst and 'no-envelope' not in inst:
            r2.check(ok, inst, where, detail, path)
    r2.expect_min(6)
    tab = {}
    for (code, l), kinds in H2.table.items():
        tab.setdefault('/'.join(sorted(kinds)) + ' [' + l + ']', []).append(code)
    rep.sample({'qmail_close table (result class -> statuses)': {k: (sorted([c for c in v if isinstance(c, int)])[:40], [c for c in v if not isinstance(c, int)]) for k, v in tab.items()}})
    if len(H2.table) < 500:
        raise AnalysisBroken('qmail_close table has only %d cells (expected 2 x 257)' % len(H2.table))
    rep.exhaustive_rules.append('C07.2-close-table')

    # ---------------------------------------------------------------- 3. positive ack only on the empty result
    r3 = rep.rule('C07.3-ack-needs-empty-result', 'R-GUARD', 'the positive reply is produced only where *result == 0 with result defined by qmail_close (overrides are non-empty D texts)')
    sd = prog.fn('smtp_data', 'qmail-smtpd.c')
    maxhops = db.unit('qmail-smtpd.c').macro_int('MAXHOPS')
    if maxhops is None:
        raise AnalysisBroken('MAXHOPS not found')

    class AckHooks(QHooks):
        """smtp_data() with blast() and the queue interface as events: the reply class for every combination of hop
        count, size overflow and queue verdict"""
        def __init__(self):
            self.rows = []
            self.seqs = []
            self.openfail = []

        def tracked_global(self, path):
            return True

        def precise_arith(self, path):
            return True

        def seq(self, E, e):
            E.set('$seq', fs(tuple(g1(E, '$seq', ())) + (e,)))

        def prim_qmail_open(self, E, x, args):
            self.seq(E, 'open')
            return [Outcome(ret=fs(0)), Outcome(ret=fs(-1), sets={'$openfailed': fs(1)}, log='qmail_open fails')]

        def _n(self, E, x, args):
            return [Outcome(ret=TOP)]

        def _e(self, E, x, args):
            self.seq(E, {'qmail_from': 'from', 'qmail_put': 'put', 'qmail_puts': 'put', 'qmail_to': 'to'}.get(x.callee, x.callee))
            return [Outcome(ret=TOP)]

        prim_qmail_qp = prim_flush = prim_fmt_ulong = prim_now = _n
        prim_received = prim_qmail_from = prim_qmail_to = prim_qmail_put = prim_qmail_puts = _e

        def prim_blast(self, E, x, args):
            hp = args[0]
            hp = next(iter(hp)) if hp is not TOP and len(hp) == 1 else None
            if not (isinstance(hp, tuple) and hp[0] == '&'):
                raise AnalysisBroken('smtp_data: blast() is not handed the address of the hop counter')
            outs = []
            for h in (0, maxhops - 1, maxhops, maxhops + 50):
                for over in (0, 1):
                    st = {hp[1]: fs(h), '$hops': fs(h), '$over': fs(over)}
                    if over:
                        if g1(E, 'G:databytes') == 0:
                            continue
                        st['G:bytestooverflow'] = fs(0)
                        st['$failed'] = fs(1)
                    elif g1(E, 'G:databytes'):
                        st['G:bytestooverflow'] = fs(3)
                    outs.append(Outcome(ret=TOP, sets=st, log='message read: %d hops, size overflow=%d' % (h, over)))
            self.seq(E, 'blast')
            return outs

        def prim_qmail_fail(self, E, x, args):
            E.set('$failed', fs(1))
            self.seq(E, 'fail')
            return [Outcome(ret=TOP)]

        def prim_qmail_close(self, E, x, args):
            self.seq(E, 'close')
            outs = [Outcome(ret=fs(('str', 'Dpolicy')), sets={'$qq': fs('D')}), Outcome(ret=fs(('str', 'Zbusy')), sets={'$qq': fs('Z')})]
            if not g1(E, '$failed', 0):
                outs.append(Outcome(ret=fs(('str', '')), sets={'$qq': fs('')}))
            return outs

        def prim_out(self, E, x, args):
            v = args[0]
            v = next(iter(v)) if v is not TOP and len(v) == 1 else None
            if isinstance(v, tuple) and v[0] == 'str' and v[1][:3].isdigit() and v[1][:3] != '354' and g1(E, '$code') is None:
                E.set('$code', fs(v[1][:3]))
            return [Outcome(ret=TOP)]

        def on_return(self, E, fn, val):
            if fn.name == 'smtp_data' and g1(E, '$qq') is not None:
                self.rows.append((g1(E, 'G:databytes'), g1(E, '$hops'), g1(E, '$over'), g1(E, '$qq'), g1(E, '$failed', 0), g1(E, '$code'), E.trace.list()))
                self.seqs.append((tuple(g1(E, '$seq', ())), g1(E, '$hops'), E.trace.list()))
            elif fn.name == 'smtp_data' and g1(E, '$openfailed'):
                self.openfail.append((tuple(g1(E, '$seq', ())), g1(E, '$code'), E.trace.list()))
    badack = None
    nrows = 0
    all_seqs, all_openfail = [], []
    for db_ in (0, 10):
        AH = AckHooks()
        e_ = Engine(db, prog, AH)
        e_.run(sd, {'G:seenmail': fs(1), 'G:rcptto.len': fs(5), 'G:databytes': fs(db_), 'G:bytestooverflow': fs(0)})
        rep.count_states(e_.states, e_.transitions)
        all_seqs += AH.seqs
        all_openfail += AH.openfail
        for dbv, hops, over, qq, failed, code, tr in AH.rows:
            nrows += 1
            if hops >= maxhops and not failed:
                want = 'latch'
            elif qq == '':
                want = '250'
            elif hops >= maxhops:
                want = '554'
            elif over:
                want = '552'
            elif qq == 'D':
                want = '554'
            else:
                want = '451'
            if (want == 'latch' or code != want) and badack is None:
                badack = ('databytes=%s, %s hops (limit %s), size overflow=%s, queue verdict %r: the client is told %s (documented %s)' %
                          (dbv, hops, maxhops, over, qq, code, 'a refusal latched with qmail_fail() before the envelope is sent' if want == 'latch' else want), tr)
    if nrows < 20 and badack is None:
        raise AnalysisBroken('smtp_data: only %d reply scenarios explored' % nrows)
    r3.check(badack is None, 'smtpd:reply-class-per-(hops,size,queue-verdict)', sd.unit + ':smtp_data', badack[0] if badack else '%d scenarios' % nrows, badack[1] if badack else None)
    vsites = verdict_sites(db, rep)
    for inst_, v_ in sorted(vsites.items()):
        if inst_.endswith(':ack-iff-the-queue-took-the-message'):
            r3.check(v_[0], inst_, v_[1], v_[2], v_[3])
    r3.expect_min(3)

    # ---------------------------------------------------------------- 4. refusal causes latch before close
    r4 = rep.rule('C07.4-refusals-latch', 'R-ORDER', 'hop limit (>= MAXHOPS = 100), size countdown, bad sender/recipient each call qmail_fail before qmail_close')
    # the hop counter itself: exactly the header lines that begin with received/delivered-to are counted (C05 rule 3)
    from rules import C05 as _c05
    hs_, _ = _c05.hop_sites(db, rep, cap=2)
    for inst_, v_ in sorted(hs_.items()):
        r4.check(v_[0], 'smtpd:' + inst_, v_[1], v_[2], v_[3])
    from qv.lib import branch_zero_test, consistent_values, deep_calls, _cmp_parts
    from qv.esp import Env
    maxhops = db.unit('qmail-smtpd.c').macro_int('MAXHOPS')
    r4.check(maxhops == 100, 'MAXHOPS==100', 'qmail-smtpd.c', 'MAXHOPS is %s' % maxhops)
    # smtp_data over (hop count, size overflow, queue verdict) — the runs of rule 3: what reaches the queue interface, in which order
    bad_order = bad_fail = None
    for seq_, hops_, tr_ in all_seqs:
        ks = [k_ for k_ in seq_ if k_ in ('open', 'received', 'blast', 'from', 'close')]
        if ks != ['open', 'received', 'blast', 'from', 'close'] and bad_order is None:
            bad_order = ('smtp_data hands the message over as %s; documented: open, Received line, message, envelope, close' % (list(seq_),), tr_)
        if hops_ is not None and maxhops is not None:
            f_between = 'fail' in seq_ and 'blast' in seq_ and 'close' in seq_ and seq_.index('blast') < seq_.index('fail') < len(seq_) - 1 - seq_[::-1].index('close') + 1
            if hops_ >= maxhops and not f_between and bad_fail is None:
                bad_fail = ('a message with %d hop fields (limit %d) reaches the queue as %s: it must be failed after it was read and before the queue is asked' % (hops_, maxhops, list(seq_)), tr_)
    if not all_seqs:
        raise AnalysisBroken('smtp_data: no complete hand-over explored')
    r4.check(bad_order is None, 'smtpd:open<received<blast<from<close', sd.unit + ':smtp_data', bad_order[0] if bad_order else '%d hand-overs' % len(all_seqs), bad_order[1] if bad_order else None)
    r4.check(bad_fail is None, 'too-many-hops->qmail_fail-before-close', sd.unit + ':smtp_data', bad_fail[0] if bad_fail else '', bad_fail[1] if bad_fail else None)
    bad_open = [(list(sq_), code_) for sq_, code_, tr_ in all_openfail if list(sq_) != ['open'] or code_ != '451']
    if not all_openfail:
        raise AnalysisBroken('smtp_data: failing qmail_open() not explored')
    r4.check(not bad_open, 'smtpd:qmail_open-checked', sd.unit + ':smtp_data', 'qmail_open() fails and smtp_data goes on with %s, answering %s (documented: nothing more, 451)' % (bad_open[0] if bad_open else '', bad_open[0][1] if bad_open else ''))
    for inst, v in sorted(smtpd_size_sites(db, rep).items()):
        r4.check(v[0], inst, v[1], v[2], v[3])
    for inst, v in sorted(databytes_setup_sites(db, rep).items()):
        r4.check(v[0], inst, v[1], v[2], v[3])

    # qmtpd, qmqpd: every refusal cause over scripted sessions
    for inst_, v_ in sorted(vsites.items()):
        if not inst_.endswith(':ack-iff-the-queue-took-the-message'):
            r4.check(v_[0], inst_, v_[1], v_[2], v_[3])
    sess = session_sites(db, rep)
    for inst_, v_ in sorted(sess.items()):
        r4.check(v_[0], inst_ + ':refusals', v_[1], v_[2], v_[3])
    r4.expect_min(12)

    # ---- the commit comes after the last byte of the request: nothing is read from the client between qmail_close() and its verdict
    from qv.lib import hits_after, loop_headers_containing
    READS = ('substdio_get', 'substdio_bget', 'substdio_feed', 'getln', 'getln2')
    WRITES = ('substdio_put', 'substdio_puts', 'substdio_flush', 'substdio_putflush', 'substdio_putsflush', 'substdio_bput', 'substdio_bputs')
    for pname, unit, fname in (('qmail-smtpd', 'qmail-smtpd.c', 'smtp_data'), ('qmail-qmtpd', 'qmail-qmtpd.c', 'main'), ('qmail-qmqpd', 'qmail-qmqpd.c', 'main')):
        p_ = db.program(pname)
        f_ = p_.fn(fname, unit)
        readers = {g_.name for g_ in p_.functions() if g_.unit == unit and g_.blocks and deep_calls(p_, g_, READS, depth=4)}
        writers = {g_.name for g_ in p_.functions() if g_.unit == unit and g_.blocks and g_.name not in readers and deep_calls(p_, g_, WRITES, depth=4)}
        closes_ = f_.calls('qmail_close')
        if not closes_:
            raise AnalysisBroken('%s: qmail_close() not found in %s' % (pname, fname))
        late = []
        for c_ in closes_:
            # a loop around the commit is the per-message loop: passing its head starts the next request
            late += hits_after(f_, c_, lambda y: y.k == 'call' and (y.callee in READS or y.callee in readers),
                               lambda y: y.k == 'call' and (y.callee in WRITES or y.callee in writers),
                               barrier_blocks=loop_headers_containing(f_, f_.pos[c_.id][0]))
        r4.check(not late, '%s:request-read-completely-before-the-commit' % pname, closes_[0].where,
                 'after qmail_close() and before its verdict is written the daemon still reads from the client (%s): a disconnect or a framing error there leaves a queued message without acknowledgement, and the client sends it again' %
                 ', '.join(sorted({'%s() at line %d' % (y.callee, y.line) for y in late})))

    # ---- the queue program commits only a complete envelope (qmail-queue side of "exactly it was queued")
    from rules import C01
    # ---------------------------------------------------------------- 9. netstring lengths are decimal numbers
    r9 = rep.rule('C07.9-netstring-lengths', 'R-SIBLING', 'whole QMTP and QMQP sessions over scripted byte streams: a length field with any byte other than "0".."9" before the colon (in the message, sender, recipient-list or recipient netstring) ends the session with exit 100, nothing queued or acknowledged; addresses of 1000 bytes or more, or with a NUL, are refused and never overrun the buffer')
    for inst_, v_ in sorted(sess.items()):
        r9.check(v_[0], inst_, v_[1], v_[2], v_[3])
    for inst_, v_ in sorted(length_overflow_sites(db, rep).items()):
        r9.check(v_[0], inst_, v_[1], v_[2], v_[3])
    r9.expect_min(2)

    r8 = rep.rule('C07.8-queue-commit', 'R-TRANSDUCER', 'qmail-queue publishes todo/<n> only after the complete envelope F addr NUL (T addr NUL)* NUL was read (EOF, a wrong letter or an over-long address never commit), and exit 0 only through the commit')
    qs = C01.queue_sites(db, rep)
    for (rule_, inst), (ok, where, detail, path) in sorted(qs.items()):
        if rule_ == 'C01.7-envelope-gate' or inst in ('return-0-only-after-commit', 'single-commit'):
            r8.check(ok, inst, where, detail, path)
    r8.expect_min(4)
    r10 = rep.rule('C07.10-smtp-transaction-state', 'R-TYPESTATE', 'qmail-smtpd: what is queued at DATA is the sender and the recipients of the transaction that DATA closes - an accepted MAIL opens a fresh transaction (no recipient of an abandoned one survives), rejected commands change nothing, DATA closes the transaction (decided by the handler summaries of C08.1, run here on the same program database)')
    for inst_, v_ in sorted(_lt.borrow(ctx, 'C08', {'C08.1-handler-contracts'}).items()):
        r10.check(v_[0], inst_.split('/', 1)[1], v_[1], v_[2], v_[3])
    r10.expect_min(5)

    # ---------------------------------------------------------------- 6. disconnect
    r6 = rep.rule('C07.6-disconnect', 'R-GUARD', 'each daemon\'s read wrapper never returns <= 0 (EOF/error/timeout end the process) and reaches no qmail_close')
    for pname, unit in (('qmail-smtpd', 'qmail-smtpd.c'), ('qmail-qmtpd', 'qmail-qmtpd.c'), ('qmail-qmqpd', 'qmail-qmqpd.c')):
        p = db.program(pname)
        f = p.fn('saferead', unit)

        ok = wrapper_returns_only_positive(db, rep, p, f, 'saferead')
        reach = transitive_callees(p, f)
        r6.check(ok and 'qmail_close' not in reach, '%s:saferead-returns-only-positive' % pname, '%s:%d' % (f.unit, f.line),
                 'saferead may return 0/-1 to its caller or reaches qmail_close')
    r6.expect_min(3)

    # ---------------------------------------------------------------- 7. received
    r7 = rep.rule('C07.7-received-safe', 'R-TABLE', 'received(): untrusted strings pass only through safeput(); issafe() is false for controls, space, ()<>"\\,; DEL and bytes >= 128 (all 256 values)')
    isf = db.fn('received.c', 'issafe')

    class IsHooks(QHooks):
        def __init__(self):
            self.part = []

        def on_return(self, E, fn, val):
            ch = E.get(self.key)
            self.part.append((val, ch))
    IH = IsHooks()
    IH.tracked_global = lambda path: True
    IH.precise_arith = lambda path: True
    # every byte value on its own (a table-driven issafe() walks its table with a concrete byte)
    for b_ in sorted(CHARS):
        eng = Engine(db, prog, IH, max_states=20000)
        eng.keep_dead = True
        IH.key = '%s::%s' % (eng.frame_id(isf), isf.params[0])
        eng.run(isf, {IH.key: fs(b_)})
        rep.count_states(eng.states, eng.transitions)
    must_unsafe = set(range(0, 33)) | {ord(c) for c in '()<>"\\,;'} | {127} | set(range(-128, 0))
    covered = set()
    leaks = []
    for val, ch in IH.part:
        if ch is TOP:
            raise AnalysisBroken('issafe(): partition lost (argument used in arithmetic?)')
        covered |= ch
        if val is TOP or any(v != 0 for v in val):
            leaks += [c for c in ch if c in must_unsafe]
    if covered != CHARS:
        raise AnalysisBroken('issafe(): extracted partition does not cover all 256 byte values')
    r7.check(not leaks, 'issafe-rejects-specials-and-controls', 'received.c:issafe',
             'issafe() accepts %s' % [chr(c) if 32 <= c < 127 else c for c in sorted(leaks)[:8]])
    rep.exhaustive_rules.append('C07.7-received-safe')
    rc = db.fn('received.c', 'received')
    trusted_param = 'P:protocol'
    for c in rc.calls(('qmail_puts', 'qmail_put')):
        a = c.args[1]
        p = a.path()
        ok = a.string is not None or p == trusted_param or (p or '').startswith('S:buf') or (p or '').startswith('G:buf')
        r7.check(ok, 'received:raw-output-is-literal/protocol/date:%s' % c.args[1].src()[:16], c.where, 'received() writes %s without safeput' % c.args[1].src())
    sp = db.fn('received.c', 'safeput')

    class SPH(QHooks):
        tracked = frozenset(['STR'])

        def precise_arith(self, path):
            return True

        def __init__(self):
            self.outs = set()
            self.bad = None

        def prim_issafe(self, E, x, args):
            v = args[0]
            b = next(iter(v)) if v is not TOP and len(v) == 1 else None
            return [Outcome(ret=fs(0), sets={'$safe': fs((b, 0))}), Outcome(ret=fs(1), sets={'$safe': fs((b, 1))})]

        def prim_qmail_put(self, E, x, args):
            a = x.args[1].strip()
            val = None
            if a.k == 'un' and a.op == '&':
                vv = E.get(E.canon(a.args[0]))
                val = next(iter(vv)) if vv is not TOP and len(vv) == 1 else None
            sf = g1(E, '$safe')
            seq = tuple(g1(E, '$seq', ()))
            if sf is None or x.args[2].const != 1:
                self.bad = 'qmail_put without a verdict of issafe() for the byte, or not one byte'
            else:
                b, ok = sf
                want = b if ok else ord('?')
                if val != want:
                    self.bad = 'byte %r judged %s is written as %r' % (chr(b) if b else b, 'safe' if ok else 'unsafe', chr(val) if isinstance(val, int) else val)
                seq += (b,)
            E.set('$seq', fs(seq))
            E.set('$safe', TOP)
            return [Outcome(ret=TOP)]

        def on_return(self, E, fn, val):
            self.outs.add(tuple(g1(E, '$seq', ())))
    sph = SPH()
    e = Engine(db, prog, sph)
    fid = e.frame_id(sp)
    e.run(sp, {'%s::%s' % (fid, sp.params[1]): fs(('&', 'STR[0]')), 'STR[0]': fs(65), 'STR[1]': fs(40), 'STR[2]': fs(0)})
    rep.count_states(e.states, e.transitions)
    r7.check(sph.bad is None and sph.outs == {(65, 40)}, 'safeput-writes-each-byte-once:safe-as-is,unsafe-as-?', 'received.c:safeput',
             sph.bad or 'bytes judged, in order: %s (expected exactly the two bytes of the test string)' % sorted(sph.outs))
    r7.expect_min(8)
    rep.assume('qmail-queue aborts on an incomplete envelope (C01 rule 7)', 'exit status semantics of wait()', 'plain char is signed')
