"""C08 — SMTP transactions are well-sequenced and relaying is gated by policy (command
automaton and gate order; what addrparse returns for every spelling and the constmap/cdb
lookups as string functions are not decided)."""
from collections import deque
from qv.core import AnalysisBroken
from qv.esp import Engine, Outcome, TOP, fs, ptr_add
from rules import libtab
from qv.lib import QHooks, holds_set, macro_const, branch_zero_test, deep_calls, guards_through, consistent_values


def g1(E, k, d=None):
    v = E.get(k)
    return next(iter(v)) if v else d


class RcptHooks(QHooks):
    """rcpthosts() over a concrete address: which strings are looked up, in which table, and what is returned"""
    def __init__(self, addr, entry='rcpthosts'):
        self.addr = addr
        self.entry = entry
        self.results = []

    def tracked_global(self, path):
        return True

    def precise_arith(self, path):
        return True

    @staticmethod
    def ptr(v):
        if v is not TOP and len(v) == 1:
            (a,) = v
            if isinstance(a, tuple) and a[0] == '&':
                return a
        return None

    @staticmethod
    def num(v):
        if v is not TOP and len(v) == 1 and isinstance(next(iter(v)), int):
            return next(iter(v))
        return None

    def rd(self, E, p, n):
        out = []
        for i in range(n):
            q = ptr_add(p, i) if p is not None else None
            b = self.num(E.get(q[1])) if q is not None else None
            out.append(b)
        return out

    def prim_byte_rchr(self, E, x, args):
        p, n, c = self.ptr(args[0]), self.num(args[1]), self.num(args[2])
        if p is None or n is None or c is None:
            return [Outcome(ret=TOP)]
        bs = self.rd(E, p, n)
        pos = n
        for i, b in enumerate(bs):
            if b == c:
                pos = i
        return [Outcome(ret=fs(pos))]

    def prim_byte_chr(self, E, x, args):
        p, n, c = self.ptr(args[0]), self.num(args[1]), self.num(args[2])
        if p is None or n is None or c is None:
            return [Outcome(ret=TOP)]
        bs = self.rd(E, p, n)
        for i, b in enumerate(bs):
            if b == c:
                return [Outcome(ret=fs(i))]
        return [Outcome(ret=fs(n))]

    def cstr(self, E, p):
        out = []
        for i in range(64):
            q = ptr_add(p, i) if p is not None else None
            b = self.num(E.get(q[1])) if q is not None else None
            if b is None:
                return None
            if b == 0:
                return out
            out.append(b)
        return None

    def prim_str_chr(self, E, x, args):
        s_, c = self.cstr(E, self.ptr(args[0])), self.num(args[1])
        if s_ is None or c is None:
            return [Outcome(ret=TOP)]
        return [Outcome(ret=fs(s_.index(c) if c in s_ else len(s_)))]

    def prim_str_rchr(self, E, x, args):
        s_, c = self.cstr(E, self.ptr(args[0])), self.num(args[1])
        if s_ is None or c is None:
            return [Outcome(ret=TOP)]
        return [Outcome(ret=fs(len(s_) - 1 - s_[::-1].index(c) if c in s_ else len(s_)))]

    def prim_str_len(self, E, x, args):
        s_ = self.cstr(E, self.ptr(args[0]))
        return [Outcome(ret=fs(len(s_)) if s_ is not None else TOP)]

    prim_strlen = prim_str_len

    def prim_stralloc_copyb(self, E, x, args):
        sa, p, n = self.ptr(args[0]), self.ptr(args[1]), self.num(args[2])
        if sa is None or p is None or n is None:
            return [Outcome(ret=fs(0)), Outcome(ret=fs(1))]
        st = {sa[1] + '.s': fs(('&', sa[1] + '.s[0]')), sa[1] + '.len': fs(n)}
        for i, b in enumerate(self.rd(E, p, n)):
            st['%s.s[%d]' % (sa[1], i)] = fs(b) if b is not None else TOP
        return [Outcome(ret=fs(0), sets={'$copyfail': fs(1)}), Outcome(ret=fs(1), sets=st)]

    def prim_case_lowerb(self, E, x, args):
        p, n = self.ptr(args[0]), self.num(args[1])
        st = {}
        if p is not None and n is not None:
            for i, b in enumerate(self.rd(E, p, n)):
                if b is not None and 65 <= b <= 90:
                    st[ptr_add(p, i)[1]] = fs(b + 32)
        return [Outcome(ret=TOP, sets=st)]

    def _look(self, E, kind, p, n, results):
        bs = self.rd(E, p, n) if p is not None and n is not None and 0 <= n <= 64 else None
        key = ''.join(chr(b) if b is not None else '?' for b in bs) if bs is not None else None
        seq = tuple(g1(E, '$seq', ()))
        return [Outcome(ret=fs(r), sets={'$seq': fs(seq + ((kind, key, r),))}) for r in results]

    def prim_constmap(self, E, x, args):
        return self._look(E, 'list', self.ptr(args[1]), self.num(args[2]), (0, 1))

    def prim_cdb_seek(self, E, x, args):
        return self._look(E, 'cdb', self.ptr(args[1]), self.num(args[2]), (0, 1, -1))

    def on_return(self, E, fn, val):
        if fn.name == self.entry:
            self.results.append((tuple(g1(E, '$seq', ())), self.num(val) if val is not None else None, E.trace.list(), g1(E, '$copyfail', 0)))


def rcpt_ref_ok(seq, ret, dom, flagrh, fdm):
    """the documented behaviour of rcpthosts() for a domain (None: no @), order-insensitive within a table"""
    if flagrh != 1 or dom is None:
        return seq == () and ret == 1
    if ret == -1 and seq == ():
        return True            # out of memory before any lookup
    low = dom.lower()
    cands = [low[j:] for j in range(len(low)) if j == 0 or low[j] == '.']
    lists = [s_ for s_ in seq if s_[0] == 'list']
    cdbs = [s_ for s_ in seq if s_[0] == 'cdb']
    if list(seq) != lists + cdbs:
        return False
    for tab in (lists, cdbs):
        keys = [s_[1] for s_ in tab]
        if len(set(keys)) != len(keys) or not set(keys) <= set(cands):
            return False
        if any(s_[2] != 0 for s_ in tab[:-1]):
            return False       # went on after a hit or an error
    if lists and lists[-1][2] != 0:
        return ret == 1 and not cdbs
    if set(s_[1] for s_ in lists) != set(cands):
        return False
    if fdm == -1:
        return not cdbs and ret == 0
    if cdbs and cdbs[-1][2] != 0:
        return ret == cdbs[-1][2]
    return set(s_[1] for s_ in cdbs) == set(cands) and ret == 0


class SmtpdHooks(QHooks):
    inline_unit = 'qmail-smtpd.c'
    no_inline = frozenset(['addrparse', 'bmfcheck', 'blast', 'acceptmessage', 'dohelo', 'smtp_greet', 'flush', 'out', 'put',
                           'die_nomem', 'die_control', 'die_read', 'die_alarm', 'straynewline'])
    tracked = frozenset(['G:seenmail', 'G:flagbarf', 'G:rcptto', 'G:relayclient'])
    inline_depth = 3

    def __init__(self):
        self.trans = []      # (handler, pre, post, events)
        self.handler = None
        self.pre = None
        self.gates = 0

    def materialize(self, E, path):
        if path == 'G:rcptto.len':
            return fs(0) if g1(E, '$rcpt', 0) == 0 else fs(7)
        return TOP

    def ev(self, E, e):
        E.set('$ev', fs(tuple(g1(E, '$ev', ())) + (e,)))

    def prim_out(self, E, x, args):
        s = x.args[0].string
        if s and s[:3].isdigit():
            self.ev(E, ('reply', s[:3]))
        return [Outcome(ret=TOP)]

    def prim_smtp_greet(self, E, x, args):
        s = x.args[0].string
        if s and s[:3].isdigit():
            self.ev(E, ('reply', s[:3]))
        return [Outcome(ret=TOP)]

    def prim_dohelo(self, E, x, args):
        return [Outcome(ret=TOP)]

    def prim_flush(self, E, x, args):
        return [Outcome(ret=TOP)]

    def prim_acceptmessage(self, E, x, args):
        self.ev(E, ('reply', '250'))
        return [Outcome(ret=TOP)]

    def prim_addrparse(self, E, x, args):
        n = g1(E, '$nparse', 0)
        return [Outcome(ret=fs(0), sets={'$parsed': fs(0)}, log='addrparse rejects'),
                Outcome(ret=fs(1), sets={'$parsed': fs(1), '$addr': fs('addr-of-this-command')}, log='addrparse accepts')]

    def prim_bmfcheck(self, E, x, args):
        self.ev(E, ('bmfcheck', g1(E, '$parsed')))
        return [Outcome(ret=fs(0)), Outcome(ret=fs(1))]

    def _sa(self, E, x):
        a = x.args[0].strip()
        return a.args[0].path() if a.k == 'un' and a.op == '&' else None

    def prim_stralloc_copys(self, E, x, args):
        sa = self._sa(E, x)
        if sa == 'G:rcptto':
            E.set('$rcpt', fs(0))
            self.ev(E, ('rcptto-reset',))
        elif sa == 'G:mailfrom':
            self.ev(E, ('mailfrom:=', x.args[1].src(), g1(E, '$parsed')))
        return [Outcome(ret=fs(1)), Outcome(ret=fs(0), noreturn=True)] if False else [Outcome(ret=fs(1))]

    def prim_stralloc_cats(self, E, x, args):
        sa = self._sa(E, x)
        if sa == 'G:rcptto':
            E.set('$rcpt', fs(1))
            self.ev(E, ('rcptto+=', x.args[1].string if x.args[1].string is not None else x.args[1].src()))
        elif sa == 'G:addr':
            self.ev(E, ('addr+=', x.args[1].src()))
        return [Outcome(ret=fs(1))]

    def prim_stralloc_append(self, E, x, args):
        return [Outcome(ret=fs(1))]

    prim_stralloc_0 = prim_stralloc_append
    # the same operations spelt with an explicit length or a stralloc source
    prim_stralloc_copyb = prim_stralloc_copy = prim_stralloc_copys
    prim_stralloc_catb = prim_stralloc_cat = prim_stralloc_cats

    def prim_rcpthosts(self, E, x, args):
        # the relay gate (smtp_rcpt reaches it directly or through its addrallowed() wrapper, which is part of it): a control-file error ends the process
        self.ev(E, ('addrallowed',))
        self.gates += 1
        return [Outcome(ret=fs(0), sets={'$gate': fs(0)}, log='rcpthosts: not allowed'), Outcome(ret=fs(1), sets={'$gate': fs(1)}, log='rcpthosts: allowed'),
                Outcome(ret=fs(-1), sets={'$gate': fs(-1)}, log='rcpthosts: control file unreadable')]

    def prim_qmail_open(self, E, x, args):
        self.ev(E, ('qmail_open', g1(E, 'G:seenmail', '?'), g1(E, '$rcpt', 0)))
        return [Outcome(ret=fs(0)), Outcome(ret=fs(-1))]

    def prim_qmail_from(self, E, x, args):
        self.ev(E, ('qmail_from', x.args[1].src()))
        return [Outcome(ret=TOP)]

    def prim_qmail_put(self, E, x, args):
        self.ev(E, ('qmail_put', x.args[1].src()))
        return [Outcome(ret=TOP)]

    def _q(self, E, x, args):
        return [Outcome(ret=TOP)]

    prim_qmail_qp = prim_received = prim_blast = prim_qmail_fail = _q

    def prim_qmail_close(self, E, x, args):
        return [Outcome(ret=fs(('str', ''))), Outcome(ret=fs(('str', 'Dx'))), Outcome(ret=fs(('str', 'Zx')))]

    def on_return(self, E, fn, val):
        sm = E.get('G:seenmail')
        fb = E.get('G:flagbarf')
        post = (next(iter(sm)) if sm is not TOP and len(sm) == 1 else '?', g1(E, '$rcpt', 0), next(iter(fb)) if fb is not TOP and len(fb) == 1 else '?')
        evs = tuple(g1(E, '$ev', ()))
        if g1(E, '$gate') is not None:
            evs += (('gate', g1(E, '$gate')),)
        self.trans.append((self.handler, self.pre, post, evs, E.trace.list()))


class SetupHooks(libtab.SAConc, QHooks):
    """qmail-smtpd setup() on a stock installation: control/me exists, the optional files (localiphost, smtpgreeting, ...) do not"""
    ME = b'server.example'

    def __init__(self):
        self.ends = []

    def tracked_global(self, path):
        return True

    def precise_arith(self, path):
        return True

    def prim_control_init(self, E, x, args):
        return [Outcome(ret=fs(0))]

    def prim_control_rldef(self, E, x, args):
        # control_rldef(sa, file, flagme, default): the file is absent -> control/me if flagme, else the default, else nothing (0)
        flagme, dflt = libtab._one(args[2]), libtab._one(args[3])
        if flagme:
            o = self._put(E, x, args, self.ME, False)[0]
            return [Outcome(ret=fs(1), sets=o.sets)]
        d = self.cstring(E, dflt) if isinstance(dflt, tuple) else None
        if d is not None:
            o = self._put(E, x, args, d, False)[0]
            return [Outcome(ret=fs(1), sets=o.sets)]
        return [Outcome(ret=fs(0))]

    def prim_control_readline(self, E, x, args):
        return [Outcome(ret=fs(0))]          # the file is absent

    def prim_control_readint(self, E, x, args):
        return [Outcome(ret=fs(0))]

    def prim_control_readfile(self, E, x, args):
        return [Outcome(ret=fs(0))]

    def _n(self, E, x, args):
        return [Outcome(ret=TOP)]

    def _z(self, E, x, args):
        return [Outcome(ret=fs(0))]

    prim_rcpthosts_init = _z
    prim_env_get = _z
    prim_dohelo = _n

    def _die(self, E, x, args):
        return 'noreturn'

    prim_die_control = prim_die_nomem = _die

    def on_return(self, E, fn, val):
        if fn.name == 'setup':
            self.ends.append((self.sa_bytes(E, 'G:liphost'), libtab._one(E.get('G:liphostok')), self.sa_bytes(E, 'G:greeting'), E.trace.list()))


def setup_sites(db, rep):
    prog = db.program('qmail-smtpd')
    fn = prog.fn('setup', 'qmail-smtpd.c')
    H = SetupHooks()
    e = Engine(db, prog, H, max_states=60000)
    e.run(fn, {})
    rep.count_states(e.states, e.transitions)
    if not H.ends:
        raise AnalysisBroken('qmail-smtpd setup(): no end reached on a stock installation')
    worst = [e_ for e_ in H.ends if not (e_[0] == SetupHooks.ME and e_[1] == 1)]
    lip, ok, greet, tr = (worst or H.ends)[0]
    good = not worst
    return {'setup:without-control/localiphost-the-local-IP-literal-host-is-control/me': (good, 'qmail-smtpd.c:setup',
            'no control/localiphost: the name substituted for local IP literals is %r (flag %s); documented: control/me = %r, so that <postmaster@[127.0.0.1]> is judged like <postmaster@me>' % (lip, ok, SetupHooks.ME), tr if not good else [])}


def rcpthosts_state(db, rep, prog, flagrh, fdm):
    """the file-private state rcpthosts_init() leaves behind for a scenario (list file absent / present, compiled list opened as
    descriptor fdm or absent): obtained by running it, so that the state does not depend on what the variables are called"""
    from rules import libtab as _lt

    class IH(_lt.SAConc, _lt.Conc):
        def prim_control_readfile(self_, E, x, args):
            if not flagrh:
                return [Outcome(ret=fs(0))]
            o = self_._put(E, x, args, b'listed.example\0', False)[0]
            return [Outcome(ret=fs(1), sets=o.sets)]

        def prim_constmap_init(self_, E, x, args):
            return [Outcome(ret=fs(1))]

        def prim_open_read(self_, E, x, args):
            if fdm == -1:
                return [Outcome(ret=fs(-1), sets={'$errno': fs(2)})]
            return [Outcome(ret=fs(fdm))]
    H = IH('rcpthosts_init')
    _lt._run_conc(db, rep, prog, db.fn('rcpthosts.c', 'rcpthosts_init'), {'G:error_noent': fs(2)}, 'rcpthosts_init', H)
    if len(H.ends) != 1:
        raise AnalysisBroken('rcpthosts_init: %d ends while preparing the state for rcpthosts()' % len(H.ends))
    return {k_: v_ for k_, v_ in H.ends[0][0].items() if '::' not in k_ and not k_.startswith('$')}


def rcpthosts_init_sites(db, rep):
    """rcpthosts_init() over the outcomes of reading control/rcpthosts (unreadable, absent, present with entries, present but
    empty) and of opening morercpthosts.cdb: the list is in force (flagrh = 1) whenever the file exists - an empty file closes the
    relay completely, it is not the same as no file - and the compiled list is opened whenever the file exists"""
    from rules import libtab as _lt
    prog = db.program('qmail-smtpd')
    fn = db.fn('rcpthosts.c', 'rcpthosts_init')
    bad = None
    n = 0
    for rf, content in ((-1, None), (0, None), (1, b'a.example\0'), (1, b'')):
        for op in ('fd', 'noent', 'eio'):
            opened = []

            class RH(_lt.SAConc, _lt.Conc):
                def prim_control_readfile(self_, E, x, args):
                    if rf != 1:
                        return [Outcome(ret=fs(rf))]
                    o = self_._put(E, x, args, content, False)[0]
                    return [Outcome(ret=fs(1), sets=o.sets)]

                def prim_constmap_init(self_, E, x, args):
                    return [Outcome(ret=fs(1))]

                def prim_open_read(self_, E, x, args):
                    opened.append(self_.cstring(E, _lt._one(args[0])))
                    if op == 'fd':
                        return [Outcome(ret=fs(9))]
                    return [Outcome(ret=fs(-1), sets={'$errno': fs(2 if op == 'noent' else 5)})]
            H = RH('rcpthosts_init')
            _lt._run_conc(db, rep, prog, fn, {'G:error_noent': fs(2)}, 'rcpthosts_init', H)
            n += 1
            if len(H.ends) != 1:
                raise AnalysisBroken('rcpthosts_init: %d ends' % len(H.ends))
            end, val, tr = H.ends[0]
            # what the start-up left behind is judged by what rcpthosts() then says about a domain that is listed nowhere
            class RQ(_lt.SAConc, _lt.Conc):
                def prim_constmap(self_, E, x, args):
                    return [Outcome(ret=fs(0))]

                def prim_cdb_seek(self_, E, x, args):
                    return [Outcome(ret=fs(0))]
            H2 = RQ('rcpthosts')
            st2 = {k_: v_ for k_, v_ in end.items() if '::' not in k_}
            st2.update({0: fs(('&', 'ADDR[0]')), 1: fs(len(b'u@elsewhere.example'))})
            st2.update(_lt.conc_string_cells('ADDR', b'u@elsewhere.example'))
            _lt._run_conc(db, rep, prog, db.fn('rcpthosts.c', 'rcpthosts'), st2, 'rcpthosts', H2)
            if len(H2.ends) != 1:
                raise AnalysisBroken('rcpthosts() after rcpthosts_init: %d ends' % len(H2.ends))
            verdict = _lt.one(H2.ends[0][1])
            flag = {1: 0, 0: 1, -1: -1}.get(verdict) if _lt.one(val) != -1 else -1        # accepted: the list is off; refused: in force
            if rf != 1:
                want = (rf, rf, [])
            elif op == 'eio':
                want = (-1, -1, [b'control/morercpthosts.cdb'])
            else:
                want = (0, 1, [b'control/morercpthosts.cdb'])
            got = (_lt.one(val), flag, opened)
            if got != want and bad is None:
                bad = 'control/rcpthosts %s, morercpthosts.cdb %s: rcpthosts_init returns %s with the list %s and opens %s; documented: returns %s with the list %s%s' % (
                    {-1: 'unreadable', 0: 'absent'}.get(rf, 'present with %d bytes of entries' % len(content or b'')), {'fd': 'opens', 'noent': 'absent', 'eio': 'unreadable'}[op],
                    got[0], {1: 'in force', 0: 'off (every recipient accepted)', -1: 'in error'}.get(got[1], got[1]), got[2], want[0], {1: 'in force', 0: 'off', -1: 'in error'}[want[1]],
                    ' - a file without entries still means "relay for nobody but the compiled list"' if rf == 1 and not content else '')
    return {'rcpthosts_init:list-in-force-whenever-the-file-exists(even-empty)': (bad is None, 'rcpthosts.c:rcpthosts_init', bad or '%d (file, cdb) outcomes' % n, [])}


def run(ctx):
    db, rep = ctx.db, ctx.report
    prog = db.program('qmail-smtpd')
    u = db.unit('qmail-smtpd.c')
    # ---- command table
    tab = u.globals.get('smtpcommands')
    if not tab or tab.get('init', {}).get('k') != 'list':
        raise AnalysisBroken('smtpcommands[] initialiser not found')
    cmds = {}
    sentinel = False
    for row in tab['init']['v']:
        r = row['v']
        name = r[0].get('v') if r[0].get('k') == 'str' else None
        fnm = r[1].get('v')[2:] if r[1].get('k') == 'fn' else None
        if name is None:
            sentinel = True
            cmds['<other>'] = fnm
        else:
            cmds[name] = fnm
    r0 = rep.rule('C08.0-command-table', 'R-TABLE', 'smtpcommands[]: mail, rcpt, data, rset, helo, ehlo dispatch to their handlers; a sentinel entry catches everything else')
    want = {'mail': 'smtp_mail', 'rcpt': 'smtp_rcpt', 'data': 'smtp_data', 'rset': 'smtp_rset', 'helo': 'smtp_helo', 'ehlo': 'smtp_ehlo'}
    r0.check(all(cmds.get(k) == v for k, v in want.items()) and sentinel, 'command-table', 'qmail-smtpd.c', 'table: %s' % cmds)
    cf = db.fn('commands.c', 'commands')
    from rules import libtab as _ltc
    for inst_, v_ in sorted(_ltc.commands_sites(db, rep, 'qmail-smtpd', 'qmail-smtpd.c', 'smtpcommands').items()):
        r0.check(v_[0], inst_, v_[1], v_[2], v_[3])

    # ---- handler summaries over the abstract state (seenmail, rcptto.len>0, flagbarf)
    H = SmtpdHooks()
    handlers = sorted(set(cmds.values()))
    nstates = 0
    for h in handlers:
        fn = prog.resolve(h, 'qmail-smtpd.c')
        if fn is None or not fn.blocks:
            raise AnalysisBroken('handler %s not found' % h)
        for sm in (0, 1):
            for rc in (0, 1):
                for fb in (0, 1):
                    H.handler, H.pre = h, (sm, rc, fb)
                    eng = Engine(db, prog, H)
                    eng.run(fn, {'G:seenmail': fs(sm), 'G:flagbarf': fs(fb), '$rcpt': fs(rc)})
                    nstates += eng.states
                    rep.count_states(eng.states, eng.transitions)

    def reply(ev):
        rs = [e[1] for e in ev if e[0] == 'reply']
        return rs

    r1 = rep.rule('C08.1-handler-contracts', 'R-TYPESTATE', 'per handler and abstract state: rejected MAIL/RCPT change nothing; accepted MAIL opens a fresh transaction with the sender just parsed and the bad-sender verdict for it; a recipient is recorded exactly when 250 is sent; DATA opens the queue only with MAIL and a recipient; HELO/EHLO/RSET/DATA close the transaction')
    seen_handlers = set()
    gate_rows, gate_err = [], []
    n_gates = H.gates
    for h, pre, post, ev, tr in H.trans:
        seen_handlers.add(h)
        rs = reply(ev)
        code = rs[0] if rs else None
        if h == 'smtp_mail':
            if code != '250':
                r1.check(post == pre and not any(e[0] in ('rcptto-reset', 'mailfrom:=') for e in ev), 'MAIL:rejected-command-changes-nothing', 'qmail-smtpd.c:smtp_mail',
                         'MAIL answered %s moves (seenmail, recipients, flagbarf) from %s to %s with events %s: a later RCPT/DATA would run under a transaction the client was told does not exist' % (code, pre, post, [e[0] for e in ev]), tr)
            else:
                r1.check(post[0] == 1 and post[1] == 0, 'MAIL:accepted-opens-a-fresh-transaction', 'qmail-smtpd.c:smtp_mail', 'after 250: state %s' % (post,), tr)
                mf = [e for e in ev if e[0] == 'mailfrom:=']
                r1.check(len(mf) == 1 and mf[0][1] == 'addr.s' and mf[0][2] == 1, 'MAIL:sender-is-the-address-just-parsed', 'qmail-smtpd.c:smtp_mail', 'mailfrom events %s' % mf, tr)
                bm = [e for e in ev if e[0] == 'bmfcheck']
                r1.check(len(bm) == 1 and bm[0][1] == 1, 'MAIL:bad-sender-verdict-taken-for-the-parsed-address', 'qmail-smtpd.c:smtp_mail', 'bmfcheck events %s' % bm, tr)
        elif h == 'smtp_rcpt':
            added = [e for e in ev if e[0] == 'rcptto+=']
            if ('gate', -1) in ev:
                gate_err.append(tr)
            if code == '250':
                ok = pre[0] == 1 and pre[2] == 0 and post[1] == 1 and [a[1] for a in added] == ['T', 'addr.s']
                r1.check(ok, 'RCPT:250-iff-recipient-recorded(needs-MAIL,not-barred)', 'qmail-smtpd.c:smtp_rcpt', 'RCPT 250 from state %s with appends %s' % (pre, added), tr)
                allowed = any(e[0] == 'addrallowed' for e in ev)
                relay = any(e[0] == 'addr+=' for e in ev)
                r1.check(allowed != relay, 'RCPT:accepted-via-rcpthosts-xor-relayclient', 'qmail-smtpd.c:smtp_rcpt', 'events %s' % [e[0] for e in ev], tr)
                if not relay:
                    gate_rows.append((('gate', 1) in ev, [e for e in ev if e[0] == 'gate'], tr))
            else:
                r1.check(not added and post == pre, 'RCPT:rejected-command-records-nothing', 'qmail-smtpd.c:smtp_rcpt', 'RCPT answered %s from %s to %s with appends %s' % (code, pre, post, added), tr)
        elif h == 'smtp_data':
            opens = [e for e in ev if e[0] == 'qmail_open']
            for e in opens:
                r1.check(pre[0] == 1 and pre[1] == 1, 'DATA:queue-opened-only-with-MAIL-and-a-recipient', 'qmail-smtpd.c:smtp_data', 'qmail_open from state %s' % (pre,), tr)
            if opens:
                r1.check(post[0] == 0, 'DATA:closes-the-transaction', 'qmail-smtpd.c:smtp_data', 'seenmail after DATA: %s' % post[0], tr)
                fr = [e for e in ev if e[0] == 'qmail_from']
                pt = [e for e in ev if e[0] == 'qmail_put']
                if fr:
                    r1.check(fr[0][1] == 'mailfrom.s' and any(p[1] == 'rcptto.s' for p in pt), 'DATA:envelope=mailfrom+rcptto', 'qmail-smtpd.c:smtp_data', 'qmail_from(%s), qmail_put(%s)' % (fr[0][1], [p[1] for p in pt]), tr)
            else:
                r1.check(code is not None and code[0] == '5', 'DATA:refused-with-5xx-without-MAIL/RCPT', 'qmail-smtpd.c:smtp_data', 'DATA from %s answered %s' % (pre, code), tr)
        elif h in ('smtp_helo', 'smtp_ehlo', 'smtp_rset'):
            r1.check(post[0] == 0, '%s:closes-the-transaction' % h[5:].upper(), 'qmail-smtpd.c:' + h, 'seenmail after %s: %s' % (h, post[0]), tr)
    if not {'smtp_mail', 'smtp_rcpt', 'smtp_data', 'smtp_rset'} <= seen_handlers:
        raise AnalysisBroken('handler summaries incomplete: %s' % sorted(seen_handlers))
    r1.expect_min(10)

    # ---- protocol automaton: product of the summaries with the specification's ghost state
    r2 = rep.rule('C08.2-protocol-automaton', 'R-TYPESTATE', 'over all command sequences (abstract states explored exhaustively): the queue is opened only after an accepted MAIL followed by at least one accepted RCPT with no reset in between')
    summ = {}
    for h, pre, post, ev, tr in H.trans:
        summ.setdefault((h, pre), set()).add((post, ev))
    init = ((0, 0, 0), (0, 0))        # impl (seenmail, rcpt, barf) x ghost (mailok, rcptok)
    seen, work = {init}, deque([init])
    bad = None
    ntr = 0
    while work:
        impl, ghost = work.popleft()
        for h in handlers:
            pres = [impl] if impl[2] != '?' else [(impl[0], impl[1], 0), (impl[0], impl[1], 1)]
            for p in pres:
                for post, ev in summ.get((h, p), ()):
                    ntr += 1
                    rs = reply(ev)
                    code = rs[0] if rs else None
                    g = ghost
                    if any(e[0] == 'qmail_open' for e in ev):
                        if g != (1, 1) and bad is None:
                            bad = (impl, ghost, h)
                    if h == 'smtp_mail' and code == '250':
                        g = (1, 0)
                    elif h == 'smtp_rcpt' and code == '250':
                        g = (g[0], 1 if g[0] else g[1])
                    elif h in ('smtp_helo', 'smtp_ehlo', 'smtp_rset'):
                        g = (0, 0)
                    elif h == 'smtp_data' and not (code or '').startswith('503'):
                        g = (0, 0)      # a DATA refused for bad sequence leaves the transaction as it is
                    nxt = (post, g)
                    if nxt not in seen:
                        seen.add(nxt)
                        work.append(nxt)
    r2.check(bad is None, 'queue-opened-only-after-accepted-MAIL+RCPT', 'qmail-smtpd.c', 'reachable: implementation state %s with specification state (mail accepted, rcpt accepted) = %s lets %s open the queue' % (bad if bad else (None, None, None)))
    r2.note(product_states=len(seen), product_transitions=ntr, abstract_states=nstates, exhaustive=True)
    rep.count_states(len(seen), ntr)
    rep.exhaustive_rules.append('C08.2-protocol-automaton')

    # ---- gates inside smtp_rcpt
    r3 = rep.rule('C08.3-gates', 'R-GUARD', 'relay suffix only for relay clients; bad senders via the whole address or the part from the LAST @; over-long addresses refused below qmail-queue\'s limit; local-IP substitution before the length test')
    for inst_, v_ in sorted(setup_sites(db, rep).items()):
        r3.check(v_[0], inst_, v_[1], v_[2], v_[3])
    rc = prog.fn('smtp_rcpt', 'qmail-smtpd.c')
    # RCPT with RELAYCLIENT unset and set: the address is extended exactly for the relay client
    rel_bad = None
    for rcv in (0, ('str', '@relay.example')):
        HR = SmtpdHooks()
        HR.handler, HR.pre = 'smtp_rcpt', (1, 0, 0)
        eng = Engine(db, prog, HR)
        eng.run(rc, {'G:seenmail': fs(1), 'G:flagbarf': fs(0), '$rcpt': fs(0), 'G:relayclient': fs(rcv)})
        rep.count_states(eng.states, eng.transitions)
        n250 = 0
        for h_, pre_, post_, ev_, tr_ in HR.trans:
            if '250' not in reply(ev_):
                continue
            n250 += 1
            ext = [e for e in ev_ if e[0] == 'addr+=']
            if (bool(ext) != bool(rcv) or (rcv and any(e[0] == 'addrallowed' for e in ev_))) and rel_bad is None:
                rel_bad = ('RCPT accepted with RELAYCLIENT %s: the address is %s%s' % ('set' if rcv else 'unset', 'extended' if ext else 'not extended', ', after asking rcpthosts' if rcv and any(e[0] == 'addrallowed' for e in ev_) else ''), tr_)
        if not n250 and rel_bad is None:
            raise AnalysisBroken('smtp_rcpt: no accepted RCPT with RELAYCLIENT %s' % ('set' if rcv else 'unset'))
    r3.check(rel_bad is None, 'relay-suffix-only-under-relayclient', rc.unit + ':smtp_rcpt', rel_bad[0] if rel_bad else '', rel_bad[1] if rel_bad else None)
    badg = [g_ for g_ in gate_rows if not g_[0]]
    if not gate_rows and not n_gates:
        raise AnalysisBroken('smtp_rcpt: the rcpthosts() gate was never reached')
    r3.check(not badg, 'non-relay-clients-pass-addrallowed', rc.unit + ':smtp_rcpt',
             'a recipient is accepted for a client without RELAYCLIENT although rcpthosts() answered %s' % (badg[0][1] if badg else ''), badg[0][2] if badg else None)
    bm = prog.fn('bmfcheck', 'qmail-smtpd.c')
    nb = 0
    for a_ in ('a@b', '"a@b"@c', 'ab', '', 'A@B.c', '@', 'x@'):
        for bmfok in (0, 1):
            H = RcptHooks(a_, 'bmfcheck')
            e = Engine(db, prog, H)
            st = {'G:bmfok': fs(bmfok), 'G:addr.s': fs(('&', 'G:addr.s[0]')), 'G:addr.len': fs(len(a_) + 1)}
            for i_, ch in enumerate(a_ + '\0'):
                st['G:addr.s[%d]' % i_] = fs(ord(ch))
            e.run(bm, st)
            rep.count_states(e.states, e.transitions)
            if not H.results:
                raise AnalysisBroken('bmfcheck(): no return reached')
            at = a_.rfind('@')
            cands = [a_] + ([a_[at:]] if at >= 0 else [])
            bad_ = []
            for seq, ret, tr, _ in H.results:
                keys = [k for _, k, _ in seq]
                hit = any(r_ for _, _, r_ in seq)
                if bmfok == 0:
                    good = seq == () and ret == 0
                else:
                    good = keys == cands[:len(keys)] and all(r_ == 0 for _, _, r_ in seq[:-1]) and ret == (1 if hit else 0) and (hit or keys == cands)
                if not good:
                    bad_.append((seq, ret, tr))
            nb += 1
            r3.check(not bad_, 'bmfcheck(%r,bmfok=%d)' % (a_, bmfok), bm.unit + ':bmfcheck',
                     'lookups/result %s; documented: the whole address, then the part from the LAST @ (with the first @ a sender like "a@b"@spam.example escapes an @spam.example entry); 1 iff a lookup hits' % ([(b_[0], b_[1]) for b_ in bad_[:1]],),
                     bad_[0][2] if bad_ else None)
    ap = prog.fn('addrparse', 'qmail-smtpd.c')
    lim = None
    for x in ap.all_x():
        if x.k == 'ret' and x.args and x.args[0].const == 0:
            for c, t in ap.guards(x) or []:
                hs = holds_set(c, t, lambda v: v.path() == 'G:addr.len')
                if hs:
                    for k in range(1, 2000):
                        if hs(k):
                            lim = k
                            break
    addr_q = macro_const(db, 'qmail-queue.c', 'ADDR')
    r3.check(lim is not None and lim <= addr_q - 1, 'over-long-addresses-refused-below-the-queue-limit', ap.unit + ':addrparse', 'addresses of %s bytes or more are refused; qmail-queue accepts < %d' % (lim, addr_q))
    subs = deep_calls(prog, ap, 'ipme_is', depth=2)
    lenret = []
    for x in ap.all_x():
        if x.k == 'ret' and x.args and x.args[0].const == 0 and any(holds_set(c, t, lambda v: v.path() == 'G:addr.len') for c, t in ap.guards(x) or []):
            lenret.append(x)
    oks = bool(subs and lenret)
    for f_, c_ in subs:
        anchors = [c_] if f_ is ap else ap.calls(f_.name)
        oks = oks and bool(anchors)
        for an in anchors:
            for lr in lenret:
                oks = oks and not ap.can_reach(ap.pos[lr.id][0], ap.pos[an.id][0]) and ap.can_reach(ap.pos[an.id][0], ap.pos[lr.id][0])
        oks = oks and any(branch_zero_test(c, t, lambda v: v.path() == 'G:liphostok') == 'nonzero' for c, t in guards_through(prog, ap, f_, c_))
    r3.check(oks, 'local-IP-substitution-before-the-length-test', ap.unit + ':addrparse', 'ipme_is() is consulted under liphostok, and the substitution precedes the test of addr.len')
    r3.expect_min(18)

    # ---- the policy lists are what the control files say
    from rules import C10
    r5c = rep.rule('C08.5-policy-lists', 'R-TABLE', 'control_readfile(): badmailfrom / rcpthosts hold exactly the non-empty, non-comment lines of their files, including an unterminated last line')
    # the list lookups end in case_diffb(); the domain part is found with byte_rchr()
    from rules import libtab as _lt
    for inst_, v_ in sorted(_lt.case_diffb_sites(db, rep, prog).items()):
        r5c.check(v_[0], inst_, v_[1], v_[2], v_[3])
    for inst_, v_ in sorted(_lt.byte_rchr_sites(db, rep, prog).items()):
        r5c.check(v_[0], inst_, v_[1], v_[2], v_[3])
    from rules import C10 as _c10
    for inst_, v_ in sorted(_c10.constmap_hash_sites(db, rep, prog).items()):
        r5c.check(v_[0], 'constmap:' + inst_, v_[1], v_[2], v_[3])
    for inst, v in sorted(C10.control_file_sites(db, rep, prog).items()):
        r5c.check(v[0], inst, v[1], v[2], v[3])
    r5c.expect_min(1)

    # ---- rcpthosts()
    r4 = rep.rule('C08.4-rcpthosts', 'R-TABLE', 'rcpthosts(): domain lower-cased before both lookups; candidates are the whole domain and every dot suffix, same predicate for the list and the cdb; no @ or no rcpthosts file -> allowed (documented open default); cdb errors propagate')
    rh = db.fn('rcpthosts.c', 'rcpthosts')
    import itertools
    doms = [''] + [''.join(t) for n in range(1, ctx.deep(4, 7) + 1) for t in itertools.product('X.', repeat=n)]
    addrs = [('u@' + d, d) for d in doms] + [('a@b@X.X', 'X.X'), ('noat', None), ('', None)]
    ncell = 0
    rh_states = {}
    for addr_, dom in addrs:
        for flagrh in (0, 1):
            for fdm in (-1, 5):
                if flagrh == 0 and (fdm == 5 or len(addr_) > 4):
                    continue
                H = RcptHooks(addr_)
                e = Engine(db, prog, H)
                fid = e.frame_id(rh)
                if (flagrh, fdm) not in rh_states:
                    rh_states[(flagrh, fdm)] = rcpthosts_state(db, rep, prog, flagrh, fdm)
                st = dict(rh_states[(flagrh, fdm)])
                st.update({'%s::%s' % (fid, rh.params[0]): fs(('&', 'BUF[0]')), '%s::%s' % (fid, rh.params[1]): fs(len(addr_))})
                for i_, ch in enumerate(addr_):
                    st['BUF[%d]' % i_] = fs(ord(ch))
                e.run(rh, st)
                rep.count_states(e.states, e.transitions)
                if not H.results:
                    raise AnalysisBroken('rcpthosts(): no return reached for %r' % addr_)
                bad_ = [r_ for r_ in H.results if not rcpt_ref_ok(r_[0], r_[1], dom, flagrh, fdm)]
                ncell += 1
                r4.check(not bad_, 'rcpthosts(%r,flagrh=%d,%s)' % (addr_, flagrh, 'cdb' if fdm != -1 else 'no-cdb'), rh.unit + ':rcpthosts',
                         'lookups and result %s do not match the documented candidates (whole lower-cased domain and every dot suffix; list first, then cdb; hit -> 1, cdb error -> -1, else 0)' % ([(b_[0], b_[1]) for b_ in bad_[:1]],),
                         bad_[0][2] if bad_ else None)
    for inst_, v_ in sorted(rcpthosts_init_sites(db, rep).items()):
        r4.check(v_[0], inst_, v_[1], v_[2], v_[3])
    r4.check(ncell >= 60, 'rcpthosts-cells-explored', rh.unit + ':rcpthosts', '%d' % ncell)
    rep.exhaustive_rules.append('C08.4-rcpthosts')
    r4.check(not gate_err and n_gates > 0, 'cdb-error->die_control', 'qmail-smtpd.c:smtp_rcpt', 'smtp_rcpt() goes on after rcpthosts() reported -1 (control file unreadable): the process must end with die_control()',
             gate_err[0] if gate_err else None)
    r4.expect_min(60)
    rep.assume('addrparse(), bmfcheck() and rcpthosts() results are abstract (any outcome) in the automaton', 'constmap/cdb lookups as string functions are not decided')
