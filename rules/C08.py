"""C08 — SMTP transactions are well-sequenced and relaying is gated by policy (command
automaton and gate order; what addrparse returns for every spelling and the constmap/cdb
lookups as string functions are not decided)."""
from collections import deque
from qv.core import AnalysisBroken
from qv.esp import Engine, Outcome, TOP, fs
from qv.lib import QHooks, holds_set, macro_const


def g1(E, k, d=None):
    v = E.get(k)
    return next(iter(v)) if v else d


class SmtpdHooks(QHooks):
    inline_unit = 'qmail-smtpd.c'
    no_inline = frozenset(['addrparse', 'bmfcheck', 'addrallowed', 'blast', 'acceptmessage', 'dohelo', 'smtp_greet', 'flush', 'out', 'put',
                           'die_nomem', 'die_control', 'die_read', 'die_alarm', 'straynewline'])
    tracked = frozenset(['G:seenmail', 'G:flagbarf', 'G:rcptto', 'G:relayclient'])
    inline_depth = 3

    def __init__(self):
        self.trans = []      # (handler, pre, post, events)
        self.handler = None
        self.pre = None

    def materialize(self, E, path):
        if path == 'G:rcptto.len':
            return fs(0) if g1(E, '$rcpt', 0) == 0 else fs(7)
        return TOP

    def ev(self, E, e):
        E.set('$ev', fs(tuple(g1(E, '$ev', ())) + (e,)))

    def prim_out(self, E, x, args):
        s = x.args[0].string
        if s and s[:3].isdigit():
            self.ev(E, ('reply', s[:3]))
        return [Outcome(ret=TOP)]

    def prim_smtp_greet(self, E, x, args):
        s = x.args[0].string
        if s and s[:3].isdigit():
            self.ev(E, ('reply', s[:3]))
        return [Outcome(ret=TOP)]

    def prim_dohelo(self, E, x, args):
        return [Outcome(ret=TOP)]

    def prim_flush(self, E, x, args):
        return [Outcome(ret=TOP)]

    def prim_acceptmessage(self, E, x, args):
        self.ev(E, ('reply', '250'))
        return [Outcome(ret=TOP)]

    def prim_addrparse(self, E, x, args):
        n = g1(E, '$nparse', 0)
        return [Outcome(ret=fs(0), sets={'$parsed': fs(0)}, log='addrparse rejects'),
                Outcome(ret=fs(1), sets={'$parsed': fs(1), '$addr': fs('addr-of-this-command')}, log='addrparse accepts')]

    def prim_bmfcheck(self, E, x, args):
        self.ev(E, ('bmfcheck', g1(E, '$parsed')))
        return [Outcome(ret=fs(0)), Outcome(ret=fs(1))]

    def prim_addrallowed(self, E, x, args):
        self.ev(E, ('addrallowed',))
        return [Outcome(ret=fs(0), log='rcpthosts: not allowed'), Outcome(ret=fs(1), log='rcpthosts: allowed')]

    def _sa(self, E, x):
        a = x.args[0].strip()
        return a.args[0].path() if a.k == 'un' and a.op == '&' else None

    def prim_stralloc_copys(self, E, x, args):
        sa = self._sa(E, x)
        if sa == 'G:rcptto':
            E.set('$rcpt', fs(0))
            self.ev(E, ('rcptto-reset',))
        elif sa == 'G:mailfrom':
            self.ev(E, ('mailfrom:=', x.args[1].src(), g1(E, '$parsed')))
        return [Outcome(ret=fs(1)), Outcome(ret=fs(0), noreturn=True)] if False else [Outcome(ret=fs(1))]

    def prim_stralloc_cats(self, E, x, args):
        sa = self._sa(E, x)
        if sa == 'G:rcptto':
            E.set('$rcpt', fs(1))
            self.ev(E, ('rcptto+=', x.args[1].string if x.args[1].string is not None else x.args[1].src()))
        elif sa == 'G:addr':
            self.ev(E, ('addr+=', x.args[1].src()))
        return [Outcome(ret=fs(1))]

    def prim_stralloc_append(self, E, x, args):
        return [Outcome(ret=fs(1))]

    prim_stralloc_0 = prim_stralloc_append

    def prim_qmail_open(self, E, x, args):
        self.ev(E, ('qmail_open', g1(E, 'G:seenmail', '?'), g1(E, '$rcpt', 0)))
        return [Outcome(ret=fs(0)), Outcome(ret=fs(-1))]

    def prim_qmail_from(self, E, x, args):
        self.ev(E, ('qmail_from', x.args[1].src()))
        return [Outcome(ret=TOP)]

    def prim_qmail_put(self, E, x, args):
        self.ev(E, ('qmail_put', x.args[1].src()))
        return [Outcome(ret=TOP)]

    def _q(self, E, x, args):
        return [Outcome(ret=TOP)]

    prim_qmail_qp = prim_received = prim_blast = prim_qmail_fail = _q

    def prim_qmail_close(self, E, x, args):
        return [Outcome(ret=fs(('str', ''))), Outcome(ret=fs(('str', 'Dx'))), Outcome(ret=fs(('str', 'Zx')))]

    def on_return(self, E, fn, val):
        sm = E.get('G:seenmail')
        fb = E.get('G:flagbarf')
        post = (next(iter(sm)) if sm is not TOP and len(sm) == 1 else '?', g1(E, '$rcpt', 0), next(iter(fb)) if fb is not TOP and len(fb) == 1 else '?')
        self.trans.append((self.handler, self.pre, post, tuple(g1(E, '$ev', ())), E.trace.list()))


def run(ctx):
    db, rep = ctx.db, ctx.report
    prog = db.program('qmail-smtpd')
    u = db.unit('qmail-smtpd.c')
    # ---- command table
    tab = u.globals.get('smtpcommands')
    if not tab or tab.get('init', {}).get('k') != 'list':
        raise AnalysisBroken('smtpcommands[] initialiser not found')
    cmds = {}
    sentinel = False
    for row in tab['init']['v']:
        r = row['v']
        name = r[0].get('v') if r[0].get('k') == 'str' else None
        fnm = r[1].get('v')[2:] if r[1].get('k') == 'fn' else None
        if name is None:
            sentinel = True
            cmds['<other>'] = fnm
        else:
            cmds[name] = fnm
    r0 = rep.rule('C08.0-command-table', 'R-TABLE', 'smtpcommands[]: mail, rcpt, data, rset, helo, ehlo dispatch to their handlers; a sentinel entry catches everything else')
    want = {'mail': 'smtp_mail', 'rcpt': 'smtp_rcpt', 'data': 'smtp_data', 'rset': 'smtp_rset', 'helo': 'smtp_helo', 'ehlo': 'smtp_ehlo'}
    r0.check(all(cmds.get(k) == v for k, v in want.items()) and sentinel, 'command-table', 'qmail-smtpd.c', 'table: %s' % cmds)
    cf = db.fn('commands.c', 'commands')
    r0.check(bool(cf.calls(('case_equals', 'case_diffs', 'strcasecmp'))), 'commands-match-case-insensitively', 'commands.c:commands', '')

    # ---- handler summaries over the abstract state (seenmail, rcptto.len>0, flagbarf)
    H = SmtpdHooks()
    handlers = sorted(set(cmds.values()))
    nstates = 0
    for h in handlers:
        fn = prog.resolve(h, 'qmail-smtpd.c')
        if fn is None or not fn.blocks:
            raise AnalysisBroken('handler %s not found' % h)
        for sm in (0, 1):
            for rc in (0, 1):
                for fb in (0, 1):
                    H.handler, H.pre = h, (sm, rc, fb)
                    eng = Engine(db, prog, H)
                    eng.run(fn, {'G:seenmail': fs(sm), 'G:flagbarf': fs(fb), '$rcpt': fs(rc)})
                    nstates += eng.states
                    rep.count_states(eng.states, eng.transitions)

    def reply(ev):
        rs = [e[1] for e in ev if e[0] == 'reply']
        return rs

    r1 = rep.rule('C08.1-handler-contracts', 'R-TYPESTATE', 'per handler and abstract state: rejected MAIL/RCPT change nothing; accepted MAIL opens a fresh transaction with the sender just parsed and the bad-sender verdict for it; a recipient is recorded exactly when 250 is sent; DATA opens the queue only with MAIL and a recipient; HELO/EHLO/RSET/DATA close the transaction')
    seen_handlers = set()
    for h, pre, post, ev, tr in H.trans:
        seen_handlers.add(h)
        rs = reply(ev)
        code = rs[0] if rs else None
        if h == 'smtp_mail':
            if code != '250':
                r1.check(post == pre and not any(e[0] in ('rcptto-reset', 'mailfrom:=') for e in ev), 'MAIL:rejected-command-changes-nothing', 'qmail-smtpd.c:smtp_mail',
                         'MAIL answered %s moves (seenmail, recipients, flagbarf) from %s to %s with events %s: a later RCPT/DATA would run under a transaction the client was told does not exist' % (code, pre, post, [e[0] for e in ev]), tr)
            else:
                r1.check(post[0] == 1 and post[1] == 0, 'MAIL:accepted-opens-a-fresh-transaction', 'qmail-smtpd.c:smtp_mail', 'after 250: state %s' % (post,), tr)
                mf = [e for e in ev if e[0] == 'mailfrom:=']
                r1.check(len(mf) == 1 and mf[0][1] == 'addr.s' and mf[0][2] == 1, 'MAIL:sender-is-the-address-just-parsed', 'qmail-smtpd.c:smtp_mail', 'mailfrom events %s' % mf, tr)
                bm = [e for e in ev if e[0] == 'bmfcheck']
                r1.check(len(bm) == 1 and bm[0][1] == 1, 'MAIL:bad-sender-verdict-taken-for-the-parsed-address', 'qmail-smtpd.c:smtp_mail', 'bmfcheck events %s' % bm, tr)
        elif h == 'smtp_rcpt':
            added = [e for e in ev if e[0] == 'rcptto+=']
            if code == '250':
                ok = pre[0] == 1 and pre[2] == 0 and post[1] == 1 and [a[1] for a in added] == ['T', 'addr.s']
                r1.check(ok, 'RCPT:250-iff-recipient-recorded(needs-MAIL,not-barred)', 'qmail-smtpd.c:smtp_rcpt', 'RCPT 250 from state %s with appends %s' % (pre, added), tr)
                allowed = any(e[0] == 'addrallowed' for e in ev)
                relay = any(e[0] == 'addr+=' for e in ev)
                r1.check(allowed != relay, 'RCPT:accepted-via-rcpthosts-xor-relayclient', 'qmail-smtpd.c:smtp_rcpt', 'events %s' % [e[0] for e in ev], tr)
            else:
                r1.check(not added and post == pre, 'RCPT:rejected-command-records-nothing', 'qmail-smtpd.c:smtp_rcpt', 'RCPT answered %s from %s to %s with appends %s' % (code, pre, post, added), tr)
        elif h == 'smtp_data':
            opens = [e for e in ev if e[0] == 'qmail_open']
            for e in opens:
                r1.check(pre[0] == 1 and pre[1] == 1, 'DATA:queue-opened-only-with-MAIL-and-a-recipient', 'qmail-smtpd.c:smtp_data', 'qmail_open from state %s' % (pre,), tr)
            if opens:
                r1.check(post[0] == 0, 'DATA:closes-the-transaction', 'qmail-smtpd.c:smtp_data', 'seenmail after DATA: %s' % post[0], tr)
                fr = [e for e in ev if e[0] == 'qmail_from']
                pt = [e for e in ev if e[0] == 'qmail_put']
                if fr:
                    r1.check(fr[0][1] == 'mailfrom.s' and any(p[1] == 'rcptto.s' for p in pt), 'DATA:envelope=mailfrom+rcptto', 'qmail-smtpd.c:smtp_data', 'qmail_from(%s), qmail_put(%s)' % (fr[0][1], [p[1] for p in pt]), tr)
            else:
                r1.check(code is not None and code[0] == '5', 'DATA:refused-with-5xx-without-MAIL/RCPT', 'qmail-smtpd.c:smtp_data', 'DATA from %s answered %s' % (pre, code), tr)
        elif h in ('smtp_helo', 'smtp_ehlo', 'smtp_rset'):
            r1.check(post[0] == 0, '%s:closes-the-transaction' % h[5:].upper(), 'qmail-smtpd.c:' + h, 'seenmail after %s: %s' % (h, post[0]), tr)
    if not {'smtp_mail', 'smtp_rcpt', 'smtp_data', 'smtp_rset'} <= seen_handlers:
        raise AnalysisBroken('handler summaries incomplete: %s' % sorted(seen_handlers))
    r1.expect_min(10)

    # ---- protocol automaton: product of the summaries with the specification's ghost state
    r2 = rep.rule('C08.2-protocol-automaton', 'R-TYPESTATE', 'over all command sequences (abstract states explored exhaustively): the queue is opened only after an accepted MAIL followed by at least one accepted RCPT with no reset in between')
    summ = {}
    for h, pre, post, ev, tr in H.trans:
        summ.setdefault((h, pre), set()).add((post, ev))
    init = ((0, 0, 0), (0, 0))        # impl (seenmail, rcpt, barf) x ghost (mailok, rcptok)
    seen, work = {init}, deque([init])
    bad = None
    ntr = 0
    while work:
        impl, ghost = work.popleft()
        for h in handlers:
            pres = [impl] if impl[2] != '?' else [(impl[0], impl[1], 0), (impl[0], impl[1], 1)]
            for p in pres:
                for post, ev in summ.get((h, p), ()):
                    ntr += 1
                    rs = reply(ev)
                    code = rs[0] if rs else None
                    g = ghost
                    if any(e[0] == 'qmail_open' for e in ev):
                        if g != (1, 1) and bad is None:
                            bad = (impl, ghost, h)
                    if h == 'smtp_mail' and code == '250':
                        g = (1, 0)
                    elif h == 'smtp_rcpt' and code == '250':
                        g = (g[0], 1 if g[0] else g[1])
                    elif h in ('smtp_helo', 'smtp_ehlo', 'smtp_rset'):
                        g = (0, 0)
                    elif h == 'smtp_data' and not (code or '').startswith('503'):
                        g = (0, 0)      # a DATA refused for bad sequence leaves the transaction as it is
                    nxt = (post, g)
                    if nxt not in seen:
                        seen.add(nxt)
                        work.append(nxt)
    r2.check(bad is None, 'queue-opened-only-after-accepted-MAIL+RCPT', 'qmail-smtpd.c', 'reachable: implementation state %s with specification state (mail accepted, rcpt accepted) = %s lets %s open the queue' % (bad if bad else (None, None, None)))
    r2.note(product_states=len(seen), product_transitions=ntr, abstract_states=nstates, exhaustive=True)
    rep.count_states(len(seen), ntr)
    rep.exhaustive_rules.append('C08.2-protocol-automaton')

    # ---- gates inside smtp_rcpt
    r3 = rep.rule('C08.3-gates', 'R-GUARD', 'relay suffix only for relay clients; bad senders via the whole address or the part from the LAST @; over-long addresses refused below qmail-queue\'s limit; local-IP substitution before the length test')
    rc = prog.fn('smtp_rcpt', 'qmail-smtpd.c')
    suf = [c for c in rc.calls('stralloc_cats') if c.args[1].path() == 'G:relayclient']
    r3.check(bool(suf) and any(c.path() == 'G:relayclient' and t is True for c, t in rc.guards(suf[0]) or []), 'relay-suffix-only-under-relayclient', rc.unit + ':smtp_rcpt', '')
    bm = prog.fn('bmfcheck', 'qmail-smtpd.c')
    lk = bm.calls('constmap')
    whole = [c for c in lk if c.args[1].path() == 'G:addr.s']
    part = [c for c in lk if c.args[1].path() != 'G:addr.s']
    okb = len(whole) == 1 and len(part) == 1
    jdef = None
    if part:
        jv = [r for r in part[0].args[1].refs() if r.startswith('L:j')]
        for x in bm.all_x():
            if x.k == 'asg' and jv and x.args[0].var == jv[0]:
                jdef = x.args[1].strip()
    last_at = jdef is not None and jdef.k == 'call' and jdef.callee in ('byte_rchr', 'str_rchr') and jdef.args[-1].const == ord('@')
    r3.check(okb and last_at, 'bad-sender-domain-is-the-part-from-the-last-@', bm.unit + ':bmfcheck',
             'the domain lookup starts at the position found by %s: with the FIRST @ a sender like "a@b"@spam.example escapes an @spam.example entry' % (jdef.callee if jdef is not None and jdef.k == 'call' else jdef))
    rets = [x for x in bm.all_x() if x.k == 'ret']
    ones = [x for x in rets if x.args and x.args[0].const == 1]
    r3.check(len(ones) >= 2 and all(any(c.strip().k == 'call' and c.strip().callee == 'constmap' and t is True for c, t in bm.guards(x) or []) for x in ones),
             'bad-sender-iff-a-lookup-hits', bm.unit + ':bmfcheck', '')
    ap = prog.fn('addrparse', 'qmail-smtpd.c')
    lim = None
    for x in ap.all_x():
        if x.k == 'ret' and x.args and x.args[0].const == 0:
            for c, t in ap.guards(x) or []:
                hs = holds_set(c, t, lambda v: v.path() == 'G:addr.len')
                if hs:
                    for k in range(1, 2000):
                        if hs(k):
                            lim = k
                            break
    addr_q = macro_const(db, 'qmail-queue.c', 'ADDR')
    r3.check(lim is not None and lim <= addr_q - 1, 'over-long-addresses-refused-below-the-queue-limit', ap.unit + ':addrparse', 'addresses of %s bytes or more are refused; qmail-queue accepts < %d' % (lim, addr_q))
    sub = ap.calls('ipme_is')
    lenret = [x for x in ap.all_x() if x.k == 'ret' and x.args and x.args[0].const == 0]
    r3.check(bool(sub and lenret) and not ap.can_reach(ap.pos[lenret[0].id][0], ap.pos[sub[0].id][0]) and any(c.path() == 'G:liphostok' and t is True for c, t in ap.guards(sub[0]) or []),
             'local-IP-substitution-before-the-length-test', ap.unit + ':addrparse', '')
    r3.expect_min(5)

    # ---- rcpthosts()
    r4 = rep.rule('C08.4-rcpthosts', 'R-TABLE', 'rcpthosts(): domain lower-cased before both lookups; candidates are the whole domain and every dot suffix, same predicate for the list and the cdb; no @ or no rcpthosts file -> allowed (documented open default); cdb errors propagate')
    rh = db.fn('rcpthosts.c', 'rcpthosts')
    cl = rh.calls('case_lowerb')
    cm = rh.calls('constmap')
    cs = rh.calls('cdb_seek')
    if not (cl and cm and cs):
        raise AnalysisBroken('rcpthosts(): lookups not found')
    r4.check(rh.dominates(cl[0], cm[0]) and rh.dominates(cl[0], cs[0]), 'lower-casing-before-both-lookups', rh.unit + ':rcpthosts', '')

    def cand(c):
        out = []
        for cc, t in rh.guards(c) or []:
            s = cc.strip()
            if t is True and ((s.k == 'un' and s.op == '!' and (s.args[0].var or '').startswith('L:j')) or
                              (s.k == 'bin' and s.op == '==' and s.args[1].const == ord('.'))):
                out.append(s.src())
        return out
    # the two disjuncts are split by short-circuit; compare the sets of comparisons guarding each lookup's loop body
    def preds(c):
        b = rh.pos[c.id][0]
        found = set()
        for blk in rh.blocks.values():
            cnd = blk.cond
            if cnd is None:
                continue
            s = cnd.strip()
            if blk.succs and blk.succs[0] is not None and (blk.succs[0] == b):
                from qv.lib import branch_zero_test as _bz
                if _bz(cnd, True, lambda v: (v.var or '')[:2] == 'L:') == 'zero':
                    found.add('j==0')
                if s.k == 'bin' and s.op == '==' and s.args[1].const == ord('.'):
                    found.add('dot')
        return found
    p1, p2 = preds(cm[0]), preds(cs[0])
    r4.check(p1 == {'j==0', 'dot'} and p1 == p2, 'candidate-positions=start-and-every-dot,same-for-list-and-cdb', rh.unit + ':rcpthosts', 'list lookup candidates %s, cdb lookup candidates %s' % (sorted(p1), sorted(p2)))
    at = [c for c in rh.calls('byte_rchr') if c.args[-1].const == ord('@')]
    r4.check(bool(at), 'domain-is-the-part-after-the-last-@', rh.unit + ':rcpthosts', '')
    r1s = [x for x in rh.all_x() if x.k == 'ret' and x.args and x.args[0].const == 1]
    open_default = any(any('flagrh' in c.src() and t is True for c, t in rh.guards(x) or []) for x in r1s)
    no_at = any(any(c.strip().k == 'bin' and c.strip().op == '>=' and t is True for c, t in rh.guards(x) or []) for x in r1s)
    r4.check(open_default and no_at, 'no-file-or-no-@->allowed', rh.unit + ':rcpthosts', '')
    prop = any(x.k == 'ret' and x.args and (x.args[0].var or '').startswith('L:r') for x in rh.all_x())
    aa = prog.fn('addrallowed', 'qmail-smtpd.c')
    dc = aa.calls('die_control')
    r4.check(prop and bool(dc) and any(c.strip().k == 'bin' and c.strip().args[1].const == -1 and t is True for c, t in aa.guards(dc[0]) or []), 'cdb-result-propagated,-1->die_control', 'rcpthosts.c/qmail-smtpd.c', '')
    r4.expect_min(5)
    rep.assume('addrparse(), bmfcheck() and rcpthosts() results are abstract (any outcome) in the automaton', 'constmap/cdb lookups as string functions are not decided')
