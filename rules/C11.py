"""C11 — local deliveries run as the right user, never root (privilege typestate, error
table, lookup order, writer/reader agreement; the table lookup as a string function and
"first duplicate wins" are not decided)."""
import re
from qv.core import AnalysisBroken
from qv.esp import Engine, Env, Outcome, TOP, fs
from qv.lib import QHooks
from rules import libtab as _lt


def g1(E, k, d=None):
    v = E.get(k)
    return next(iter(v)) if v else d


def lookup_object(sp):
    """the global stralloc spawn() parses: the one object whose .s and .len it reads (found by use, not by name)"""
    seen = {}
    for x in sp.all_x():
        if x.k == 'mem':
            pth = x.path() or ''
            m_ = re.match(r'^(G:\w+)\.(s|len)$', pth)
            if m_:
                seen.setdefault(m_.group(1), set()).add(m_.group(2))
    objs = sorted(o for o, f in seen.items() if f == {'s', 'len'})
    if len(objs) != 1:
        raise AnalysisBroken('qmail-lspawn spawn(): the lookup result object is not unique: %s' % objs)
    return objs[0]


class PrivHooks(QHooks):
    """privilege typestate in a forked child: groups/gid dropped, then uid, then root refused, then exec"""
    def __init__(self, unit, need_root_check, want_gid=None, want_uid=None):
        self.sites = {}
        self.unit = unit
        self.need_root = need_root_check
        self.want_gid, self.want_uid = want_gid, want_uid
        self.execs = 0

    def site(self, inst, x, ok, detail, E):
        prev = self.sites.get(inst)
        if prev is None or (prev[0] and not ok):
            self.sites[inst] = (ok, x.where if x is not None else self.unit, detail, E.trace.list() if not ok else [])
        if not ok:
            E.kill()

    def prim_fork(self, E, x, args):
        return [Outcome(ret=fs(0), sets={'$child': fs(1)}, log='fork: child'), Outcome(ret=fs(-1)), Outcome(ret=fs(4711))]

    # the record qmail-lspawn works on: six NUL-terminated fields  user uid gid home dash ext
    RECORD = b'u\x0011\x0022\x00h\x00-\x00e\x00'
    FIELD_AT = {0: 0, 2: 1, 5: 2, 8: 3, 10: 4, 12: 5}

    NU = 'G:nughde'

    def tracked_global(self, path):
        return path.startswith(self.NU) or path.startswith('NU[') or path.startswith('$')

    def precise_arith(self, path):
        return True

    def materialize(self, E, path):
        if path == self.NU + '.s':
            return fs(('&', 'NU[0]'))
        if path == self.NU + '.len':
            return fs(len(self.RECORD))
        if path.startswith('NU['):
            k = int(path[3:-1])
            return fs(self.RECORD[k]) if k < len(self.RECORD) else TOP
        return TOP

    @staticmethod
    def _off(v):
        a = next(iter(v)) if v is not TOP and len(v) == 1 else None
        return int(a[1][3:-1]) if isinstance(a, tuple) and a[0] == '&' and a[1].startswith('NU[') else None

    def prim_scan_ulong(self, E, x, args):
        # the number is whatever field of the record the pointer addresses
        off = self._off(args[0])
        k = self.FIELD_AT.get(off, '?') if off is not None else '?'
        up = None
        if args[1] is not TOP and len(args[1]) == 1:
            (a,) = args[1]
            if isinstance(a, tuple) and a[0] == '&':
                up = a[1]
        st = {up: fs(('field', k))} if up else {}
        return [Outcome(ret=TOP, sets=st)]

    def prim_byte_chr(self, E, x, args):
        off = self._off(args[0])
        n = next(iter(args[1])) if args[1] is not TOP and len(args[1]) == 1 else None
        c = next(iter(args[2])) if args[2] is not TOP and len(args[2]) == 1 else None
        if off is None or not isinstance(n, int) or not isinstance(c, int):
            return [Outcome(ret=TOP)]
        for i in range(n):
            if off + i < len(self.RECORD) and self.RECORD[off + i] == (c & 255):
                return [Outcome(ret=fs(i))]
        return [Outcome(ret=fs(n))]

    def prim_memchr(self, E, x, args):
        off = self._off(args[0])
        c = next(iter(args[1])) if args[1] is not TOP and len(args[1]) == 1 else None
        n = next(iter(args[2])) if args[2] is not TOP and len(args[2]) == 1 else None
        if off is None or not isinstance(n, int) or not isinstance(c, int):
            return [Outcome(ret=TOP)]
        for i in range(n):
            if off + i < len(self.RECORD) and self.RECORD[off + i] == (c & 255):
                return [Outcome(ret=fs(('&', 'NU[%d]' % (off + i))))]
        return [Outcome(ret=fs(0))]

    def prim_strlen(self, E, x, args):
        off = self._off(args[0])
        if off is None or 0 not in self.RECORD[off:]:
            return [Outcome(ret=TOP)]
        return [Outcome(ret=fs(self.RECORD[off:].index(0)))]

    prim_str_len = prim_strlen

    def prim_nughde_get(self, E, x, args):
        return [Outcome(ret=TOP)]

    def _gid(self, E, x, args):
        v = args[-1] if x.callee == 'prot_gids' else args[0]
        val = next(iter(v)) if v is not TOP and len(v) == 1 else x.args[-1 if x.callee == 'prot_gids' else 0].src()
        if self.want_gid is not None:
            self.site('gid-is-the-assigned-one', x, val == self.want_gid, 'groups/gid switched to %s, expected %s' % (val, self.want_gid), E)
        self.site('groups-dropped-before-uid', x, g1(E, '$uid', 0) == 0, 'prot_gid after prot_uid cannot succeed in dropping groups', E)
        return [Outcome(ret=fs(0), sets={'$gid': fs(1)}, log='%s ok' % x.callee), Outcome(ret=fs(-1), log='%s fails' % x.callee)]

    prim_prot_gid = prim_prot_gids = _gid

    def prim_prot_uid(self, E, x, args):
        v = args[0]
        val = next(iter(v)) if v is not TOP and len(v) == 1 else x.args[0].src()
        if self.want_uid is not None:
            self.site('uid-is-the-assigned-one', x, val == self.want_uid, 'uid switched to %s, expected %s' % (val, self.want_uid), E)
        return [Outcome(ret=fs(0), sets={'$uid': fs(1), '$rootchecked': fs(0)}, log='prot_uid ok'), Outcome(ret=fs(-1), log='prot_uid fails')]

    prim_setuid = prim_prot_uid

    def prim_getuid(self, E, x, args):
        return [Outcome(ret=fs(0), log='getuid() == 0'),
                Outcome(ret=fs(1000), sets={'$rootchecked': fs(1 if g1(E, '$uid', 0) == 1 else 0)}, log='getuid() != 0')]

    def _exec(self, E, x, args):
        if not g1(E, '$child', 0) and self.unit != 'qmail-start.c':
            return 'noreturn'
        self.execs += 1
        self.site('exec-only-after-groups+gid-dropped', x, g1(E, '$gid', 0) == 1 or not self.need_gid(E, x), 'exec reachable before prot_gid succeeded', E)
        self.site('exec-only-after-uid-dropped', x, g1(E, '$uid', 0) == 1, 'exec reachable before prot_uid succeeded', E)
        if self.need_root:
            self.site('exec-only-after-root-refused', x, g1(E, '$rootchecked', 0) == 1,
                      'exec reachable without the test getuid() != 0 after the uid switch: a table entry whose uid truncates to 0 would run qmail-local as root', E)
        return 'noreturn'

    def need_gid(self, E, x):
        return True

    prim_execv = prim_execvp = _exec


class LookupHooks(QHooks):
    """nughde_get on a fixed geometry: local part "ab", key "!ab\\0" (len 4)"""
    KEY, WILD, NU = 'G:lower', 'G:wildchars', 'G:nughde'       # the probe key, the break-character list, the result: set by role (lookup_roles)
    KEYLEN = 4

    @property
    def tracked(self):
        return frozenset([self.KEY, self.WILD, self.NU])

    def precise_arith(self, path):
        return True         # the key has 4 bytes: every counter over it is concrete

    def materialize(self, E, path):
        if path == self.KEY + '.s':
            return fs(('&', self.KEY + '.s[0]'))
        if path == self.WILD + '.s':
            return fs(('&', self.WILD + '.s[0]'))
        return TOP

    def __init__(self, eng_ref):
        self.sites = {}
        self.probes = set()
        self.eng_ref = eng_ref
        self.prefix = None

    def site(self, inst, x, ok, detail, E):
        prev = self.sites.get(inst)
        if prev is None or (prev[0] and not ok):
            self.sites[inst] = (ok, x.where if x is not None else 'qmail-lspawn.c:nughde_get', detail, E.trace.list() if not ok else [])
        if not ok:
            E.kill()

    def _sa(self, E, x):
        v = E.val(x.args[0])
        if v is not TOP and len(v) == 1:
            (a,) = v
            if isinstance(a, tuple) and a[0] == '&':
                return a[1]
        return None

    def prim_stralloc_copys(self, E, x, args):
        if self._sa(E, x) == self.KEY:
            self.prefix = x.args[1].string
        return [Outcome(ret=fs(1))]

    prim_stralloc_copyb = prim_stralloc_copys

    def prim_stralloc_cats(self, E, x, args):
        sa = self._sa(E, x)
        if sa == self.NU and g1(E, '$hit') is not None:
            i, wild = g1(E, '$hit')
            # what is appended is an address inside the local part handed to nughde_get (LOCAL[k]), whoever computed it
            a = next(iter(args[1])) if args[1] is not TOP and len(args[1]) == 1 else None
            off = int(a[1][6:-1]) if isinstance(a, tuple) and a[0] == '&' and a[1].startswith('LOCAL[') else None
            plen = len(self.prefix or '')
            self.site('wildcard-remainder-starts-after-the-matched-prefix', x, off is not None and off == i - plen,
                      'for a wildcard key of %d bytes (prefix literal %r) the appended remainder starts at offset %s of the local part, expected %d' %
                      (i, self.prefix, off, i - plen), E)
            E.set('$appended', fs(1))
        return [Outcome(ret=fs(1))]

    def prim_stralloc_append(self, E, x, args):
        if self._sa(E, x) == self.KEY and x.args[1].string == '':
            return [Outcome(ret=fs(1), sets={self.KEY + '.len': fs(self.KEYLEN)})]
        return [Outcome(ret=fs(1))]

    def prim_stralloc_ready(self, E, x, args):
        return [Outcome(ret=fs(1))]

    def prim_case_lowerb(self, E, x, args):
        E.set('$lowered', fs(1))
        return [Outcome(ret=TOP)]

    def prim_open_read(self, E, x, args):
        return [Outcome(ret=fs(('fd', 'cdb'))), Outcome(ret=fs(-1))]

    def prim_cdb_seek(self, E, x, args):
        dp = None
        if args[3] is not TOP and len(args[3]) == 1:
            (a,) = args[3]
            if isinstance(a, tuple) and a[0] == '&':
                dp = a[1]
        if x.args[1].string == '':
            return [Outcome(ret=fs(1), sets={dp: fs(5)}), Outcome(ret=fs(0)), Outcome(ret=fs(-1), sets={'$err': fs(1)})]
        kv = next(iter(args[1])) if args[1] is not TOP and len(args[1]) == 1 else None
        if x.args[1].path() != self.KEY + '.s' and kv != ('&', self.KEY + '.s[0]'):
            raise AnalysisBroken('nughde_get: probe key is %s' % x.args[1].src())
        iv = args[2]
        i = next(iter(iv)) if iv is not TOP and len(iv) == 1 else None
        wild = None if i is None else (0 if i == self.KEYLEN else 1)     # a key shorter than the full one is a wildcard probe
        self.site('probe-after-lower-casing', x, g1(E, '$lowered', 0) == 1, 'cdb probed before the key was lower-cased', E)
        self.site('no-lookup-after-a-database-error', x, g1(E, '$err', 0) == 0, 'a probe follows a cdb error that did not end the process', E)
        member = g1(E, '$member')
        self.probes.add((i, wild, member))
        prev = g1(E, '$lasti', 99)
        self.site('probes-longest-key-first', x, i is not None and i < prev, 'probe of %s bytes after a probe of %s bytes' % (i, prev), E)
        sets = {'$lasti': fs(i), '$member': TOP}
        return [Outcome(ret=fs(1), sets=dict(sets, **{dp: fs(7), '$hit': fs((i, wild))}), log='cdb hit for key of %s bytes (wild=%s)' % (i, wild)),
                Outcome(ret=fs(0), sets=sets, log='cdb miss for key of %s bytes' % i),
                Outcome(ret=fs(-1), sets=dict(sets, **{'$err': fs(1)}), log='cdb error')]

    def prim_cdb_bread(self, E, x, args):
        return [Outcome(ret=fs(0)), Outcome(ret=fs(-1), sets={'$err': fs(1)}, log='cdb read error')]

    def prim_byte_chr(self, E, x, args):
        if x.args[0].path() == self.WILD + '.s' or (args[0] is not TOP and args[0] == fs(('&', self.WILD + '.s[0]'))):
            n = g1(E, self.WILD + '.len', 5)
            return [Outcome(ret=fs(0), sets={'$member': fs(True)}, log='break character: member'),
                    Outcome(ret=fs(n), sets={'$member': fs(False)}, log='break character: not a member')]
        return [Outcome(ret=TOP)]

    def prim_memchr(self, E, x, args):
        if x.args[0].path() == self.WILD + '.s' or (args[0] is not TOP and args[0] == fs(('&', self.WILD + '.s[0]'))):
            return [Outcome(ret=fs(('&', self.WILD + '.s[0]')), sets={'$member': fs(True)}, log='break character: member'),
                    Outcome(ret=fs(0), sets={'$member': fs(False)}, log='break character: not a member')]
        return [Outcome(ret=TOP)]

    def prim_pipe(self, E, x, args):
        self.site('fallback-only-after-the-table-was-searched-without-error', x, g1(E, '$err', 0) == 0, 'qmail-getpw fallback after a cdb error', E)
        E.kill()
        return [Outcome(ret=TOP)]

    def on_return(self, E, fn, val):
        self.site('no-return-after-a-database-error', None, g1(E, '$err', 0) == 0, 'nughde_get returns after a cdb error: the delivery would go to the wrong user instead of being deferred', E)
        h = g1(E, '$hit')
        if h is not None and h[1] == 1:
            self.site('wildcard-hit-appends-the-remainder', None, g1(E, '$appended', 0) == 1, 'wildcard hit without the remainder of the local part', E)
        if h is not None and h[1] == 0:
            self.site('exact-hit-appends-nothing', None, g1(E, '$appended', 0) == 0, 'exact hit with a remainder appended', E)


def lookup_roles(ng, sp):
    """the three objects of nughde_get() by what is done with them: the probe key starts as the literal "!", the result is what
    spawn() parses, the break-character list is the other stralloc that is sized from the database"""
    def target(c):
        t = c.args[0].strip() if c.args and c.args[0] is not None else None
        while t is not None and t.k in ('un', 'cast') and t.args:
            t = t.args[0].strip()
        return t.path() if t is not None else None
    nu = lookup_object(sp)
    keys = {target(c) for c in ng.calls(('stralloc_copys', 'stralloc_copyb')) if len(c.args) > 1 and c.args[1] is not None and c.args[1].string == '!'}
    wild = {target(c) for c in ng.calls(('stralloc_ready', 'stralloc_readyplus'))} - {nu, None}
    if len(keys) != 1 or None in keys or len(wild) != 1:
        raise AnalysisBroken('nughde_get: probe key %s / break list %s not identified' % (sorted(map(str, keys)), sorted(map(str, wild))))
    return next(iter(keys)), next(iter(wild)), nu


def lowered_root(fn, x_use, expr):
    """on every path from the function entry to x_use the buffer `expr` reads from passes through a
    case_lowerb/case_lowers call on that buffer"""
    roots = {r for r in expr.refs() if r[:2] in ('G:', 'S:', 'L:', 'P:')}
    lows = [c for c in fn.calls(('case_lowerb', 'case_lowers')) if set(c.args[0].refs()) & roots]
    if not lows:
        return False
    ub, ui = fn.pos[x_use.id]
    if any(fn.pos[c.id][0] == ub and fn.pos[c.id][1] < ui for c in lows):
        return True
    avoid = {fn.pos[c.id][0] for c in lows}
    seen, work = set(), [fn.entry]
    while work:
        b = work.pop()
        if b in seen or b is None or b in avoid:
            continue
        seen.add(b)
        if b == ub:
            return False
        work.extend(fn.blocks[b].succs)
    return True


class CdbHooks(QHooks):
    def __init__(self):
        self.ends = []
        self.nalloc = 0

    def tracked_global(self, path):
        return True

    def precise_arith(self, path):
        return True

    def prim_alloc(self, E, x, args):
        self.nalloc += 1
        return [Outcome(ret=fs(('&', 'NEW%d[0]' % g1(E, '$alloc', 0))), sets={'$alloc': fs(g1(E, '$alloc', 0) + 1)})]

    prim_malloc = prim_alloc

    def prim_cdbmake_pack(self, E, x, args):
        return [Outcome(ret=TOP)]

    def on_return(self, E, fn, val):
        if fn.name == self.entry:
            self.ends.append((dict(E.store), val))


def cdb_order_sites(db, rep):
    """first duplicate wins: explored.  (1) cdbmake_add on a full chunk: where does the new chunk go in the list;
    (2) cdbmake_split on two chunks built in that orientation: records of one bucket come out in source order;
    (3) cdbmake_throw: records with the same hash get increasing probe positions in source order."""
    prog = db.program('qmail-newu')
    add, split, throw = db.fn('cdbmake_add.c', 'cdbmake_add'), db.fn('cdbmake_add.c', 'cdbmake_split'), db.fn('cdbmake_add.c', 'cdbmake_throw')
    full = db.unit('cdbmake_add.c').macro_int('CDBMAKE_HPLIST')
    if full is None:
        raise AnalysisBroken('CDBMAKE_HPLIST not found')
    out = {}

    def one(v):
        return next(iter(v)) if v is not None and v is not TOP and len(v) == 1 else None
    # (1) a record added when the newest chunk is full
    H = CdbHooks()
    H.entry = 'cdbmake_add'
    e = Engine(db, prog, H)
    fid = e.frame_id(add)
    e.run(add, {'%s::%s' % (fid, add.params[0]): fs(('&', 'CDBM')), '%s::%s' % (fid, add.params[1]): fs(0x705), '%s::%s' % (fid, add.params[2]): fs(99),
                'CDBM.head': fs(('&', 'OLD')), 'OLD.num': fs(full), 'OLD.next': fs(0), 'CDBM.numentries': fs(full)})
    rep.count_states(e.states, e.transitions)
    ends = [st for st, v in H.ends if v == fs(1)]
    if len(ends) != 1:
        raise AnalysisBroken('cdbmake_add: %d successful ends on a full chunk' % len(ends))
    st = ends[0]
    head = one(st.get('CDBM.head'))
    newc = ('&', 'NEW0[0]')
    if head == newc and one(st.get('NEW0[0].next')) == ('&', 'OLD'):
        orient = 'newest-first'
    elif head == ('&', 'OLD') and one(st.get('OLD.next')) == newc and one(st.get('NEW0[0].next')) in (0, None):
        orient = 'oldest-first'
    else:
        orient = None
    okadd = orient is not None and one(st.get('NEW0[0].hp[0].h')) == 0x705 and one(st.get('NEW0[0].hp[0].p')) == 99 and one(st.get('NEW0[0].num')) == 1 and one(st.get('CDBM.numentries')) == full + 1
    out['add:new-chunk-linked-and-record-stored'] = (okadd, 'cdbmake_add.c:cdbmake_add', 'after adding to a full chunk: head=%s NEW.next=%s NEW.hp[0]=(%s,%s) num=%s' %
                                                    (head, one(st.get('NEW0[0].next')), one(st.get('NEW0[0].hp[0].h')), one(st.get('NEW0[0].hp[0].p')), one(st.get('NEW0[0].num'))), [])
    if not okadd:
        return out
    # (1b) a record added to a chunk with room goes behind the ones already there
    H = CdbHooks()
    H.entry = 'cdbmake_add'
    e = Engine(db, prog, H)
    e.run(add, {'%s::%s' % (fid, add.params[0]): fs(('&', 'CDBM')), '%s::%s' % (fid, add.params[1]): fs(0x705), '%s::%s' % (fid, add.params[2]): fs(99),
                'CDBM.head': fs(('&', 'OLD')), 'OLD.num': fs(2), 'OLD.next': fs(0), 'CDBM.numentries': fs(2), 'OLD.hp[0].h': fs(1), 'OLD.hp[0].p': fs(11), 'OLD.hp[1].h': fs(2), 'OLD.hp[1].p': fs(12)})
    ends = [st_ for st_, v in H.ends if v == fs(1)]
    okroom = len(ends) == 1 and one(ends[0].get('OLD.hp[2].p')) == 99 and one(ends[0].get('OLD.hp[0].p')) == 11 and one(ends[0].get('OLD.hp[1].p')) == 12 and one(ends[0].get('OLD.num')) == 3
    out['add:record-appended-within-its-chunk'] = (okroom, 'cdbmake_add.c:cdbmake_add', 'a record added to a chunk holding 2 records must become its third', [])
    # (2) split: source order r0 r1 (older chunk A), r2 r3 (newer chunk B); r0, r1, r2 share bucket 5, r0 and r2 have the same hash
    recs = [(0x705, 10), (0x905, 11), (0x705, 12), (0x806, 13)]
    st0 = {'%s::%s' % (e.frame_id(split), split.params[0]): fs(('&', 'CDBM')), 'CDBM.numentries': fs(4),
           'A.num': fs(2), 'B.num': fs(2)}
    for k, (h, p_) in enumerate(recs):
        ch, idx = ('A', k) if k < 2 else ('B', k - 2)
        st0['%s.hp[%d].h' % (ch, idx)] = fs(h)
        st0['%s.hp[%d].p' % (ch, idx)] = fs(p_)
    if orient == 'newest-first':
        st0.update({'CDBM.head': fs(('&', 'B')), 'B.next': fs(('&', 'A')), 'A.next': fs(0)})
    else:
        st0.update({'CDBM.head': fs(('&', 'A')), 'A.next': fs(('&', 'B')), 'B.next': fs(0)})
    H = CdbHooks()
    H.entry = 'cdbmake_split'
    e = Engine(db, prog, H, max_states=2000000)
    e.run(split, st0)
    rep.count_states(e.states, e.transitions)
    ends = [st_ for st_, v in H.ends if v == fs(1)]
    if len(ends) != 1:
        raise AnalysisBroken('cdbmake_split: %d successful ends' % len(ends))
    st = ends[0]
    sp = one(st.get('CDBM.split'))
    s5, c5 = one(st.get('CDBM.start[5]')), one(st.get('CDBM.count[5]'))
    base = sp[1][:sp[1].index('[')] if isinstance(sp, tuple) else None
    order = [one(st.get('%s[%d].p' % (base, s5 + k))) for k in range(c5)] if base and isinstance(s5, int) and isinstance(c5, int) and 0 <= c5 < 8 else None
    out['split:records-of-a-bucket-come-out-in-source-order'] = (order == [10, 11, 12], 'cdbmake_add.c:cdbmake_split',
        'chunk list %s; the three records of bucket 5 (source order 10, 11, 12) are laid out as %s: with duplicates of a key in reverse order the LAST users/assign line would win' % (orient, order), [])
    hashp = one(st.get('CDBM.hash'))
    out['split:hash-area-behind-the-records'] = (hashp == ('&', '%s[4]' % base) if base else False, 'cdbmake_add.c:cdbmake_split', 'hash area at %s for 4 records' % (hashp,), [])
    if order != [10, 11, 12]:
        return out
    # (3) throw bucket 5: slots of the two records with hash 0x705 in probe order
    H = CdbHooks()
    H.entry = 'cdbmake_throw'
    e = Engine(db, prog, H, max_states=2000000)
    fidt = e.frame_id(throw)
    st1 = {k: v for k, v in st.items() if not k.startswith('$') and '::' not in k}
    st1.update({'%s::%s' % (fidt, throw.params[0]): fs(('&', 'CDBM')), '%s::%s' % (fidt, throw.params[1]): fs(4096), '%s::%s' % (fidt, throw.params[2]): fs(5)})
    e.run(throw, st1)
    rep.count_states(e.states, e.transitions)
    if len(H.ends) != 1:
        raise AnalysisBroken('cdbmake_throw: %d ends' % len(H.ends))
    st2, ret = H.ends[0]
    ln = one(ret)
    slots = {}
    if isinstance(ln, int) and 0 < ln < 32:
        hb = one(st2.get('CDBM.hash'))
        hbase, hoff = hb[1][:hb[1].index('[')], int(hb[1][hb[1].index('[') + 1:-1])
        for k in range(ln):
            p_ = one(st2.get('%s[%d].p' % (hbase, hoff + k)))
            if p_:
                slots[p_] = k
    startpos = (0x705 >> 8) % ln if isinstance(ln, int) and ln else None
    okthrow = ln == 6 and set(slots) == {10, 11, 12} and ((slots[10] - startpos) % ln) < ((slots[12] - startpos) % ln)
    # every record must be met by a reader that probes forward from its start slot and stops at the first empty slot
    unreachable = []
    if okthrow:
        occupied = set(slots.values())
        for h_, p_ in recs[:3]:
            k = (h_ >> 8) % ln
            steps = 0
            while k in occupied and k != slots[p_] and steps < ln:
                k = (k + 1) % ln
                steps += 1
            if k != slots[p_]:
                unreachable.append(p_)
        okthrow = not unreachable
    out['throw:same-hash-records-get-probe-positions-in-source-order'] = (okthrow, 'cdbmake_add.c:cdbmake_throw',
        'bucket of 3 records -> table length %s, slots by record %s, probing for hash 0x705 starts at %s: the first source line must be met first, and every record must be reachable by probing forward without crossing an empty slot (unreachable: %s)' % (ln, slots, startpos, unreachable), [])
    return out



def hash_agreement_sites(db, rep):
    """the reader's hash of a key equals the hash the writer stored, for keys with bytes >= 0x80 as well"""
    from rules.libtab import Conc, one
    progr = db.program('qmail-lspawn')
    progw = db.program('qmail-newu')
    rd = db.fn('cdb_hash.c', 'cdb_hash')
    wr = db.fn('cdbmake_hash.c', 'cdbmake_hashadd')
    start = db.unit('cdbmake_hash.c').macro_int('CDBMAKE_HASHSTART')
    if start is None:
        for u_ in ('cdbmss.c', 'cdbmake_add.c', 'qmail-newu.c'):
            start = start if start is not None else db.unit(u_).macro_int('CDBMAKE_HASHSTART')
    if start is None:
        start = 5381
    bad = []
    hr_empty = None
    refbad = []
    for key in ([106, 111, 115, 0xE9], [0xFC], [65, 0x80, 0xFF, 97], [97, 98, 99], [], [0], [1], [65], [127], [128], [255], [255, 255]):
        H = Conc('cdb_hash')
        e = Engine(db, progr, H)
        fid = e.frame_id(rd)
        st = {'%s::%s' % (fid, rd.params[0]): fs(('&', 'K[0]')), '%s::%s' % (fid, rd.params[1]): fs(len(key))}
        for i, b in enumerate(key):
            st['K[%d]' % i] = fs(b)
        e.run(rd, st)
        rep.count_states(e.states, e.transitions)
        if len(H.ends) != 1:
            raise AnalysisBroken('cdb_hash: %d ends' % len(H.ends))
        hr = one(H.ends[0][1])
        hw = start
        for b in key:
            H2 = Conc('cdbmake_hashadd')
            e2 = Engine(db, progw, H2)
            fid2 = e2.frame_id(wr)
            # the writer is handed the byte as it reads it from the source line: a plain char
            e2.run(wr, {'%s::%s' % (fid2, wr.params[0]): fs(hw), '%s::%s' % (fid2, wr.params[1]): fs(b - 256 if b >= 128 else b)})
            rep.count_states(e2.states, e2.transitions)
            if len(H2.ends) != 1:
                raise AnalysisBroken('cdbmake_hashadd: %d ends' % len(H2.ends))
            hw = one(H2.ends[0][1])
        if hr is None or hw is None or (hr & 0xffffffff) != (hw & 0xffffffff):
            bad.append((bytes(key), hex(hr & 0xffffffff) if hr is not None else None, hex(hw & 0xffffffff) if hw is not None else None))
        if not key:
            hr_empty = hr
        if hr is None or (hr & 0xffffffff) != _cdbhash(key):
            refbad.append((bytes(key), hex(hr & 0xffffffff) if hr is not None else None, hex(_cdbhash(key))))
    out_ = {'reader-and-writer-hash-agree(8-bit-keys-too)': (not bad, 'cdb_hash.c/cdbmake_hash.c', '(key, reader hash, writer hash): %s; an entry whose key hashes differently on the two sides is never found: the address silently falls through to a wildcard, the catch-all or qmail-getpw' % bad[:3], [])}
    out_['hash-step-agrees'] = (not refbad, 'cdb_hash.c/cdbmake_hash.c', 'the reader\'s hash against the cdb hash function h = (h * 33) ^ byte from 5381 (key, reader, reference): %s' % refbad[:3], [])
    out_['hash-start-agrees'] = (hr_empty is not None and (hr_empty & 0xffffffff) == start == 5381, 'cdb_hash.c/cdbmake.h', 'reader hash of the empty key %s, writer start value %s, cdb start value 5381' % (hr_empty, start), [])
    return out_



def _cdbhash(key):
    h = 5381
    for c in key:
        h = ((h + (h << 5)) & 0xffffffff) ^ c
    return h


def _cdb_image(entries):
    """a cdb file as bytes: entries = [(key bytes, data bytes)] in source order (the documented format, built here)"""
    import struct
    recs = b''
    pos = 2048
    tabs = {}
    for k, d in entries:
        tabs.setdefault(_cdbhash(k) & 255, []).append((_cdbhash(k), pos))
        recs += struct.pack('<II', len(k), len(d)) + k + d
        pos += 8 + len(k) + len(d)
    header = [(0, 0)] * 256
    tables = b''
    for t in range(256):
        ents = tabs.get(t, [])
        ln = 2 * len(ents)
        header[t] = (pos, ln)
        slots = [(0, 0)] * ln
        for h, p_ in ents:
            w = (h >> 8) % ln
            while slots[w][1]:
                w = (w + 1) % ln
            slots[w] = (h, p_)
        for h, p_ in slots:
            tables += struct.pack('<II', h, p_)
        pos += 8 * ln
    return b''.join(struct.pack('<II', a, b) for a, b in header) + recs + tables


def cdb_seek_sites(db, rep):
    """cdb_seek over a small database that contains two different keys with the same hash and length (and a duplicate
    key): every key of the source table is found, with the data of its first occurrence; absent keys are not"""
    import itertools
    from rules.libtab import Conc, one
    prog = db.program('qmail-lspawn')
    fn = db.fn('cdb_seek.c', 'cdb_seek')
    # two different keys of equal length with the same 32-bit hash (searched, not assumed)
    pair = None
    for a_, b_ in ((b'teamab6', b'teamadp'), (b'mlaa2-', b'mlacp-')):
        if a_ != b_ and len(a_) == len(b_) and _cdbhash(a_) == _cdbhash(b_):
            pair = (a_, b_)
            break
    if pair is None:
        seen = {}
        alpha = list(range(48, 58)) + list(range(97, 123))
        for t in itertools.product(alpha, repeat=4):
            hh = _cdbhash(bytes(t))
            if hh in seen:
                pair = (seen[hh], bytes(t))
                break
            seen[hh] = bytes(t)
    if pair is None:
        raise AnalysisBroken('no colliding key pair found')
    k1, k2 = pair
    entries = [(k1, b'first'), (k2, b'second-one'), (b'solo', b'x'), (k1, b'DUPLICATE')]
    img = _cdb_image(entries)

    class SH(Conc):
        def prim_lseek(self, E, x, args):
            p_ = one(args[1])
            return [Outcome(ret=fs(p_ if isinstance(p_, int) else 0), sets={'$pos': fs(p_)})]

        def prim_read(self, E, x, args):
            from qv.esp import ptr_add
            bp, n = one(args[1]), one(args[2])
            pos = one(E.get('$pos'))
            if not (isinstance(pos, int) and isinstance(n, int) and isinstance(bp, tuple)):
                return [Outcome(ret=fs(-1))]
            chunk = img[pos:pos + n]
            sets = {'$pos': fs(pos + len(chunk))}
            for i, b in enumerate(chunk):
                q = ptr_add(bp, i)
                if q is None:
                    return [Outcome(ret=fs(-1))]
                sets[q[1]] = fs(b)
            return [Outcome(ret=fs(len(chunk)), sets=sets)]
    bad = []
    for key, want, wantlen in ((k1, 1, 5), (k2, 1, 10), (b'solo', 1, 1), (b'none', 0, None), (b'sol', 0, None)):
        H = SH('cdb_seek')
        e = Engine(db, prog, H, max_states=400000)
        fid = e.frame_id(fn)
        st = {'%s::%s' % (fid, fn.params[0]): fs(5), '%s::%s' % (fid, fn.params[1]): fs(('&', 'KEY[0]')), '%s::%s' % (fid, fn.params[2]): fs(len(key)),
              '%s::%s' % (fid, fn.params[3]): fs(('&', 'DLEN'))}
        for i, b in enumerate(key):
            st['KEY[%d]' % i] = fs(b)
        e.run(fn, st)
        rep.count_states(e.states, e.transitions)
        if len(H.ends) != 1:
            raise AnalysisBroken('cdb_seek: %d ends for key %r' % (len(H.ends), key))
        end, val, tr = H.ends[0]
        got, dl = one(val), one(end.get('DLEN'))
        if got != want or (want == 1 and dl != wantlen):
            bad.append((key, got, dl, want, wantlen))
    return {'cdb_seek:every-source-key-is-found(first-duplicate,colliding-hashes)': (not bad, 'cdb_seek.c:cdb_seek',
            'database with the keys %s (the first two have the same hash and length; the first is listed twice): (key, result, data length, documented result, documented length): %s' % ([k for k, _ in entries], bad[:3]), [])}



class UserextHooks(_lt.SAConc, _lt.Conc):
    """qmail-getpw userext() over a concrete local part and a scripted password database"""
    def __init__(self, users, homes, errs):
        _lt.Conc.__init__(self, 'userext')
        self.users, self.homes, self.errs = users, homes, errs     # name -> uid; dir -> owner uid or ('err', errno); name -> errno set by getpwnam
        self.lookups = []
        self.exits = []
        self.over = None

    def prim_getpwnam(self, E, x, args):
        name = self.cstring(E, _lt._one(args[0]))
        self.lookups.append(name)
        if name in self.errs:
            return [Outcome(ret=fs(0), sets={'$errno': fs(self.errs[name])})]
        if name in self.users:
            k = sorted(self.users).index(name)
            sets = {'PW%d.pw_uid' % k: fs(self.users[name]), 'PW%d.pw_dir' % k: fs(('&', 'DIR%d[0]' % k))}
            sets.update(_lt.conc_string_cells('DIR%d' % k, b'/home/' + name))
            return [Outcome(ret=fs(('&', 'PW%d' % k)), sets=sets)]
        return [Outcome(ret=fs(0))]

    def prim_stat(self, E, x, args):
        d = self.cstring(E, _lt._one(args[0]))
        who = self.homes.get(d)
        st = _lt._one(args[1])
        if isinstance(who, int) and isinstance(st, tuple):
            return [Outcome(ret=fs(0), sets={st[1] + '.st_uid': fs(who)})]
        return [Outcome(ret=fs(-1), sets={'$errno': fs(who[1] if isinstance(who, tuple) else 2)})]

    def prim_error_temp(self, E, x, args):
        v = _lt._one(args[0])
        return [Outcome(ret=fs(0 if v in (2, 20, 13, 1) else 1))]       # ENOENT, ENOTDIR, EACCES, EPERM are permanent

    def prim__exit(self, E, x, args):
        self.exits.append(_lt._one(args[0]))
        return 'noreturn'

    def on_assign(self, E, x, path, val):
        import re as _re
        m_ = _re.match(r'^userext(?:@\w+)?::L:\w+(?:#\d+)?\[(-?\d+)\]$', path or '')
        if m_ and not (0 <= int(m_.group(1)) < self.size) and self.over is None:
            self.over = int(m_.group(1))


def userext_sites(db, rep, qlx):
    prog = db.program('qmail-getpw')
    ue = prog.fn('userext', 'qmail-getpw.c')
    size = db.unit('qmail-getpw.c').macro_int('GETPW_USERLEN')
    txtbsy = 26
    bad = None
    n = 0
    long_ = b'u' * 40
    cases = [
        # (local part, users, homes, getpwnam errors) -> (result, names looked up, extension offset / exit code)
        (b'Alice-Ext', {b'alice': 7}, {b'/home/alice': 7}, {}, (1, [b'alice-ext', b'alice'], 6)),
        (b'alice-ext', {b'alice-ext': 7, b'alice': 8}, {b'/home/alice-ext': 7, b'/home/alice': 8}, {}, (1, [b'alice-ext'], 9)),
        (b'alice-a-b', {b'alice': 7}, {b'/home/alice': 7}, {}, (1, [b'alice-a-b', b'alice-a', b'alice'], 6)),
        (b'alice', {}, {}, {}, (0, [b'alice', b''], None)),
        (b'root-x', {b'root': 0}, {b'/home/root': 0}, {}, (0, [b'root-x', b'root', b''], None)),
        (b'bob', {b'bob': 9}, {b'/home/bob': 10}, {}, (0, [b'bob', b''], None)),
        (b'bob', {b'bob': 9}, {}, {}, (0, [b'bob', b''], None)),
        (b'bob', {b'bob': 9}, {b'/home/bob': ('err', 5)}, {}, ('exit', [b'bob'], qlx['QLX_NFS'])),
        (b'bob', {}, {}, {b'bob': txtbsy}, ('exit', [b'bob'], qlx['QLX_SYS'])),
        (long_, {}, {}, {}, (0, [b''], None)),
        (b'u' * (size - 1), {b'u' * (size - 1): 5}, {b'/home/' + b'u' * (size - 1): 5}, {}, (1, [b'u' * (size - 1)], size - 1)),
        (b'u' * size, {}, {}, {}, (0, [b''], None)),
        (b'u' * (size + 3) + b'-x', {}, {}, {}, (0, [b''], None)),
        (b'ab-' + b'u' * size, {b'ab': 5}, {b'/home/ab': 5}, {}, (1, [b'ab'], 3)),
    ]
    for local, users, homes, errs, want in cases:
        # reference: candidate names are the prefixes that end at the end or before a break character and fit the buffer, longest first, in lower case
        names, res = [], (0, None)
        for pos in range(len(local), -1, -1):
            if pos < size and local[pos:pos + 1] in (b'', b'-'):
                nm = local[:pos].lower()
                names.append(nm)
                if nm in errs:
                    res = ('exit', qlx['QLX_SYS'])
                    break
                if users.get(nm):
                    who = homes.get(b'/home/' + nm)
                    if isinstance(who, tuple):
                        res = ('exit', qlx['QLX_NFS'])
                        break
                    if who == users[nm]:
                        res = (1, pos + (1 if pos < len(local) else 0))
                        break
        if (res[0], res[1]) != (want[0], want[2]):
            raise AnalysisBroken('userext reference table is inconsistent for %r' % local)
        want = (res[0], names, res[1])
        H = UserextHooks(users, homes, errs)
        H.size = size
        st = {'G:local': fs(('&', 'LOC[0]')), 'G:auto_break[0]': fs(ord('-')), 'G:auto_break[1]': fs(0), 'G:auto_break': fs(('&', 'G:auto_break[0]')), 'G:error_txtbsy': fs(txtbsy)}
        st.update(_lt.conc_string_cells('LOC', local))
        _lt._run_conc(db, rep, prog, ue, st, 'userext', H)
        n += 1
        if H.ends:
            store, val, tr = H.ends[0]
            ext = _lt._one(store.get('G:extension'))
            got = (_lt.one(val), H.lookups, int(ext[1][4:-1]) if _lt.one(val) == 1 and isinstance(ext, tuple) and ext[1].startswith('LOC[') else None)
        else:
            got = ('exit', H.lookups, H.exits[0] if H.exits else None)
        if (len(H.ends) + len(H.exits) != 1 or got != want or H.over is not None) and bad is None:
            bad = 'local part %r with users %s and home owners %s%s: result %s after looking up %s%s; documented: %s after looking up %s (longest name first, in lower case; accepted only for an existing non-root user who owns an existing home; temporary errors defer)' % (
                local[:44], {k.decode(): v for k, v in users.items()}, {k.decode(): v for k, v in homes.items()}, ' (getpwnam errno %s)' % errs if errs else '', got[0::2], [l_[:12] if l_ is not None else None for l_ in got[1]],
                ' and a store to username[%d]' % H.over if H.over is not None else '', want[0::2], [l_[:12] for l_ in want[1]])
    return {'userext:accepts-only-existing-nonroot-owner-of-home,longest-name-first,name-inside-its-buffer': (bad is None, 'qmail-getpw.c:userext', bad or '%d scripted password databases' % n, [])}


class SpawnRecordHooks(_lt.SAConc, _lt.Conc):
    """qmail-lspawn spawn(): the forked child on a concrete lookup result (the record nughde_get() leaves behind)"""
    def __init__(self, record):
        _lt.Conc.__init__(self, 'spawn')
        self.record = record
        self.over = None
        self.exits, self.execs = [], []
        self.gid = self.uid = None
        self.order = []

    def prim_fork(self, E, x, args):
        return [Outcome(ret=fs(0))]

    def prim_nughde_get(self, E, x, args):
        sets = {self.NU + '.s': fs(('&', 'NU[0]')), self.NU + '.len': fs(len(self.record)), '$local': args[0] if args else TOP}
        sets.update(_lt.conc_string_cells('NU', self.record, terminate=False))
        return [Outcome(ret=TOP, sets=sets)]

    def materialize(self, E, path):
        if path.startswith('NU['):
            k = int(path[3:-1])
            if self.over is None:
                self.over = (k, E.trace.list())
            return fs(0)
        return _lt.Conc.materialize(self, E, path)

    def materialize_split(self, E, path):
        return None

    def _zero(self, E, x, args):
        return [Outcome(ret=fs(0))]

    prim_chdir = prim_fd_move = prim_fd_copy = prim_close = prim_dup2 = prim_setgroups = _zero

    def prim_fcntl(self, E, x, args):
        return [Outcome(ret=fs(0))]

    def _gid(self, E, x, args):
        v = _lt._one(args[-1] if x.callee == 'prot_gids' else args[0])
        self.gid = v & 0xffffffff if isinstance(v, int) else v
        self.order.append('gid')
        return [Outcome(ret=fs(0))]

    prim_prot_gid = prim_prot_gids = prim_setgid = _gid

    def prim_prot_uid(self, E, x, args):
        v = _lt._one(args[0])
        self.uid = v & 0xffffffff if isinstance(v, int) else v
        self.order.append('uid')
        return [Outcome(ret=fs(0), sets={'$uidnow': fs(self.uid)})]

    prim_setuid = prim_prot_uid

    def prim_getuid(self, E, x, args):
        u = _lt._one(E.get('$uidnow'))
        return [Outcome(ret=fs(u if isinstance(u, int) else 0))]

    prim_geteuid = prim_getuid

    def prim_execv(self, E, x, args):
        from qv.esp import ptr_add
        av = _lt._one(args[1])
        out = []
        for k in range(14):
            q = ptr_add(av, k) if isinstance(av, tuple) else None
            v = _lt._one(E.get(q[1])) if q is not None else None
            if v == 0 or v is None:
                out.append(v)
                break
            out.append(v)
        self.execs.append((out, self.uid, self.gid, list(self.order), dict(E.store)))
        return 'noreturn'

    prim_execvp = prim_execve = prim_execv

    def prim__exit(self, E, x, args):
        self.exits.append(_lt._one(args[0]))
        return 'noreturn'


def spawn_record_sites(db, rep, qlx):
    """spawn() in the child, after the lookup: six NUL-terminated fields user uid gid home dash ext (+ the NUL nughde_get() appends).
    A complete record starts qmail-local with exactly those fields; a record with fewer fields (a corrupt users/cdb) ends in
    QLX_USAGE (scan_ulong() may look at the first slack byte behind a truncated record - inside the allocation, stralloc keeps
    slack - which cannot change the verdict because every field search is bounded by the remaining length); a uid that is 0 - or becomes 0 in uid_t - is refused."""
    pl = db.program('qmail-lspawn')
    sp = pl.fn('spawn', 'qmail-lspawn.c')
    fields = [b'alice', b'1001', b'1002', b'/home/alice', b'-', b'ext']
    S, R, at = b'sender@s.example', b'alice-ext@h.example', 9

    def rec(fl):
        return b'\0'.join(fl) + b'\0'
    cases = [('complete', rec(fields), 'exec', fields)]
    cases.append(('complete, empty dash and extension', rec([b'bob', b'7', b'8', b'/b', b'', b'']), 'exec', [b'bob', b'7', b'8', b'/b', b'', b'']))
    cases.append(('a seventh field', rec(fields + [b'junk']), 'exec', fields))
    for k in range(0, 6):
        cases.append(('only %d field(s)' % k, rec(fields[:k]) if k else b'\0', 'usage', None))
    cases.append(('empty record', b'', 'usage', None))
    for uidtxt, why in ((b'0', 'uid 0'), (b'4294967296', 'a uid that is 0 after conversion to uid_t'), (b'root', 'a uid field without digits')):
        f2 = list(fields)
        f2[1] = uidtxt
        cases.append((why, rec(f2), 'root', None))
    bad = {}
    n = 0
    for what, record, want, fl in cases:
        H = SpawnRecordHooks(record)
        H.NU = lookup_object(sp)
        st = {0: fs(('fd', 'mess')), 1: fs(('fd', 'out')), 2: fs(('&', 'S[0]')), 3: fs(('&', 'R[0]')), 4: fs(at)}
        st.update(_lt.conc_string_cells('S', S))
        st.update(_lt.conc_string_cells('R', R))
        st['G:aliasempty'] = fs(('&', 'AE[0]'))
        st.update(_lt.conc_string_cells('AE', b'./Mailbox'))
        _lt._run_conc(db, rep, pl, sp, st, 'spawn', H)
        n += 1
        if len(H.execs) + len(H.exits) != 1:
            raise AnalysisBroken('qmail-lspawn spawn on a concrete record (%s): %d execs, exits %s' % (what, len(H.execs), H.exits))
        if H.over is not None and want == 'exec':
            bad.setdefault('lspawn-record:no-read-at-or-behind-the-end-of-the-lookup-result', ('record %r (%s, %d bytes): byte %d is read' % (record, what, len(record), H.over[0]), H.over[1]))
        if want == 'usage':
            if H.execs or H.exits != [qlx['QLX_USAGE']]:
                bad.setdefault('lspawn-record:incomplete-record-ends-in-QLX_USAGE', ('record %r (%s): %s; documented: exit %d (internal error, the delivery is deferred)' % (
                    record, what, 'qmail-local is started' if H.execs else 'exit %s' % H.exits, qlx['QLX_USAGE']), []))
            continue
        if want == 'root':
            if H.execs or H.exits != [qlx['QLX_ROOT']]:
                bad.setdefault('lspawn-record:uid-0-is-refused-whatever-its-spelling', ('record %r (%s): %s; documented: exit %d (never deliver as root)' % (
                    record, what, 'qmail-local is started with uid %s' % H.execs[0][1] if H.execs else 'exit %s' % H.exits, qlx['QLX_ROOT']), []))
            continue
        if not H.execs:
            bad.setdefault('lspawn-record:qmail-local-gets-user-home-local-dash-ext-host-sender', ('record %r (%s): exit %s instead of starting qmail-local' % (record, what, H.exits), []))
            continue
        av, uid, gid, order, store = H.execs[0]

        def text(v):
            if isinstance(v, tuple) and v[0] == 'str':
                return bytes((ord(c) & 255) for c in v[1])
            if isinstance(v, tuple) and v[0] == '&':
                out = []
                m = re.match(r'^(.*)\[(-?\d+)\]$', v[1])
                if not m:
                    return None
                for k in range(300):
                    b = _lt._one(store.get('%s[%d]' % (m.group(1), int(m.group(2)) + k)))
                    if not isinstance(b, int):
                        return None
                    if b == 0:
                        return bytes(out)
                    out.append(b & 255)
            return None
        got = [text(v) if v != 0 else 0 for v in av]
        wantav = [b'bin/qmail-local', b'--', fl[0], fl[3], R[:at], fl[4], fl[5], R[at + 1:], S, '*', 0]
        okav = len(got) == len(wantav) and all(w == '*' or g == w for g, w in zip(got, wantav))
        if not okav or uid != int(fl[1]) or gid != int(fl[2]) or order != ['gid', 'uid']:
            bad.setdefault('lspawn-record:qmail-local-gets-user-home-local-dash-ext-host-sender', (
                'record %r (%s), recipient %r: qmail-local is started with the arguments %s as uid %s gid %s (switched in the order %s); documented: -- user home local dash ext domain sender defaultdelivery = %s as uid %s gid %s, groups/gid before uid' % (
                    record, what, R, got, uid, gid, order, wantav[:-2], int(fl[1]), int(fl[2])), []))
    out = {}
    for k in ('lspawn-record:qmail-local-gets-user-home-local-dash-ext-host-sender', 'lspawn-record:incomplete-record-ends-in-QLX_USAGE',
              'lspawn-record:uid-0-is-refused-whatever-its-spelling', 'lspawn-record:no-read-at-or-behind-the-end-of-the-lookup-result'):
        out[k] = (k not in bad, 'qmail-lspawn.c:spawn', bad[k][0] if k in bad else '%d concrete lookup results' % n, bad[k][1] if k in bad else [])
    return out


def run(ctx):
    db, rep = ctx.db, ctx.report
    pl = db.program('qmail-lspawn')
    # ---------------------------------------------------------------- 1. privilege typestate
    r1 = rep.rule('C11.1-privilege-typestate', 'R-TYPESTATE', 'in every forked child: prot_gid (setgroups+setgid) ok, then prot_uid ok, then getuid() != 0 (qmail-lspawn), then exec; uid/gid come from fields 1 and 2 of the lookup result')
    sp = pl.fn('spawn', 'qmail-lspawn.c')
    H = PrivHooks('qmail-lspawn.c', True, want_gid=('field', 2), want_uid=('field', 1))
    H.NU = lookup_object(sp)
    eng = Engine(db, pl, H)
    eng.run(sp, {})
    rep.count_states(eng.states, eng.transitions)
    if H.execs < 1 and all(v[0] for v in H.sites.values()):
        raise AnalysisBroken('qmail-lspawn spawn: execv not explored')
    for inst, v in sorted(H.sites.items()):
        r1.check(v[0], 'lspawn:' + inst, v[1], v[2], v[3])
    ng = pl.fn('nughde_get', 'qmail-lspawn.c')
    H2 = PrivHooks('qmail-lspawn.c', False, want_gid='auto_gidn', want_uid='auto_uidp')

    class H2c(PrivHooks):
        pass
    # the getpw child: explore nughde_get with generic primitives
    H2.generic_results = True
    eng2 = Engine(db, pl, H2)
    eng2.run(ng, {})
    rep.count_states(eng2.states, eng2.transitions)
    if H2.execs < 1 and all(v[0] for v in H2.sites.values()):
        raise AnalysisBroken('nughde_get: execv of qmail-getpw not explored')
    for inst, v in sorted(H2.sites.items()):
        r1.check(v[0], 'getpw-child:' + inst, v[1], v[2], v[3])
    # prot.c
    pg = db.fn('prot.c', 'prot_gid')
    sg, sgid = pg.calls('setgroups'), pg.calls('setgid')
    from qv.lib import _cmp_parts, branch_zero_test

    def call_ok_guard(fn, x, callee):
        """x is reached only when `callee`'s result is not -1"""
        for c, t in fn.guards(x) or []:
            p = _cmp_parts(c)
            if p is not None and p[0].strip().k == 'call' and p[0].strip().callee == callee and p[1](-1) != t and p[1](0) == t:
                return True
        return False
    ok = bool(sg and sgid) and pg.dominates(sg[0], sgid[0]) and sg[0].args[0].const == 1 and call_ok_guard(pg, sgid[0], 'setgroups')
    r1.check(ok, 'prot_gid:setgroups(1,&gid)-ok-then-setgid', 'prot.c:prot_gid', 'supplementary groups must be replaced by the single gid before setgid, with the result checked')
    rets = [x for x in pg.all_x() if x.k == 'ret']
    r1.check(any(x.args and x.args[0].strip().k == 'call' and x.args[0].strip().callee == 'setgid' for x in rets), 'prot_gid:returns-setgid-result', 'prot.c:prot_gid', '')
    m = db.unit('qmail-lspawn.c').macros.get('prot_uid')
    has_fn = 'prot_uid' in db.unit('prot.c').functions
    okpu = (m is not None and 'setuid' in m.get('body', '')) or (has_fn and bool(db.fn('prot.c', 'prot_uid').calls('setuid')))
    r1.check(okpu, 'prot_uid-is-setuid', 'prot.h/prot.c', 'prot_uid must switch the uid with setuid()')
    # qmail-start: every exec is preceded by a uid drop, and a gid drop wherever one is made it comes first
    qs = db.fn('qmail-start.c', 'main')
    H3 = PrivHooks('qmail-start.c', False)
    H3.need_gid = lambda E, x: False
    eng3 = Engine(db, db.program('qmail-start'), H3)
    eng3.run(qs, {})
    rep.count_states(eng3.states, eng3.transitions)
    for inst, v in sorted(H3.sites.items()):
        if inst in ('groups-dropped-before-uid',):
            r1.check(v[0], 'qmail-start:' + inst, v[1], v[2], v[3])
    r1.expect_min(12)

    # ---------------------------------------------------------------- 2. errors defer
    r2 = rep.rule('C11.2-errors-defer', 'R-TABLE', 'qmail-lspawn report(): K only for exit 0; D only for 100, QLX_EXECHARD and unlisted codes; every other QLX_*, 111, 71, 74, 75 and a crash give Z (all 256 statuses x crashed)')
    # the status macros every verdict on a child process goes through (wait.h): as functions of the status word
    from rules import libtab as _lt
    for inst_, v_ in sorted(_lt.waitmacro_sites(db, 'qmail-lspawn.c').items()):
        r2.check(v_[0], inst_, v_[1], v_[2], v_[3])
    u = db.unit('qmail-lspawn.c')
    qlx = {k: u.macro_int(k) for k in u.macros if k.startswith('QLX_')}
    if len(qlx) < 10:
        raise AnalysisBroken('QLX_* macros not found')
    r7 = rep.rule('C11.7-lookup-result-fields', 'R-TABLE', 'qmail-lspawn spawn() in the child, explored on concrete lookup results: a complete record (user uid gid home dash ext) starts qmail-local with exactly those fields, the recipient split at the @, the sender, and the record\'s uid/gid (groups and gid first); a record with fewer fields ends in QLX_USAGE whatever lies behind it; parsing a complete record reads nothing at or behind its end; a uid that is 0, is spelled without digits or becomes 0 in uid_t is refused with QLX_ROOT')
    for inst_, v_ in sorted(spawn_record_sites(db, rep, qlx).items()):
        r7.check(v_[0], inst_, v_[1], v_[2], v_[3])
    rp = pl.fn('report', 'qmail-lspawn.c')

    class RepHooks(QHooks):
        def __init__(self):
            self.table = {}

        def _first(self, E, x, lit):
            if lit and not g1(E, '$out'):
                E.set('$out', fs(lit[0]))

        def prim_substdio_puts(self, E, x, args):
            self._first(E, x, x.args[1].string)
            return [Outcome(ret=TOP)]

        def prim_substdio_put(self, E, x, args):
            self._first(E, x, x.args[1].string)
            return [Outcome(ret=TOP)]

        def on_return(self, E, fn, val):
            self.table[g1(E, '$w')] = g1(E, '$out')
    RH = RepHooks()
    for w in [1, 9, 11, 139] + [e << 8 for e in range(256)]:
        e = Engine(db, pl, RH)
        e.run(rp, {'report::P:wstat': fs(w), 'report::P:len': fs(0), '$w': fs(w)})
        rep.count_states(e.states, e.transitions)
    zcodes = {v for k, v in qlx.items() if k not in ('QLX_EXECHARD', 'QLX_BUG')} | {111, 71, 74, 75}
    bad = []
    for w, letter in sorted(RH.table.items()):
        crashed = (w & 127) != 0
        code = w >> 8
        if crashed:
            want = {'Z'}
        elif code == 0:
            want = {'K'}
        elif code in zcodes:
            want = {'Z'}
        elif code in (100, qlx.get('QLX_EXECHARD')):
            want = {'D'}
        else:
            want = {'D', 'Z'}      # undocumented statuses: anything but success
        if letter not in want:
            bad.append((('signal %d' % (w & 127)) if crashed else 'exit %d' % code, letter, sorted(want)))
    r2.check(not bad, 'report-table', rp.unit + ':report', 'status -> letter deviations: %s' % bad[:6])
    r2.check(len(RH.table) == 260, 'report-table-complete', rp.unit + ':report', '%d cells extracted' % len(RH.table))
    rep.exhaustive_rules.append('C11.2-errors-defer')
    rep.sample({'lspawn report(): letters by status': {L: sorted(({(w >> 8) if not (w & 127) else 'sig%d' % (w & 127) for w, l in RH.table.items() if l == L}), key=str)[:30] for L in ('K', 'Z', 'D')}})

    # ---------------------------------------------------------------- 3. lookup order
    r3 = rep.rule('C11.3-lookup-order', 'R-TABLE', 'nughde_get (key "!ab\\0"): exact key first, then shrinking prefixes probed iff they end in a break character (or are the empty prefix), never after a cdb error; remainder offset = key length - prefix literal length')
    LH = LookupHooks(None)
    LH.KEY, LH.WILD, LH.NU = lookup_roles(ng, sp)
    eng4 = Engine(db, pl, LH, max_states=200000)
    eng4.run(ng, {'%s::%s' % (eng4.frame_id(ng), ng.params[0]): fs(('&', 'LOCAL[0]'))})
    rep.count_states(eng4.states, eng4.transitions)
    for inst, v in sorted(LH.sites.items()):
        r3.check(v[0], inst, v[1], v[2], v[3])
    K = LookupHooks.KEYLEN
    probes = LH.probes
    r3.check((K, 0, None) in probes and not any(i == K and w == 1 for i, w, m in probes), 'first-probe-is-the-full-key-including-NUL', ng.unit + ':nughde_get', 'probes seen: %s' % sorted(probes, key=str))
    r3.check(all(w == 1 for i, w, m in probes if i is not None and i < K), 'shorter-keys-are-wildcard-probes', ng.unit + ':nughde_get', 'probes seen: %s' % sorted(probes, key=str))
    r3.check(any(i == 1 for i, w, m in probes) and not any(i == 0 for i, w, m in probes), 'empty-prefix-probed-last,never-a-0-byte-key', ng.unit + ':nughde_get', 'probes seen: %s' % sorted(probes, key=str))
    mids = [(i, m) for i, w, m in probes if i is not None and 1 < i < K]
    r3.check(bool(mids) and all(m is True for i, m in mids) and {i for i, m in mids} == set(range(2, K)), 'intermediate-prefixes-probed-iff-they-end-in-a-break-character', ng.unit + ':nughde_get', 'intermediate probes (length, member): %s' % sorted(mids))
    r3.expect_min(9)

    # ---------------------------------------------------------------- 4. writer/reader agreement
    r4 = rep.rule('C11.4-writer-reader-agreement', 'R-SIBLING', 'cdb hash step and start value, pack/unpack byte order, key format ("!" prefix, lower-casing, NUL for exact keys) and the case of recorded break characters agree between qmail-newu/cdbmake and qmail-lspawn/cdb_seek')
    # writer and reader lower-case keys with the same routine: its table
    from rules import libtab as _lt
    for inst_, v_ in sorted(_lt.case_lowerb_sites(db, rep, db.program('qmail-lspawn')).items()):
        r4.check(v_[0], inst_, v_[1], v_[2], v_[3])

    def hash_steps(fn, hvar):
        steps = []
        for x in fn.all_x():
            if x.k == 'asg' and x.op != '=' and x.args[0].var == hvar:
                def has_h(s):
                    if not isinstance(s, tuple):
                        return False
                    if s[0] == 'v':
                        return s[1] == hvar
                    return any(has_h(t) for t in s[1:])

                def norm(s):
                    if s is None:
                        return None
                    if not has_h(s) and s[0] != 'c':
                        return 'BYTE'
                    if s[0] == 'v':
                        return 'H' if s[1] == hvar else 'BYTE'
                    if s[0] == 'c':
                        return s
                    if s[0] in ('bin', 'un'):
                        return (s[0], s[1]) + tuple(norm(t) for t in s[2:])
                    if s[0] == 'cast':
                        return norm(s[3])
                    return 'BYTE'
                steps.append((x.op, norm(x.args[1].sx())))
        return steps
    # hash step and start value: decided by value in hash_agreement_sites (reader against writer and against the cdb hash function)

    # byte order: evaluate unpack on bytes 1,2,3,4 and pack on 0x04030201 with the abstract interpreter
    class BO(QHooks):
        tracked = frozenset(['BUF'])

        def precise_arith(self, path):
            return True

        def __init__(self):
            self.ret = None
            self.buf = None

        def on_return(self, E, fn, val):
            self.ret = val
            self.buf = [E.get('BUF[%d]' % k) for k in range(4)]
    bo = BO()
    un = db.fn('cdb_unpack.c', 'cdb_unpack')
    e = Engine(db, pl, bo)
    e.run(un, {'cdb_unpack::P:buf': fs(('&', 'BUF[0]')), 'BUF[0]': fs(1), 'BUF[1]': fs(2), 'BUF[2]': fs(3), 'BUF[3]': fs(4)})
    r4.check(bo.ret == fs(0x04030201), 'unpack-is-little-endian', 'cdb_unpack.c', 'cdb_unpack([1,2,3,4]) = %s' % (sorted(bo.ret) if bo.ret else bo.ret))
    pk = db.fn('cdbmake_pack.c', 'cdbmake_pack')
    bo2 = BO()
    e = Engine(db, db.program('qmail-newu'), bo2)
    e.keep_dead = True
    e.run(pk, {'cdbmake_pack::P:buf': fs(('&', 'BUF[0]')), 'cdbmake_pack::P:num': fs(0x04030201)})
    got = [sorted(v)[0] & 255 if v else None for v in (bo2.buf or [])]
    r4.check(got == [1, 2, 3, 4], 'pack-is-the-inverse-of-unpack', 'cdbmake_pack.c', 'cdbmake_pack(0x04030201) writes %s' % got)

    # key format
    nu = db.program('qmail-newu').fn('main', 'qmail-newu.c')
    wp = [c.args[1].string for c in nu.calls('stralloc_copys') if c.args[0].src() == '&key']
    def _tgt(c_):
        t_ = c_.args[0].strip() if c_.args and c_.args[0] is not None else None
        while t_ is not None and t_.k in ('un', 'cast') and t_.args:
            t_ = t_.args[0].strip()
        return t_.path() if t_ is not None else None
    rpfx = [c.args[1].string for c in ng.calls(('stralloc_copys', 'stralloc_copyb')) if _tgt(c) == LH.KEY]
    r4.check(bool(wp) and set(wp) == set(rpfx) and len(set(wp)) == 1, 'key-prefix-agrees', 'qmail-newu.c/qmail-lspawn.c', 'writer prefixes %s, reader prefixes %s' % (wp, rpfx))
    adds = [c for c in nu.calls('cdbmss_add') if c.args[1].src() == 'key.s']
    okl = bool(adds) and lowered_root(nu, adds[0], adds[0].args[1])
    r4.check(okl, 'writer-lower-cases-keys', nu.unit + ':main', 'keys are stored without lower-casing')
    # break characters: both sides must use lower-cased bytes
    apps = [c for c in nu.calls('stralloc_append') if c.args[0].src() == '&wildchars']
    tests = [c for c in nu.calls('byte_chr') if c.args[0].src() == 'wildchars.s']
    if not apps or not tests:
        raise AnalysisBroken('qmail-newu: break-character recording not found')
    for c in apps:
        r4.check(lowered_root(nu, c, c.args[1]), 'writer-records-break-characters-lower-cased', c.where,
                 'the break character is taken from %s, which is not lower-cased, while qmail-lspawn compares it with the lower-cased local part: an entry like +teamA: can never match' % c.args[1].src())
    for c in tests:
        r4.check(lowered_root(nu, c, c.args[2]), 'writer-deduplicates-break-characters-lower-cased', c.where, 'membership test on %s' % c.args[2].src())
    from qv.lib import deep_calls
    okr = False
    for f, c in deep_calls(pl, ng, ('byte_chr', 'memchr')):
        if (c.args[0].strip().path() or '') != LH.WILD + '.s':
            continue
        needle = c.args[2] if c.callee == 'byte_chr' else c.args[1]
        if f is ng:
            okr = lowered_root(ng, c, needle)
        else:
            # the byte is the helper's parameter: judge the expression nughde_get passes
            pv = needle.var
            idx = f.params.index(pv) if pv in f.params else None
            sites = ng.calls(f.name)
            okr = idx is not None and bool(sites) and all(lowered_root(ng, sc, sc.args[idx]) for sc in sites)
    r4.check(okr, 'reader-compares-lower-cased-bytes', ng.unit + ':nughde_get', 'the byte tested for membership in the break list must come from the lower-cased key')
    # the break list is stored under / read from the empty key
    wadd = [c for c in nu.calls('cdbmss_add') if c.args[1].string == '' and c.args[2].const == 0 and 'wildchars' in c.args[3].src()]
    rget = [c for c in ng.calls('cdb_seek') if c.args[1].string == '' and c.args[2].const == 0]
    r4.check(bool(wadd) and bool(rget), 'break-list-under-the-empty-key', 'qmail-newu.c/qmail-lspawn.c', '')
    _hs = hash_agreement_sites(db, rep)
    for inst in ('hash-step-agrees', 'hash-start-agrees'):
        v = _hs[inst]
        r4.check(v[0], inst, v[1], v[2], v[3])
    r4.expect_min(10)

    # ---------------------------------------------------------------- 5. qmail-getpw
    r5 = rep.rule('C11.5-getpw', 'R-GUARD', 'qmail-getpw userext: a user is accepted only if it exists, is not root, its home exists and is owned by it; longest name first; temporary errors defer; name buffer bounded')
    for inst_, v_ in sorted(userext_sites(db, rep, qlx).items()):
        r5.check(v_[0], inst_, v_[1], v_[2], v_[3])
    gm = db.fn('qmail-getpw.c', 'main')
    r5.check(any(x.k == 'ret' and x.args and x.args[0].const == qlx['QLX_NOALIAS'] for x in gm.all_x()) and
             any(c.args[0].path() == 'G:auto_usera' for c in gm.calls('getpwnam')), 'fallback-to-alias-or-QLX_NOALIAS', gm.unit + ':main', '')
    r5.expect_min(2)
    # ---------------------------------------------------------------- 6. first duplicate wins (orientation agreement)
    r6 = rep.rule('C11.6-duplicate-order', 'R-SIBLING', 'records reach each hash bucket oldest first: chunk-list order (cdbmake_add), within-chunk traversal and fill direction (cdbmake_split) agree; writer and reader probe forward, so the first source line is the one found')
    for inst, v in sorted(cdb_order_sites(db, rep).items()):
        r6.check(v[0], inst, v[1], v[2], v[3])
    for inst, v in sorted(_hs.items()):
        if inst not in ('hash-step-agrees', 'hash-start-agrees'):
            r6.check(v[0], inst, v[1], v[2], v[3])
    for inst, v in sorted(cdb_seek_sites(db, rep).items()):
        r6.check(v[0], inst, v[1], v[2], v[3])
    cs = db.fn('cdb_seek.c', 'cdb_seek')
    fwd_r = any(y.k == 'un' and y.op in ('pre++', 'post++') and (y.args[0].var or '')[:2] == 'L:' for y in cs.all_x()) or \
        any(y.k == 'asg' and y.op == '+=' and (y.args[0].var or '')[:2] == 'L:' for y in cs.all_x())
    wraps = any(y.k == 'asg' and y.op == '=' and y.args[1].const == 0 and (y.args[0].var or '')[:2] == 'L:' for y in cs.all_x())
    r6.check(fwd_r and wraps, 'reader-probes-forward-with-wrap-around', 'cdb_seek.c', 'cdb_seek must step to the next slot and wrap to slot 0 (the writer places later duplicates in later probe positions)')
    r6.expect_min(5)
    rep.assume('behaviour on corrupted cdb content beyond the error-exit rule behaviour on corrupted cdb content beyond the error-exit rule and getpwnam are not decided',
               'fixed geometry for the lookup order: the loop compares i only with 1 and tests one byte for membership')
