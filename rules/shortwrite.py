"""allwrite() conservation (shared by C01 rule 9 and C06 rule 3): with linear symbolic values, at
every call of the write operation the buffer argument is the start plus the bytes already
written and the length argument is the total minus the bytes already written — so a short write
is followed by exactly the unwritten remainder (three loop iterations unrolled symbolically)."""
from qv.core import AnalysisBroken
from qv.esp import Engine, Outcome, TOP, fs, is_lin, lin_sym, lin_add
from qv.lib import QHooks


def one(v):
    return next(iter(v)) if v is not TOP and v is not None and len(v) == 1 else None


class AWHooks(QHooks):
    generic_results = False

    def __init__(self):
        self.sites = {}
        self.calls = 0

    def precise_arith(self, path):
        return True

    def materialize(self, E, path):
        base = path.split('::')[-1]
        if base == 'P:buf':
            return fs(lin_sym('BUF'))
        if base == 'P:len':
            return fs(lin_sym('LEN'))
        return TOP

    def site(self, inst, x, ok, detail, E):
        prev = self.sites.get(inst)
        if prev is None or (prev[0] and not ok):
            self.sites[inst] = (ok, x.where, detail, E.trace.list() if not ok else [])
        if not ok:
            E.kill()

    def on_call(self, E, x, args):
        if x.callee is not None:
            if x.callee == '__errno_location':
                return [Outcome(ret=fs(('&', '$errno')))]
            return None
        # the indirect write operation op(fd, buf, len)
        self.calls += 1
        k = one(E.get('$k')) or 0
        done = one(E.get('$done'))
        if done is None:
            done = 0
        b, n = one(args[1]), one(args[2])
        want_b = lin_add(lin_sym('BUF'), done)
        want_n = lin_add(lin_sym('LEN'), done, -1)
        self.site('write-starts-at-the-first-unwritten-byte', x, b == want_b, 'after %s bytes were written the next write starts at %s (expected %s)' % (show(done), show(b), show(want_b)), E)
        self.site('write-length-is-the-unwritten-remainder', x, n == want_n,
                  'after %s bytes were written the next write is given length %s (expected %s): bytes beyond the data — stale buffer contents — would be sent' % (show(done), show(n), show(want_n)), E)
        if k >= 3:
            E.kill()
            return [Outcome(ret=TOP)]
        w = lin_sym('w%d' % k)
        from qv import esp
        esp.NONNEG.add('w%d' % k)
        return [Outcome(ret=fs(-1), sets={'$errno': fs(4)}, log='write interrupted (EINTR)'),
                Outcome(ret=fs(-1), sets={'$errno': fs(5)}, log='write fails'),
                Outcome(ret=fs(w), sets={'$k': fs(k + 1), '$done': fs(lin_add(done, w))}, log='short write of w%d bytes' % k)]

    def tracked_global(self, path):
        return path.startswith('$')


def show(v):
    from qv.bounds import show as s
    return s(v)


def allwrite_sites(db, rep):
    prog = db.program('qmail-queue')
    fn = db.fn('substdo.c', 'allwrite')
    H = AWHooks()
    eng = Engine(db, prog, H, max_states=50000)
    eng.run(fn, {})
    rep.count_states(eng.states, eng.transitions)
    if H.calls < 3 and all(v[0] for v in H.sites.values()):
        raise AnalysisBroken('allwrite: the write operation was reached %d times (< 3 iterations)' % H.calls)
    return H.sites


class WriteOpHooks(QHooks):
    """the write operation installed in an output substdio (op(fd, buf, len)): what it returns when the kernel accepts only part"""
    inline_names = frozenset(['timeoutwrite'])

    def __init__(self):
        self.returns = []
        self.writes = 0

    def tracked_global(self, path):
        return path.startswith('$')

    def precise_arith(self, path):
        return True

    def prim_select(self, E, x, args):
        return [Outcome(ret=fs(-1)), Outcome(ret=fs(0)), Outcome(ret=fs(1))]

    def prim___errno_location(self, E, x, args):
        return [Outcome(ret=fs(('&', '$errno')))]

    def prim_write(self, E, x, args):
        self.writes += 1
        n = one(args[2])
        return [Outcome(ret=fs(-1), sets={'$w': fs(-1)}), Outcome(ret=fs(7), sets={'$w': fs(7), '$asked': fs(n)}, log='write() accepts 7 of the bytes offered')]

    def prim_dropped(self, E, x, args):
        return 'noreturn'

    def prim__exit(self, E, x, args):
        return 'noreturn'

    def on_return(self, E, fn, val):
        if fn.name == self.entry:
            self.returns.append((one(E.get('$w')), one(val) if val is not None else None, one(E.get('$asked')), E.trace.list()))


def writeop_sites(db, rep, prog, unit, name):
    fn = prog.fn(name, unit)
    H = WriteOpHooks()
    H.entry = name
    eng = Engine(db, prog, H)
    fid = eng.frame_id(fn)
    st = {}
    if len(fn.params) != 3:
        raise AnalysisBroken('%s: not an op(fd, buf, len)' % name)
    st['%s::%s' % (fid, fn.params[2])] = fs(100)
    eng.run(fn, st)
    rep.count_states(eng.states, eng.transitions)
    if H.writes < 1:
        raise AnalysisBroken('%s: write() not reached' % name)
    bad = None
    nshort = 0
    for w, ret, asked, tr in H.returns:
        if w == 7:
            nshort += 1
            if ret != 7 or asked != 100:
                bad = bad or ('the kernel accepted 7 of %s offered bytes and %s() reports %s: the caller believes bytes were sent that were not, and drops them from the stream' % (asked, name, ret), tr)
        elif ret is None or ret > 0:
            bad = bad or ('write() failed or was not called and %s() reports %s bytes written' % (name, ret), tr)
    if nshort < 1 and bad is None:
        raise AnalysisBroken('%s: the partial-write path was not explored' % name)
    return {'%s:reports-exactly-what-write()-accepted' % name: (bad is None, '%s:%s' % (unit, name), bad[0] if bad else '', bad[1] if bad else [])}
