"""C16 — new mail wakes the daemon: no lost trigger, no busy loop (ordering premises and
timeout computation; the interleaving itself is not explored)."""
from qv.core import AnalysisBroken
from qv.esp import Engine, Outcome, TOP, fs
from rules import qsend
from rules.qsend import attach
from qv.lib import branch_zero_test


def run(ctx):
    db, rep = ctx.db, ctx.report
    prog = db.program('qmail-send')
    r1 = rep.rule('C16.1-injector-order', 'R-ORDER', 'qmail-queue: link(intd,todo) succeeds before triggerpull(), and triggerpull() is on every path from the commit to exit 0')
    from rules import C01
    progq = db.program('qmail-queue')
    H = C01.QueueHooks({})
    H.ADDR = None
    from qv.lib import macro_const as _mc
    H.precise = frozenset(C01.counter_vars(progq.fn('main', 'qmail-queue.c'), _mc(db, 'qmail-queue.c', 'ADDR')))
    eng = Engine(db, progq, H)
    eng.run(progq.fn('main', 'qmail-queue.c'))
    rep.count_states(eng.states, eng.transitions)
    for (rule, inst), (ok, where, detail, path) in sorted(H.seen_sites.items()):
        if rule == 'C01.16-trigger' or inst in ('return-0-only-after-commit', 'single-commit'):
            r1.check(ok, inst, where, detail, path)
    if H.commits == 0:
        raise AnalysisBroken('qmail-queue main: commit link not found')
    r1.expect_min(4)

    r2 = rep.rule('C16.2-daemon-order', 'R-TYPESTATE', 'todo_do: trigger_set() precedes opendir("todo") on every path that opens the directory; no trigger_set while a scan is open; scan skipped only if not pulled and not yet due')
    td = qsend.analyse_todo_do(db, rep)
    attach(r2, td, only={'todo:trigger_set-before-opendir', 'todo:no-trigger_set-while-a-scan-is-open'})
    attach(r2, qsend.analyse_todo_skip(db, rep), prefixes=['todo:'])
    # trigger.c: closes before it reopens; same path as triggerpull.c
    tset = db.fn('trigger.c', 'trigger_set')
    tunit = db.unit('trigger.c')
    from rules import libtab as _lt

    class TH(_lt.SAConc, _lt.Conc):
        """trigger_set() called twice: the descriptors the first call opened are closed by the second before it opens the fifo again"""
        def __init__(self):
            _lt.Conc.__init__(self, 'trigger_set')
            self.ev = []

        def materialize(self, E, path):
            if path.startswith('S:trigger_c:'):
                g_ = tunit.globals.get(path.split(':', 2)[2])
                if g_ is not None and isinstance(g_.get('init'), dict) and g_['init'].get('k') == 'int':
                    return fs(g_['init']['v'])       # the file's own start-up value
            return TOP

        def _open(self, E, x, args):
            n_ = (_lt._one(E.get('$nfd')) or 6) + 1
            self.ev.append(('open', self.cstring(E, _lt._one(args[0])), n_))
            return [Outcome(ret=fs(n_), sets={'$nfd': fs(n_)})]

        prim_open_read = prim_open_write = prim_open = _open

        def prim_close(self, E, x, args):
            self.ev.append(('close', _lt._one(args[0])))
            return [Outcome(ret=fs(0))]
    th1 = TH()
    _lt._run_conc(db, rep, db.program('qmail-send'), tset, {}, 'trigger_set', th1)
    if len(th1.ends) != 1 or not [e_ for e_ in th1.ev if e_[0] == 'open']:
        raise AnalysisBroken('trigger_set: %d ends, events %s' % (len(th1.ends), th1.ev))
    th2 = TH()
    _lt._run_conc(db, rep, db.program('qmail-send'), tset, {k_: v_ for k_, v_ in th1.ends[0][0].items() if '::' not in k_}, 'trigger_set', th2)
    opened1 = sorted(e_[2] for e_ in th1.ev if e_[0] == 'open')
    kinds2 = [e_[0] for e_ in th2.ev]
    closed2 = sorted(e_[1] for e_ in th2.ev if e_[0] == 'close')
    first_ok = not [e_ for e_ in th1.ev if e_[0] == 'close']
    r2.check(first_ok and closed2 == opened1 and kinds2 == sorted(kinds2), 'trigger_set-closes-before-reopening', tset.unit + ':trigger_set',
             'first call: %s; second call: %s; documented: the second call closes exactly the descriptors the first one opened, and only then opens the fifo again (otherwise the daemon leaks a descriptor per scan, or listens on a closed one)' % (th1.ev, th2.ev))
    # a re-arming whose open fails (ENFILE, the fifo being recreated): what the file remembers afterwards is no descriptor that it closed
    class TF(TH):
        def _open(self, E, x, args):
            self.ev.append(('open-fails', self.cstring(E, _lt._one(args[0])), -1))
            return [Outcome(ret=fs(-1))]
        prim_open_read = prim_open_write = prim_open = _open
    th3 = TF()
    _lt._run_conc(db, rep, db.program('qmail-send'), tset, {k_: v_ for k_, v_ in th1.ends[0][0].items() if '::' not in k_}, 'trigger_set', th3)
    if len(th3.ends) != 1:
        raise AnalysisBroken('trigger_set with a failing open: %d ends' % len(th3.ends))
    closed3 = {e_[1] for e_ in th3.ev if e_[0] == 'close'}
    stale = {k_: _lt._one(v_) for k_, v_ in th3.ends[0][0].items() if k_.startswith('S:trigger_c:') and _lt._one(v_) in closed3}
    r2.check(not stale and closed3 == set(opened1), 'trigger_set-forgets-a-descriptor-it-closed', tset.unit + ':trigger_set',
             'second call with open() failing: events %s; afterwards the file still holds %s - a closed descriptor number: select() on it fails with EBADF on every round (the daemon spins and never sleeps), or watches whatever file gets that number next' % (th3.ev, stale))
    lits_set = {e_[1] for e_ in th1.ev if e_[0] == 'open'}
    tpull = db.fn('triggerpull.c', 'triggerpull')
    thp = TH()
    thp.entry = 'triggerpull'
    _lt._run_conc(db, rep, db.program('qmail-queue'), tpull, {}, 'triggerpull', thp)
    lits_pull = {e_[1] for e_ in thp.ev if e_[0] == 'open'}
    r2.check(len(lits_set) == 1 and lits_set == lits_pull and None not in lits_set, 'trigger-path-agrees', 'trigger.c/triggerpull.c', 'daemon opens %s, injector opens %s' % (sorted(map(str, lits_set)), sorted(map(str, lits_pull))))
    # every re-arming of the trigger is answered by a scan: trigger_set() closes and reopens the fifo, which discards a pull that is still
    # waiting in it - harmless only if the directory is scanned afterwards (the scanner itself, or start-up code that makes the scan due)
    from qv.lib import deep_calls, loop_headers_containing
    fns_ = [f_ for f_ in prog.functions() if f_.blocks]
    mainf = prog.fn('main', 'qmail-send.c')

    def callers_of(name):
        return [(f_, c_) for f_ in fns_ for c_ in f_.calls(name)]

    def rearm_ok(g, seen=()):
        if deep_calls(prog, g, ('opendir', 'readsubdir_init', 'fdopendir'), depth=3):
            return True, None
        sites = callers_of(g.name)
        if not sites or g.name in seen:
            return False, '%s() is never followed by a scan' % g.name
        for f_, c_ in sites:
            if f_ is mainf or (f_.name == 'main' and f_.unit == mainf.unit):
                if loop_headers_containing(f_, f_.pos[c_.id][0]):
                    return False, '%s() runs inside the main loop (%s) and scans nothing afterwards' % (g.name, c_.where)
            else:
                ok_, why_ = rearm_ok(f_, seen + (g.name,))
                if not ok_:
                    return False, '%s() <- %s' % (g.name, why_)
        return True, None
    direct = callers_of('trigger_set')
    if len(direct) < 2:
        raise AnalysisBroken('qmail-send: %d call sites of trigger_set()' % len(direct))
    for f_, c_ in direct:
        ok_, why_ = rearm_ok(f_)
        r2.check(ok_, 'every-re-arming-is-followed-by-a-scan:%s' % f_.name, c_.where, 'trigger_set() at %s: %s - the close-and-reopen discards a wake-up byte that arrived before it, and nothing looks at todo/ until the next periodic scan' % (c_.where, why_))
    r2.expect_min(9)

    r3 = rep.rule('C16.3-timeout-computation', 'R-TABLE', 'select timeout: zero iff wakeup <= recent, otherwise distance + SLEEP_FUZZ >= 1; every assignment through wakeup is a min-update or a zero under a work-pending condition; every due-time source present')
    # the earliest due time is what prioq_min() says it is: the heap operations serve entries in time order (C15 rule 5)
    from rules import C15 as _c15
    for inst_, v_ in sorted(_c15.heap_sites(db, rep, db.program('qmail-send'), ctx.deep(4, 5)).items()):
        r3.check(v_[0], 'prioq:' + inst_, v_[1], v_[2], v_[3])
    attach(r3, qsend.selprep_sites(db), prefixes=['selprep:', 'main:'])
    ms = qsend.analyse_main(db, rep)
    attach(r3, ms, only={'main:ALRM-handled-before-the-wakeup-time-is-computed', 'main:HUP-handled-before-the-wakeup-time-is-computed'})
    attach(r3, qsend.analyse_progress(db, rep), prefixes=['progress:'])
    r3.expect_min(14)
    rep.assume('select() returns when a descriptor is readable or the timeout expires; fifo semantics of lock/trigger',
               'the classical lost-wake-up argument needs exactly the two orderings decided here; the interleaving itself is not explored')
