"""C16 — new mail wakes the daemon: no lost trigger, no busy loop (ordering premises and
timeout computation; the interleaving itself is not explored)."""
from qv.core import AnalysisBroken
from qv.esp import Engine
from rules import qsend
from rules.qsend import attach
from qv.lib import branch_zero_test


def run(ctx):
    db, rep = ctx.db, ctx.report
    prog = db.program('qmail-send')
    r1 = rep.rule('C16.1-injector-order', 'R-ORDER', 'qmail-queue: link(intd,todo) succeeds before triggerpull(), and triggerpull() is on every path from the commit to exit 0')
    from rules import C01
    progq = db.program('qmail-queue')
    H = C01.QueueHooks({})
    H.ADDR = None
    from qv.lib import macro_const as _mc
    H.precise = frozenset(C01.counter_vars(progq.fn('main', 'qmail-queue.c'), _mc(db, 'qmail-queue.c', 'ADDR')))
    eng = Engine(db, progq, H)
    eng.run(progq.fn('main', 'qmail-queue.c'))
    rep.count_states(eng.states, eng.transitions)
    for (rule, inst), (ok, where, detail, path) in sorted(H.seen_sites.items()):
        if rule == 'C01.16-trigger' or inst in ('return-0-only-after-commit', 'single-commit'):
            r1.check(ok, inst, where, detail, path)
    if H.commits == 0:
        raise AnalysisBroken('qmail-queue main: commit link not found')
    r1.expect_min(4)

    r2 = rep.rule('C16.2-daemon-order', 'R-TYPESTATE', 'todo_do: trigger_set() precedes opendir("todo") on every path that opens the directory; no trigger_set while a scan is open; scan skipped only if not pulled and not yet due')
    td = qsend.analyse_todo_do(db, rep)
    attach(r2, td, only={'todo:trigger_set-before-opendir', 'todo:no-trigger_set-while-a-scan-is-open'})
    attach(r2, qsend.analyse_todo_skip(db, rep), prefixes=['todo:'])
    # trigger.c: closes before it reopens; same path as triggerpull.c
    tset = db.fn('trigger.c', 'trigger_set')
    opens = tset.calls(('open_read', 'open_write'))
    closes = tset.calls('close')
    r2.check(bool(opens) and bool(closes) and all(not tset.can_reach(tset.pos[o.id][0], tset.pos[c.id][0]) or tset.pos[o.id][0] == tset.pos[c.id][0] for o in opens for c in closes) and
             all(tset.pos[c.id] < tset.pos[o.id] or tset.pos[c.id][0] != tset.pos[o.id][0] for o in opens for c in closes),
             'trigger_set-closes-before-reopening', tset.unit + ':trigger_set', 'trigger_set must close the old descriptor before opening the fifo again')
    lits_set = {c.args[0].string for c in opens}
    tpull = db.fn('triggerpull.c', 'triggerpull')
    lits_pull = {c.args[0].string for c in tpull.calls(('open_write', 'open_read'))}
    r2.check(len(lits_set) == 1 and lits_set == lits_pull and None not in lits_set, 'trigger-path-agrees', 'trigger.c/triggerpull.c', 'daemon opens %s, injector opens %s' % (sorted(map(str, lits_set)), sorted(map(str, lits_pull))))
    r2.expect_min(6)

    r3 = rep.rule('C16.3-timeout-computation', 'R-TABLE', 'select timeout: zero iff wakeup <= recent, otherwise distance + SLEEP_FUZZ >= 1; every assignment through wakeup is a min-update or a zero under a work-pending condition; every due-time source present')
    # the earliest due time is what prioq_min() says it is: the heap operations serve entries in time order (C15 rule 5)
    from rules import C15 as _c15
    for inst_, v_ in sorted(_c15.heap_sites(db, rep, db.program('qmail-send'), ctx.deep(4, 5)).items()):
        r3.check(v_[0], 'prioq:' + inst_, v_[1], v_[2], v_[3])
    attach(r3, qsend.selprep_sites(db), prefixes=['selprep:', 'main:'])
    ms = qsend.analyse_main(db, rep)
    attach(r3, ms, only={'main:ALRM-handled-before-the-wakeup-time-is-computed', 'main:HUP-handled-before-the-wakeup-time-is-computed'})
    attach(r3, qsend.analyse_progress(db, rep), prefixes=['progress:'])
    r3.expect_min(14)
    rep.assume('select() returns when a descriptor is readable or the timeout expires; fifo semantics of lock/trigger',
               'the classical lost-wake-up argument needs exactly the two orderings decided here; the interleaving itself is not explored')
