"""C16 — new mail wakes the daemon: no lost trigger, no busy loop (ordering premises and
timeout computation; the interleaving itself is not explored)."""
from qv.core import AnalysisBroken
from qv.esp import Engine, Outcome, TOP, fs
from rules import qsend
from rules.qsend import attach
from qv.lib import branch_zero_test


def run(ctx):
    db, rep = ctx.db, ctx.report
    prog = db.program('qmail-send')
    r1 = rep.rule('C16.1-injector-order', 'R-ORDER', 'qmail-queue: link(intd,todo) succeeds before triggerpull(), and triggerpull() is on every path from the commit to exit 0')
    from rules import C01
    progq = db.program('qmail-queue')
    H = C01.QueueHooks({})
    H.ADDR = None
    from qv.lib import macro_const as _mc
    H.precise = frozenset(C01.counter_vars(progq.fn('main', 'qmail-queue.c'), _mc(db, 'qmail-queue.c', 'ADDR')))
    eng = Engine(db, progq, H)
    eng.run(progq.fn('main', 'qmail-queue.c'))
    rep.count_states(eng.states, eng.transitions)
    for (rule, inst), (ok, where, detail, path) in sorted(H.seen_sites.items()):
        if rule == 'C01.16-trigger' or inst in ('return-0-only-after-commit', 'single-commit'):
            r1.check(ok, inst, where, detail, path)
    if H.commits == 0:
        raise AnalysisBroken('qmail-queue main: commit link not found')
    r1.expect_min(4)

    r2 = rep.rule('C16.2-daemon-order', 'R-TYPESTATE', 'todo_do: trigger_set() precedes opendir("todo") on every path that opens the directory; no trigger_set while a scan is open; scan skipped only if not pulled and not yet due')
    td = qsend.analyse_todo_do(db, rep)
    attach(r2, td, only={'todo:trigger_set-before-opendir', 'todo:no-trigger_set-while-a-scan-is-open'})
    attach(r2, qsend.analyse_todo_skip(db, rep), prefixes=['todo:'])
    # trigger.c: closes before it reopens; same path as triggerpull.c
    tset = db.fn('trigger.c', 'trigger_set')
    tunit = db.unit('trigger.c')
    from rules import libtab as _lt

    class TH(_lt.SAConc, _lt.Conc):
        """trigger_set() called twice: the descriptors the first call opened are closed by the second before it opens the fifo again"""
        def __init__(self):
            _lt.Conc.__init__(self, 'trigger_set')
            self.ev = []

        def materialize(self, E, path):
            if path.startswith('S:trigger_c:'):
                g_ = tunit.globals.get(path.split(':', 2)[2])
                if g_ is not None and isinstance(g_.get('init'), dict) and g_['init'].get('k') == 'int':
                    return fs(g_['init']['v'])       # the file's own start-up value
            return TOP

        def _open(self, E, x, args):
            n_ = (_lt._one(E.get('$nfd')) or 6) + 1
            self.ev.append(('open', self.cstring(E, _lt._one(args[0])), n_))
            return [Outcome(ret=fs(n_), sets={'$nfd': fs(n_)})]

        prim_open_read = prim_open_write = prim_open = _open

        def prim_close(self, E, x, args):
            self.ev.append(('close', _lt._one(args[0])))
            return [Outcome(ret=fs(0))]
    th1 = TH()
    _lt._run_conc(db, rep, db.program('qmail-send'), tset, {}, 'trigger_set', th1)
    if len(th1.ends) != 1 or not [e_ for e_ in th1.ev if e_[0] == 'open']:
        raise AnalysisBroken('trigger_set: %d ends, events %s' % (len(th1.ends), th1.ev))
    th2 = TH()
    _lt._run_conc(db, rep, db.program('qmail-send'), tset, {k_: v_ for k_, v_ in th1.ends[0][0].items() if '::' not in k_}, 'trigger_set', th2)
    opened1 = sorted(e_[2] for e_ in th1.ev if e_[0] == 'open')
    kinds2 = [e_[0] for e_ in th2.ev]
    closed2 = sorted(e_[1] for e_ in th2.ev if e_[0] == 'close')
    first_ok = not [e_ for e_ in th1.ev if e_[0] == 'close']
    r2.check(first_ok and closed2 == opened1 and kinds2 == sorted(kinds2), 'trigger_set-closes-before-reopening', tset.unit + ':trigger_set',
             'first call: %s; second call: %s; documented: the second call closes exactly the descriptors the first one opened, and only then opens the fifo again (otherwise the daemon leaks a descriptor per scan, or listens on a closed one)' % (th1.ev, th2.ev))
    lits_set = {e_[1] for e_ in th1.ev if e_[0] == 'open'}
    tpull = db.fn('triggerpull.c', 'triggerpull')
    thp = TH()
    thp.entry = 'triggerpull'
    _lt._run_conc(db, rep, db.program('qmail-queue'), tpull, {}, 'triggerpull', thp)
    lits_pull = {e_[1] for e_ in thp.ev if e_[0] == 'open'}
    r2.check(len(lits_set) == 1 and lits_set == lits_pull and None not in lits_set, 'trigger-path-agrees', 'trigger.c/triggerpull.c', 'daemon opens %s, injector opens %s' % (sorted(map(str, lits_set)), sorted(map(str, lits_pull))))
    r2.expect_min(6)

    r3 = rep.rule('C16.3-timeout-computation', 'R-TABLE', 'select timeout: zero iff wakeup <= recent, otherwise distance + SLEEP_FUZZ >= 1; every assignment through wakeup is a min-update or a zero under a work-pending condition; every due-time source present')
    # the earliest due time is what prioq_min() says it is: the heap operations serve entries in time order (C15 rule 5)
    from rules import C15 as _c15
    for inst_, v_ in sorted(_c15.heap_sites(db, rep, db.program('qmail-send'), ctx.deep(4, 5)).items()):
        r3.check(v_[0], 'prioq:' + inst_, v_[1], v_[2], v_[3])
    attach(r3, qsend.selprep_sites(db), prefixes=['selprep:', 'main:'])
    ms = qsend.analyse_main(db, rep)
    attach(r3, ms, only={'main:ALRM-handled-before-the-wakeup-time-is-computed', 'main:HUP-handled-before-the-wakeup-time-is-computed'})
    attach(r3, qsend.analyse_progress(db, rep), prefixes=['progress:'])
    r3.expect_min(14)
    rep.assume('select() returns when a descriptor is readable or the timeout expires; fifo semantics of lock/trigger',
               'the classical lost-wake-up argument needs exactly the two orderings decided here; the interleaving itself is not explored')
