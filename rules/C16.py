"""C16 — new mail wakes the daemon: no lost trigger, no busy loop (ordering premises and
timeout computation; the interleaving itself is not explored)."""
from qv.core import AnalysisBroken
from qv.esp import Engine
from rules import qsend
from rules.qsend import attach
from qv.lib import branch_zero_test


def run(ctx):
    db, rep = ctx.db, ctx.report
    prog = db.program('qmail-send')
    r1 = rep.rule('C16.1-injector-order', 'R-ORDER', 'qmail-queue: link(intd,todo) succeeds before triggerpull(), and triggerpull() is on every path from the commit to exit 0')
    from rules import C01
    progq = db.program('qmail-queue')
    H = C01.QueueHooks({})
    from qv.lib import macro_const as _mc
    H.precise = frozenset(C01.counter_vars(progq.fn('main', 'qmail-queue.c'), _mc(db, 'qmail-queue.c', 'ADDR')))
    eng = Engine(db, progq, H)
    eng.run(progq.fn('main', 'qmail-queue.c'))
    rep.count_states(eng.states, eng.transitions)
    for (rule, inst), (ok, where, detail, path) in sorted(H.seen_sites.items()):
        if rule == 'C01.16-trigger' or inst in ('return-0-only-after-commit', 'single-commit'):
            r1.check(ok, inst, where, detail, path)
    mq = progq.fn('main', 'qmail-queue.c')
    tp = mq.calls('triggerpull')
    lk = [c for c in mq.calls('link') if c.args[1].path() == 'G:todofn']
    if not tp or not lk:
        raise AnalysisBroken('qmail-queue main: triggerpull()/commit link not found')
    r1.check(mq.dominates(lk[0], tp[0]) and any(c.strip().k == 'bin' and c.strip().args[1].const == -1 and t is False and c.strip().args[0].strip().id == lk[0].id for c, t in mq.guards(tp[0]) or []),
             'pull-only-after-successful-commit', tp[0].where, 'triggerpull() must be dominated by the successful link(intd,todo)')
    r1.expect_min(3)

    r2 = rep.rule('C16.2-daemon-order', 'R-TYPESTATE', 'todo_do: trigger_set() precedes opendir("todo") on every path that opens the directory; no trigger_set while a scan is open; scan skipped only if not pulled and not yet due')
    td = qsend.analyse_todo_do(db, rep)
    attach(r2, td, only={'todo:trigger_set-before-opendir', 'todo:no-trigger_set-while-a-scan-is-open'})
    f = prog.fn('todo_do', 'qmail-send.c')
    od = f.calls('opendir')
    ts = f.calls('trigger_set')
    if not od or not ts:
        raise AnalysisBroken('todo_do: opendir/trigger_set not found')
    # skip rule: the early return under !tododir needs !pulled and recent < nexttodorun
    rets = [x for x in f.all_x() if x.k == 'ret']
    skip_ok = False
    for x in rets:
        g = f.guards(x) or []
        gs = [(c.strip(), t) for c, t in g]
        has_np = any(branch_zero_test(c, t, lambda v: v.strip().k == 'call' and v.strip().callee == 'trigger_pulled') == 'zero' for c, t in gs)
        has_nd = any(c.k == 'bin' and c.op == '<' and c.args[0].path() == 'G:recent' and c.args[1].path() == 'G:nexttodorun' and t is True for c, t in gs)
        if has_np and has_nd:
            skip_ok = True
    r2.check(skip_ok, 'scan-skipped-only-if-not-pulled-and-not-due', f.unit + ':todo_do', 'no return guarded by !trigger_pulled(rfds) && recent < nexttodorun')
    # every return between !tododir and trigger_set needs both (no other way to skip a pulled trigger)
    for x in rets:
        g = f.guards(x) or []
        gs = [(c.strip(), t) for c, t in g]
        under_closed = any(branch_zero_test(c, t, lambda v: v.path() == 'G:tododir') == 'zero' for c, t in gs)
        before_set = not f.dominates(ts[0], x)
        if under_closed and before_set:
            has_np = any(branch_zero_test(c, t, lambda v: v.strip().k == 'call' and v.strip().callee == 'trigger_pulled') == 'zero' for c, t in gs)
            r2.check(has_np, 'pulled-trigger-never-skipped@%d' % x.line, x.where, 'todo_do returns with no scan although the trigger may have been pulled')
    nt = [x for x in f.all_x() if x.k == 'asg' and x.args[0].path() == 'G:nexttodorun']
    sl = db.unit('qmail-send.c').macro_int('SLEEP_TODO')
    okn = False
    for x in nt:
        r = x.args[1].strip()
        if r.k == 'bin' and r.op == '+' and 'G:recent' in (r.args[0].path(), r.args[1].path()) and sl in (r.args[0].const, r.args[1].const) and f.dominates(od[0], x):
            okn = True
    r2.check(okn, 'nexttodorun=recent+SLEEP_TODO-when-a-scan-starts', f.unit + ':todo_do', 'the periodic rescan time must be set when the directory is opened')
    # trigger.c: closes before it reopens; same path as triggerpull.c
    tset = db.fn('trigger.c', 'trigger_set')
    opens = tset.calls(('open_read', 'open_write'))
    closes = tset.calls('close')
    r2.check(bool(opens) and bool(closes) and all(not tset.can_reach(tset.pos[o.id][0], tset.pos[c.id][0]) or tset.pos[o.id][0] == tset.pos[c.id][0] for o in opens for c in closes) and
             all(tset.pos[c.id] < tset.pos[o.id] or tset.pos[c.id][0] != tset.pos[o.id][0] for o in opens for c in closes),
             'trigger_set-closes-before-reopening', tset.unit + ':trigger_set', 'trigger_set must close the old descriptor before opening the fifo again')
    lits_set = {c.args[0].string for c in opens}
    tpull = db.fn('triggerpull.c', 'triggerpull')
    lits_pull = {c.args[0].string for c in tpull.calls(('open_write', 'open_read'))}
    r2.check(len(lits_set) == 1 and lits_set == lits_pull and None not in lits_set, 'trigger-path-agrees', 'trigger.c/triggerpull.c', 'daemon opens %s, injector opens %s' % (sorted(map(str, lits_set)), sorted(map(str, lits_pull))))
    r2.expect_min(6)

    r3 = rep.rule('C16.3-timeout-computation', 'R-TABLE', 'select timeout: zero iff wakeup <= recent, otherwise distance + SLEEP_FUZZ >= 1; every assignment through wakeup is a min-update or a zero under a work-pending condition; every due-time source present')
    attach(r3, qsend.selprep_sites(db), prefixes=['selprep:', 'main:'])
    ms = qsend.analyse_main(db, rep)
    attach(r3, ms, only={'main:ALRM-handled-before-the-wakeup-time-is-computed', 'main:HUP-handled-before-the-wakeup-time-is-computed'})
    r3.expect_min(14)
    rep.assume('select() returns when a descriptor is readable or the timeout expires; fifo semantics of lock/trigger',
               'the classical lost-wake-up argument needs exactly the two orderings decided here; the interleaving itself is not explored')
