"""C01 — queue acceptance is all-or-nothing and durable (qmail-queue).

Decides the ordering lemma of DESIGN.md §5/C01 premise by premise on every CFG path of
qmail-queue's main (helpers inlined): typestate of the mess and intd files up to the
commit link(intd,todo); publish-once; exit statuses; clean-up order; timer; envelope
grammar gate; message content order; substdio's short-write loop.
"""
from qv.core import AnalysisBroken
from qv.esp import Engine, Outcome, TOP, fs
from qv.lib import QHooks, transitive_callees, macro_const, lit_arg, deep_calls

DOC_EXITS = {11, 51, 52, 53, 54, 61, 62, 63, 64, 65, 66, 81, 91}
NONE, CREATED, DIRTY, FLUSHED, SYNCED, BROKEN = 'NONE', 'CREATED', 'DIRTY', 'FLUSHED', 'SYNCED', 'BROKEN'
BYTE = frozenset(range(256))


from rules import libtab


class QueueHooks(QHooks):
    inline_unit = 'qmail-queue.c'
    no_inline = frozenset(['receivedfmt', 'received_setup', 'pidfmt'])
    tracked = frozenset(['G:flagmademess', 'G:flagmadeintd', 'G:messfd', 'G:intdfd', 'G:messfn', 'G:intdfn',
                         'G:todofn', 'G:pidfn', 'G:received', 'G:receivedlen'])
    inline_depth = 4
    precise = frozenset(['L:len'])
    ADDR = None         # the address length limit (set by the caller from the macro)

    def precise_arith(self, path):
        return '::' in path or super().precise_arith(path)         # every local counter is concrete (address lengths up to ADDR, the pid-file retries)

    def __init__(self, R):
        self.R = R          # dict of rule objects
        self.exits = {}     # status -> example site
        self.commits = 0
        self.returns = []
        self.events = 0
        self.seen_sites = {}

    # --- helpers
    def site(self, rule, inst, x, ok, detail='', E=None):
        """record an obligation once per (rule, instance); a later failure overrides"""
        key = (rule, inst)
        prev = self.seen_sites.get(key)
        if prev is None or (prev[0] and not ok):
            self.seen_sites[key] = (ok, x.where if x is not None else '', detail, E.trace.list() if (E and not ok) else [])

    def st(self, E, obj):
        v = E.get('$st:' + obj)
        return next(iter(v)) if v else NONE

    def setst(self, E, obj, s):
        E.set('$st:' + obj, fs(s))

    def flag(self, E, name):
        v = E.get('$' + name)
        return next(iter(v)) if v else 0

    def bound(self, E, ssx):
        """object ('G:messfd' / 'G:intdfd' / 'fd0' / 'fd1') the substdio argument is bound to"""
        v = E.val(ssx)
        if v is TOP or len(v) != 1:
            return None
        (a,) = v
        if isinstance(a, tuple) and a[0] == '&':
            b = E.get('$bind:' + a[1])
            return next(iter(b)) if b else None
        return None

    def after_commit(self, E, x, what):
        if self.flag(E, 'committed'):
            self.site('C01.1-durability', 'no-%s-after-commit' % what, x, False,
                      '%s after the commit link(intd,todo): the published files must not change' % what, E)

    # --- primitives
    def prim_alarm(self, E, x, args):
        v = args[0]
        ok = v is not TOP and all(isinstance(e, int) and e > 0 for e in v)
        if ok:
            E.set('$alarm', fs(1))
        return [Outcome(ret=TOP)]

    def prim_open_excl(self, E, x, args):
        self.site('C01.6-timer', 'alarm-before-create:%s' % x.args[0].src(), x, self.flag(E, 'alarm') == 1,
                  'a queue file is created before the DEATH alarm is armed', E)
        return [Outcome(ret=fs(('fd', x.id)), log='open_excl(%s) ok' % x.args[0].src()),
                Outcome(ret=fs(-1), log='open_excl(%s) fails' % x.args[0].src())]

    def on_assign(self, E, x, path, val):
        if path in ('G:messfd', 'G:intdfd') and val is not TOP:
            if any(isinstance(e, tuple) and e[0] == 'fd' for e in val):
                self.setst(E, path, CREATED)
                if path == 'G:intdfd':
                    # intd is created: mess must already be complete and durable (S2 before S3)
                    self.site('C01.1-durability', 'mess-synced-before-intd-created', x,
                              self.st(E, 'G:messfd') == SYNCED and self.flag(E, 'messnamed') == 1,
                              'intd/<n> created while mess/<n> is %s' % self.st(E, 'G:messfd'), E)
                    E.set('$exists:intd', fs(1))
        if path == 'G:messnum':
            sb = E.get('$statbuf')
            sb = next(iter(sb)) if sb else None
            self.site('C01.4-name-is-inode', 'messnum-from-fstat', x,
                      self.flag(E, 'inode') == 1 and sb is not None and x.args[1].path() == sb + '.st_ino',
                      'messnum must be the inode of the file opened by pidopen (checked fstat of messfd)', E)
            E.set('$messnum', fs(1))

    def prim_fstat(self, E, x, args):
        p = x.args[0].path()
        tgt = x.args[1].strip()
        ok_target = p == 'G:messfd' and tgt.k == 'un' and tgt.op == '&' and tgt.args[0].path() is not None
        return [Outcome(ret=fs(0), sets={'$inode': fs(1 if ok_target else 0), '$statbuf': fs(tgt.args[0].path()) if ok_target else TOP}),
                Outcome(ret=fs(-1), sets={'$inode': fs(0)}, log='fstat fails')]

    def prim_fnnum(self, E, x, args):
        lit = lit_arg(x, 0)
        split = x.args[1].const
        self.site('C01.4-name-is-inode', 'fnnum(%r,%s)-after-messnum' % (lit, split), x,
                  self.flag(E, 'messnum') == 1, 'queue file name built before messnum is known', E)
        return [Outcome(ret=fs(('name', lit, split)))]

    def role(self, E, argx):
        v = E.val(argx)
        if v is TOP or len(v) != 1:
            p = argx.path()
            return ('var', p)
        (a,) = v
        if isinstance(a, tuple) and a[0] == 'name':
            return a
        return ('var', argx.path())

    def prim_link(self, E, x, args):
        a, b = self.role(E, x.args[0]), self.role(E, x.args[1])
        self.events += 1
        if a == ('var', 'G:pidfn') and b == ('name', 'mess/', 1):
            self.site('C01.4-name-is-inode', 'mess-name-links-pid-file', x, True)
            return [Outcome(ret=fs(0), sets={'$messnamed': fs(1)}, log='link(pid,mess) ok'),
                    Outcome(ret=fs(-1), sets={'$messnamed': fs(0)}, log='link(pid,mess) fails')]
        if b[0] == 'name' and b[1] == 'todo/':
            # the commit
            ok = (a == ('name', 'intd/', 0) and b == ('name', 'todo/', 0))
            self.site('C01.3-publish-once', 'commit-is-link(intd,todo)', x, ok,
                      'todo/<n> must be created by link(intd/<n>, todo/<n>); got link(%s,%s)' % (a, b), E)
            sm, si = self.st(E, 'G:messfd'), self.st(E, 'G:intdfd')
            self.site('C01.1-durability', 'mess-SYNCED-at-commit', x, sm == SYNCED and self.flag(E, 'messnamed') == 1,
                      'mess/<n> is %s at link(intd,todo) on some path' % sm, E)
            self.site('C01.1-durability', 'intd-SYNCED-at-commit', x, si == SYNCED,
                      'intd/<n> is %s at link(intd,todo) on some path' % si, E)
            self.site('C01.8-message-order', 'mess=Received+stdin-at-commit', x, self.flag(E, 'messseq') == 2,
                      'message file content is not exactly own Received line then a copy of descriptor 0', E)
            env = E.get('$env')
            env = next(iter(env)) if env else 'START'
            self.site('C01.7-envelope-gate', 'grammar-complete-at-commit', x, env == 'DONE',
                      'commit reachable with the envelope grammar in state %s (need F addr NUL (T addr NUL)* NUL)' % env, E)
            self.site('C01.1-durability', 'single-commit', x, self.flag(E, 'committed') == 0, 'second commit', E)
            self.commits += 1
            return [Outcome(ret=fs(0), sets={'$committed': fs(1)}, log='COMMIT link(intd,todo) ok'),
                    Outcome(ret=fs(-1), log='link(intd,todo) fails')]
        if a[0] == 'name' or b[0] == 'name':
            self.site('C01.3-publish-once', 'unexpected-link(%s,%s)' % (a, b), x, False,
                      'link between queue names not in the instance table', E)
        return None

    def prim_unlink(self, E, x, args):
        a = self.role(E, x.args[0])
        self.events += 1
        self.after_commit(E, x, 'unlink')
        if a == ('var', 'G:pidfn'):
            return None
        if a == ('name', 'intd/', 0):
            return [Outcome(ret=fs(0), sets={'$exists:intd': fs(0)}, log='unlink(intd) ok'),
                    Outcome(ret=fs(-1), log='unlink(intd) fails')]
        if a == ('name', 'mess/', 1):
            v = E.get('$exists:intd')
            exists = next(iter(v)) if v else 0
            self.site('C01.5-cleanup-order', 'intd-removed-before-mess', x, exists == 0,
                      'mess/<n> unlinked while intd/<n> still exists (leaves the undocumented state intd-without-mess)', E)
            return None
        if a[0] == 'name':
            self.site('C01.3-publish-once', 'unexpected-unlink(%s)' % (a,), x, False,
                      'qmail-queue removes a queue name it does not own', E)
        return None

    def prim_ftruncate(self, E, x, args):
        self.after_commit(E, x, 'truncate')
        p = x.args[0].path()
        if p in ('G:messfd', 'G:intdfd'):
            self.setst(E, p, BROKEN)
        return [Outcome(ret=TOP)]

    def prim_substdio_fdbuf(self, E, x, args):
        v = args[0]
        fdx = x.args[2]
        if v is not TOP and len(v) == 1:
            (a,) = v
            if isinstance(a, tuple) and a[0] == '&':
                c = fdx.const
                tgt = fdx.path() if c is None else 'fd%d' % c
                E.set('$bind:' + a[1], fs(tgt))
        return [Outcome(ret=TOP)]

    def _write(self, E, x, kind):
        obj = self.bound(E, x.args[0])
        self.events += 1
        if obj in ('G:messfd', 'G:intdfd'):
            self.after_commit(E, x, 'write')
            st = self.st(E, obj)
            self.site('C01.1-durability', 'write-to-open-file:%s' % x.src()[:40], x, st != NONE,
                      'write to %s before it was created' % obj, E)
        return obj

    def _mess_seq(self, E, x, obj, what):
        if obj != 'G:messfd':
            return {}
        seq = self.flag(E, 'messseq')
        if what == 'received' and seq == 0:
            return {'$messseq': fs(1)}
        if what == 'copy0' and seq == 1:
            return {'$messseq': fs(2)}
        return {'$messseq': fs(9)}

    def _put(self, E, x, args, flushes=False):
        obj = self._write(E, x, 'put')
        sets_ok, sets_bad = {}, {}
        if obj in ('G:messfd', 'G:intdfd'):
            what = 'other'
            if obj == 'G:messfd':
                if x.args[1].path() == 'G:received' and x.args[2].path() == 'G:receivedlen':
                    what = 'received'
                sets_ok.update(self._mess_seq(E, x, obj, what))
            else:
                # envelope bytes copied verbatim: the byte just read must be what is written
                pend = self.flag(E, 'pending')
                arg = x.args[1].strip()
                is_ch = arg.k == 'un' and arg.op == '&' and arg.args[0].path() and arg.args[0].path().startswith('L:ch')
                if is_ch and x.args[2].const == 1:
                    self.site('C01.7-envelope-gate', 'each-envelope-byte-copied-once', x, pend == 1,
                              'envelope byte written without a fresh read (duplicated byte)', E)
                    sets_ok['$pending'] = fs(0)
            sets_ok['$st:' + obj] = fs(FLUSHED if flushes else DIRTY) if self.st(E, obj) != BROKEN else fs(BROKEN)
            sets_bad['$st:' + obj] = fs(BROKEN)
        return [Outcome(ret=fs(0), sets=sets_ok), Outcome(ret=fs(-1), sets=sets_bad, log='%s fails' % x.src()[:50])]

    def prim_substdio_bput(self, E, x, args):
        return self._put(E, x, args)

    def prim_substdio_put(self, E, x, args):
        return self._put(E, x, args)

    def prim_substdio_puts(self, E, x, args):
        return self._put(E, x, args)

    def prim_substdio_bputs(self, E, x, args):
        return self._put(E, x, args)

    def prim_substdio_putflush(self, E, x, args):
        return self._put(E, x, args, flushes=True)

    def prim_write(self, E, x, args):
        p = x.args[0].path()
        if p in ('G:messfd', 'G:intdfd'):
            self.after_commit(E, x, 'write')
            self.setst(E, p, BROKEN)
        return [Outcome(ret=TOP)]

    def prim_substdio_copy(self, E, x, args):
        out = self._write(E, x, 'copy')
        src = self.bound(E, x.args[1])
        sets = {}
        if out in ('G:messfd', 'G:intdfd'):
            sets.update(self._mess_seq(E, x, out, 'copy0' if src == 'fd0' else 'other'))
            sets['$st:' + out] = fs(DIRTY) if self.st(E, out) != BROKEN else fs(BROKEN)
        bad = {'$st:' + out: fs(BROKEN)} if out else {}
        return [Outcome(ret=fs(0), sets=sets, log='substdio_copy complete'),
                Outcome(ret=fs(-2), sets=bad, log='substdio_copy: read error'),
                Outcome(ret=fs(-3), sets=bad, log='substdio_copy: write error')]

    def prim_substdio_flush(self, E, x, args):
        obj = self.bound(E, x.args[0])
        if obj in ('G:messfd', 'G:intdfd'):
            self.after_commit(E, x, 'flush')
            st = self.st(E, obj)
            ok = {'$st:' + obj: fs(FLUSHED if st in (DIRTY, FLUSHED, CREATED) else st)}
            return [Outcome(ret=fs(0), sets=ok), Outcome(ret=fs(-1), sets={'$st:' + obj: fs(BROKEN)}, log='flush fails')]
        return [Outcome(ret=fs(0)), Outcome(ret=fs(-1))]

    def prim_fsync(self, E, x, args):
        p = x.args[0].path()
        self.events += 1
        if p in ('G:messfd', 'G:intdfd'):
            st = self.st(E, p)
            ok = {'$st:' + p: fs(SYNCED if st == FLUSHED else st)}
            return [Outcome(ret=fs(0), sets=ok, log='fsync(%s) ok [%s]' % (x.args[0].src(), st)),
                    Outcome(ret=fs(-1), sets={'$st:' + p: fs(BROKEN)}, log='fsync(%s) fails' % x.args[0].src())]
        return None

    def prim_substdio_get(self, E, x, args):
        src = self.bound(E, x.args[0])
        tgt = args[1]
        chp = None
        if tgt is not TOP and len(tgt) == 1:
            (a,) = tgt
            if isinstance(a, tuple) and a[0] == '&':
                chp = a[1]
        one = x.args[2].const == 1
        outs = [Outcome(ret=fs(-1), log='read error', havoc=()), Outcome(ret=fs(0), log='EOF')]
        if src == 'fd1' and one and chp:
            pend = self.flag(E, 'pending')
            self.site('C01.7-envelope-gate', 'each-envelope-byte-copied-before-next-read', x, pend == 0,
                      'an envelope byte was read and not written to intd before the next read', E)
            env = E.get('$env')
            env = next(iter(env)) if env else 'START'
            # reference grammar: START -F-> ADDR ; ADDR -0-> REC ; ADDR -x-> ADDR ; REC -T-> ADDR ; REC -0-> DONE
            for cls, vals in (('F', fs(ord('F'))), ('T', fs(ord('T'))), ('NUL', fs(0)),
                              ('other', BYTE - {ord('F'), ord('T'), 0})):
                if env == 'START':
                    nxt = 'ADDR' if cls == 'F' else 'BADLETTER'
                elif env == 'ADDR':
                    nxt = 'REC' if cls == 'NUL' else 'ADDR'
                elif env == 'REC':
                    nxt = 'ADDR' if cls == 'T' else ('DONE' if cls == 'NUL' else 'BADLETTER')
                elif env == 'DONE':
                    nxt = 'EXTRA'
                else:
                    nxt = env
                # bytes of the current address read so far, the terminating NUL included
                al = self.flag(E, 'alen') or 0
                al2 = (al + 1) if env == 'ADDR' else 0
                if env == 'ADDR' and cls == 'NUL' and self.ADDR is not None:
                    self.site('C01.7-envelope-gate', 'exit-11-iff-length>=ADDR@accepted', x, al2 <= self.ADDR,
                              'an address of %d bytes (with its NUL) is accepted; the limit is ADDR = %d' % (al2, self.ADDR), E)
                outs.append(Outcome(ret=fs(1), sets={chp: vals, '$env': fs(nxt), '$pending': fs(0 if nxt == 'DONE' or nxt == 'BADLETTER' else 1), '$alen': fs(min(al2, 5000))},
                                    log=('read envelope byte %s -> grammar %s' % (cls, nxt)) if (al2 < 3 or cls != 'other') else None))
            return outs
        if chp:
            outs.append(Outcome(ret=fs(1), havoc=(chp.split('.')[0],)))
        else:
            outs.append(Outcome(ret=fs(1)))
        return outs

    def prim_triggerpull(self, E, x, args):
        self.site('C01.16-trigger', 'pull-only-after-successful-commit', x, self.flag(E, 'committed') == 1,
                  'triggerpull() on a path where link(intd,todo) has not succeeded: the daemon is woken for nothing and the real pull may be missing', E)
        E.set('$pulled', fs(1))
        return [Outcome(ret=TOP, log='triggerpull()')]

    def prim__exit(self, E, x, args):
        v = args[0]
        codes = sorted(v) if v is not TOP else [None]
        for c in codes:
            self.exits.setdefault(c, x.where)
            committed = self.flag(E, 'committed')
            if c is None:
                self.site('C01.3-exit-status', 'exit-status-constant', x, False, 'exit status is not a constant', E)
                continue
            self.site('C01.3-exit-status', 'exit(%d)-nonzero-and-documented' % c, x, c != 0 and c in DOC_EXITS,
                      'exit status %d is not in the documented failure set' % c, E)
            env = E.get('$env')
            env = next(iter(env)) if env else 'START'
            if c == 11 and self.ADDR is not None:
                al = self.flag(E, 'alen') or 0
                self.site('C01.7-envelope-gate', 'exit-11-iff-length>=ADDR@refused', x, env == 'ADDR' and al == self.ADDR,
                          'exit 11 after %d bytes of an address without its NUL (grammar state %s); documented: exactly when ADDR = %d bytes were read and none was NUL' % (al, env, self.ADDR), E)
                self.n11 = getattr(self, 'n11', 0) + 1
            if c == 91:
                self.site('C01.7-envelope-gate', 'exit91-only-on-bad-record-letter', x, env == 'BADLETTER',
                          'exit 91 with the grammar in state %s' % env, E)
            if env == 'BADLETTER':
                self.site('C01.7-envelope-gate', 'bad-record-letter-refused-with-91', x, c in (91, 52, 53, 54, 81),
                          'a wrong record letter ends with status %d' % c, E)
            if committed:
                self.site('C01.3-exit-status', 'no-failure-exit-after-commit', x, False,
                          'exit(%d) after the message was published' % c, E)
        return 'noreturn'

    def on_exit(self, E, x):
        pass

    def on_return(self, E, fn, val):
        if fn.name != 'main':
            return
        ok = val is not TOP and val == fs(0)
        self.returns.append(val)
        self.site('C01.3-exit-status', 'return-0-only-after-commit', None, ok and self.flag(E, 'committed') == 1,
                  'main returns %s with committed=%s' % (sorted(val) if val is not TOP else '?', self.flag(E, 'committed')), E)
        self.site('C01.16-trigger', 'triggerpull-between-commit-and-exit-0', None, self.flag(E, 'pulled') == 1,
                  'success return without triggerpull()', E)


def counter_vars(fn, k):
    """locals compared with the constant k (the address-length counters), by declaration id without #n"""
    out = set()
    for x in fn.all_x():
        if x.k == 'bin' and x.op in ('<', '<=', '>', '>=', '==', '!='):
            for a, b in ((x.args[0], x.args[1]), (x.args[1], x.args[0])):
                if b is not None and b.const in (k, k - 1) and a is not None and a.var and a.var[:2] == 'L:':
                    out.add(a.var.split('#')[0])
    return out or {'L:len'}


def handler_sites(db):
    """no signal handler installed in qmail-queue.c reaches the clean-up (shared with C02: files disappear only in the documented order)"""
    prog = db.program('qmail-queue')
    main = prog.fn('main', 'qmail-queue.c')
    out = {}
    handlers = {}
    for f_ in [main] + [g_ for g_ in prog.functions() if g_.unit == 'qmail-queue.c' and g_.blocks]:
        for c in f_.calls():
            if c.callee and c.callee.startswith('sig_'):
                for a_ in c.args:
                    v = a_.strip() if a_ is not None else None
                    if v is not None and v.k == 'ref' and v.n['d'].startswith('F:'):
                        handlers.setdefault(v.n['d'][2:], c.callee)
    if not any(k == 'sig_alarmcatch' for k in handlers.values()):
        raise AnalysisBroken('qmail-queue.c: no handler is installed with sig_alarmcatch()')
    for h, how in sorted(handlers.items()):
        hf = prog.fn(h, 'qmail-queue.c')
        reach = transitive_callees(prog, hf)
        bad = reach & {'unlink', 'ftruncate', 'cleanup', 'truncate', 'rename'}
        out['%s-handler-%s-does-not-clean-up' % ('alarm' if how == 'sig_alarmcatch' else 'signal', h)] = (
            not bad, '%s:%d' % (hf.unit, hf.line),
            'handler (installed by %s) reaches %s: a signal arriving after the commit would destroy an accepted message (intd/<n> and todo/<n> are one file)' % (how, sorted(bad)), [])
    return out


def queue_sites(db, rep):
    """qmail-queue main explored once: (rule, instance) -> (ok, where, detail, path); shared with C02, C03, C07, C16"""
    prog = db.program('qmail-queue')
    main = prog.fn('main', 'qmail-queue.c')
    H = QueueHooks({})
    H.precise = frozenset(counter_vars(main, macro_const(db, 'qmail-queue.c', 'ADDR')))
    H.ADDR = macro_const(db, 'qmail-queue.c', 'ADDR')
    eng = Engine(db, prog, H, max_states=1500000)
    eng.run(main)
    rep.count_states(eng.states, eng.transitions)
    if H.commits == 0:
        raise AnalysisBroken('no link(intd/..,todo/..) commit found in qmail-queue main: anchor vanished')
    return dict(H.seen_sites)



def run(ctx):
    db, rep = ctx.db, ctx.report
    prog = db.program('qmail-queue')
    main = prog.fn('main', 'qmail-queue.c')
    rules = {
        'C01.1-durability': rep.rule('C01.1-durability', 'R-TYPESTATE', 'mess and intd are created, written, flushed and fsynced (every result checked) on every path to link(intd,todo); nothing touches them afterwards'),
        'C01.3-publish-once': rep.rule('C01.3-publish-once', 'R-EFFECT', 'todo/<n> is created only by the one link(intd/<n>,todo/<n>) in main'),
        'C01.3-exit-status': rep.rule('C01.3-exit-status', 'R-TABLE', 'exit 0 only through the commit; every other exit is a documented non-zero status'),
        'C01.4-name-is-inode': rep.rule('C01.4-name-is-inode', 'R-ORDER', 'message number = inode of the pid file; names built after it is known'),
        'C01.5-cleanup-order': rep.rule('C01.5-cleanup-order', 'R-ORDER', 'clean-up removes intd before mess; the alarm handler never cleans up'),
        'C01.6-timer': rep.rule('C01.6-timer', 'R-ORDER', 'alarm(DEATH) armed before any file is created; DEATH < OSSIFIED'),
        'C01.7-envelope-gate': rep.rule('C01.7-envelope-gate', 'R-TRANSDUCER', 'commit only after F addr NUL (T addr NUL)* NUL; bad letter -> 91; each byte copied once, in order'),
        'C01.8-message-order': rep.rule('C01.8-message-order', 'R-TYPESTATE', 'mess = own Received line, then a copy of descriptor 0, nothing else'),
        'C01.16-trigger': rep.rule('C01.16-trigger', 'R-ORDER', 'triggerpull() on every path from the commit to exit 0'),
    }
    H = QueueHooks(rules)
    H.precise = frozenset(counter_vars(main, macro_const(db, 'qmail-queue.c', 'ADDR')))
    H.ADDR = macro_const(db, 'qmail-queue.c', 'ADDR')
    eng = Engine(db, prog, H, max_states=1500000)
    eng.run(main)
    rep.count_states(eng.states, eng.transitions)
    for (rule, inst), (ok, where, detail, path) in sorted(H.seen_sites.items()):
        rules[rule].check(ok, inst, where, detail, path)
    if H.commits == 0:
        raise AnalysisBroken('no link(intd/..,todo/..) commit found in qmail-queue main: anchor vanished')
    rules['C01.1-durability'].expect_min(6)
    rules['C01.3-exit-status'].expect_min(8)
    rules['C01.7-envelope-gate'].expect_min(4)
    rep.sample({'exit statuses reachable in qmail-queue (value -> site)': {str(k): v for k, v in sorted(H.exits.items(), key=lambda kv: str(kv[0]))}})

    # --- R-EFFECT: who can create a todo/ name, program-wide (not only main)
    r = rules['C01.3-publish-once']
    n_sites = 0
    for fn in prog.functions():
        if fn.sys:
            continue
        for c in fn.calls(('fmtqfn', 'fnnum')):
            lit = None
            for a in c.args:
                if a is not None and a.string is not None:
                    lit = a.string
            if lit is None and fn.name != 'fnnum':
                r.bad('queue-name-from-non-literal:%s' % fn.name, c.where, 'queue file name prefix is not a literal: %s' % c.src())
            elif lit is not None:
                n_sites += 1
                r.check(lit in ('mess/', 'intd/', 'todo/'), 'name-prefix:%s' % lit, c.where,
                        'qmail-queue builds a name under %r' % lit)
        for c in fn.calls(('rename', 'open_trunc', 'open_append', 'symlink', 'mkdir', 'rmdir')):
            r.bad('unexpected-%s-in-%s' % (c.callee, fn.name), c.where, 'qmail-queue must not %s' % c.callee)
    if n_sites < 3:
        raise AnalysisBroken('fewer than 3 queue-name constructions found in qmail-queue')
    # todofn used only by the commit link
    uses = []
    for fn in prog.functions():
        for x in fn.all_x():
            if x.k == 'call':
                for i, a in enumerate(x.args):
                    if a is not None and a.path() == 'G:todofn':
                        uses.append((fn.name, x.callee, i, x))
    for fname, callee, i, x in uses:
        r.check(callee == 'link' and i == 1, 'todofn-use:%s(arg%d)' % (callee, i), x.where,
                'the todo/ name is passed to %s in %s' % (callee, fname))
    if not uses:
        raise AnalysisBroken('todofn is never used')

    # --- alarm handler must not clean up
    r = rules['C01.5-cleanup-order']
    for inst_, v_ in sorted(handler_sites(db).items()):
        r.check(v_[0], inst_, v_[1], v_[2], v_[3])

    # --- the message copy reports read and write errors as such
    from rules import libtab
    rc = rep.rule('C01.11-copy-results', 'R-TABLE', 'substdio_copy(): 0 = copied, -2 = read error, -3 = write error (main dies on the latter two; any other value would be taken for "copied")')
    for inst, v in sorted(libtab.substdio_copy_sites(db, rep, prog).items()):
        rc.check(v[0], inst, v[1], v[2], v[3])
    for inst, v in sorted(libtab.substdio_read_sites(db, rep, prog).items()):
        rc.check(v[0], inst, v[1], v[2], v[3])
    rc.expect_min(4)

    # --- only leftovers of failed attempts are collected (daemon side)
    from rules import qsend
    rg = rep.rule('C01.10-collector', 'R-GUARD', 'qmail-send cleanup_do: a mess file is handed to qmail-clean only if it is older than OSSIFIED and has neither an info nor a todo entry (an accepted message always has one of them)')
    # ... and qmail-clean removes both files of such a leftover or reports the failure (concrete request sessions, C18 rule 1)
    from rules import C18 as _c18
    HC_, _ = _c18.explore_clean(db, rep)
    for inst_, v_ in sorted(HC_.sites.items()):
        if inst_.startswith('removal-order:') or inst_ in ('plus-only-after-the-whole-removal-sequence', 'exactly-one-status-byte-per-request', 'no-unlink-after-an-answer'):
            rg.check(v_[0], 'qmail-clean:' + inst_, v_[1], v_[2], v_[3])
    qsend.attach(rg, qsend.analyse_cleanup_do(db, rep), prefixes=['gc:'])
    rg.expect_min(2)

    # --- R-CONST DEATH < OSSIFIED
    r = rules['C01.6-timer']
    from rules import libtab as _lt
    for inst_, v_ in sorted(_lt.sig_blocknone_sites(db, rep, prog).items()):
        r.check(v_[0], inst_, v_[1], v_[2], v_[3])
    death = macro_const(db, 'qmail-queue.c', 'DEATH')
    oss_s = macro_const(db, 'qmail-send.c', 'OSSIFIED')
    oss_c = macro_const(db, 'qmail-clean.c', 'OSSIFIED')
    r.check(0 < death < oss_s and death < oss_c, 'DEATH<OSSIFIED', 'qmail-queue.c',
            'DEATH=%d, OSSIFIED=%d (qmail-send), %d (qmail-clean)' % (death, oss_s, oss_c))
    al = [c for _, c in deep_calls(prog, main, 'alarm', depth=2)]
    if not al:
        raise AnalysisBroken('alarm() call not found in main')
    for c in al:
        r.check(c.args[0].const == death and 'DEATH' in c.args[0].macros, 'alarm(DEATH)', c.where, 'alarm armed with %s' % c.args[0].src())

    # --- address bound: loops reading an address are bounded by ADDR and overflow exits 11
    r = rules['C01.7-envelope-gate']
    addr = macro_const(db, 'qmail-queue.c', 'ADDR')
    # (a loop without its gate shows as an over-long address being accepted: instance exit-11-iff-length>=ADDR@accepted, checked at every address end)
    if getattr(H, 'n11', 0) < 1 and all(v[0] for v in H.seen_sites.values()):
        raise AnalysisBroken('qmail-queue main: exit 11 for an over-long address was never reached')
    # every 1-byte envelope read inside a loop sits in a loop bounded by len < ADDR, or is the record-letter read
    # (decided by the ESP run with len abstracted; see the thorough tier for the exact count)

    # --- substdo.c allwrite: returns 0 only when len reached 0
    r9 = rep.rule('C01.9-short-writes', 'R-GUARD', 'allwrite retries short writes: return 0 only on loop exit len == 0; flush returns its result')
    for inst, v in sorted(libtab.allwrite_result_sites(db, rep, prog).items()):
        r9.check(v[0], inst, v[1], v[2], v[3])
    from rules import shortwrite
    for inst, v in sorted(shortwrite.allwrite_sites(db, rep).items()):
        r9.check(v[0], 'allwrite:' + inst, v[1], v[2], v[3])
    r9.expect_min(4)
    rep.assume('fsync(fd) makes the file data durable; link() is atomic; directory operations are synchronous (conf-qmail)',
               'substdio_put/bput/copy deliver bytes in order to the bound descriptor',
               '_exit does not return')
