"""C14 — bounces go back once and can neither loop nor be forged (decision table, sanitising)."""
import itertools
from qv.core import AnalysisBroken
from qv.esp import Engine, Outcome, TOP, fs, ptr_add
from qv.lib import QHooks
from rules import qsend
from rules.qsend import attach, g1

NL = 10


from rules import libtab


class AddBounceHooks(QHooks):
    """addbounce() on a concrete small geometry: recipient "r\\n", a report of 3 bytes over {NL, x}"""
    tracked = frozenset(['G:bouncetext'])

    def precise_arith(self, path):
        return True      # concrete geometry: every index is exact

    def __init__(self, report):
        self.report = report
        self.sites = {}
        self.final = None

    def site(self, inst, x, ok, detail, E):
        prev = self.sites.get(inst)
        if prev is None or (prev[0] and not ok):
            self.sites[inst] = (ok, x.where if x is not None else 'qmail-send.c:addbounce', detail, E.trace.list() if not ok else [])

    def text(self, E):
        n = g1(E, 'G:bouncetext.len', 0)
        out = []
        for k in range(n):
            v = E.get('G:bouncetext.s[%d]' % k)
            out.append(next(iter(v)) if v is not TOP and len(v) == 1 else None)
        return out

    def _set(self, E, data, append):
        n = g1(E, 'G:bouncetext.len', 0) if append else 0
        sets = {}
        for i, b in enumerate(data):
            sets['G:bouncetext.s[%d]' % (n + i)] = fs(b)
        sets['G:bouncetext.len'] = fs(n + len(data))
        sets['G:bouncetext.s'] = fs(('&', 'G:bouncetext.s[0]'))
        return [Outcome(ret=fs(1), sets=sets)]

    # byte searches of the C library on the concrete text
    mem = libtab.SAConc.mem
    cstring = libtab.SAConc.cstring
    prim_memchr = libtab.SAConc.prim_memchr
    prim_memrchr = libtab.SAConc.prim_memrchr
    prim_strchr = libtab.SAConc.prim_strchr
    prim_strrchr = libtab.SAConc.prim_strrchr
    prim_strlen = libtab.SAConc.prim_str_len

    def _bytes(self, E, x, args):
        lit = x.args[1].string
        if lit is not None:
            return [ord(c) for c in lit]
        v = args[1]
        if v is not TOP and len(v) == 1:
            (a,) = v
            if isinstance(a, tuple) and a[0] == 'str':
                return [ord(c) for c in a[1]]
            if a == ('&', 'REP[0]'):
                return list(self.report)
            if a == ('&', 'RCP[0]'):
                return [ord('R'), NL]          # the raw recipient (not passed through stripvdomprepend)
        raise AnalysisBroken('addbounce: cannot model appended data %s' % x.args[1].src())

    def prim_stralloc_copys(self, E, x, args):
        return self._set(E, self._bytes(E, x, args), False)

    def prim_stralloc_cats(self, E, x, args):
        return self._set(E, self._bytes(E, x, args), True)

    def _nbytes(self, E, x, args):
        n = args[2]
        data = self._bytes(E, x, args)
        if n is TOP or len(n) != 1 or not isinstance(next(iter(n)), int) or next(iter(n)) > len(data):
            raise AnalysisBroken('addbounce: cannot model the length of appended data %s' % x.args[2].src())
        return data[:next(iter(n))]

    def prim_stralloc_copyb(self, E, x, args):
        return self._set(E, self._nbytes(E, x, args), False)

    def prim_stralloc_catb(self, E, x, args):
        return self._set(E, self._nbytes(E, x, args), True)

    def prim_stripvdomprepend(self, E, x, args):
        v = args[0]
        self.stripped = v is not TOP and v == fs(('&', 'RCP[0]'))
        return [Outcome(ret=fs(('str', 'r\n')))]

    def prim_strlen(self, E, x, args):
        if args[0] is not TOP and args[0] == fs(('&', 'REP[0]')):
            return [Outcome(ret=fs(len(self.report)))]
        return [Outcome(ret=TOP)]

    prim_str_len = prim_strlen

    def prim_nomem(self, E, x, args):
        return [Outcome(ret=TOP)]

    def prim_fnmake2_bounce(self, E, x, args):
        E.set('$fn2', fs('bounce'))
        return [Outcome(ret=TOP)]

    def prim_open_append(self, E, x, args):
        self.final = self.text(E)
        self.check_final(E, x)
        self.site('bounce-text-appended-to-bounce/<n>', x, x.args[0].path() == 'G:fn2.s' and g1(E, '$fn2') == 'bounce', 'addbounce appends to %s' % x.args[0].src(), E)
        return [Outcome(ret=fs(('fd', 'bounce')))]

    def check_final(self, E, x):
        t = self.final
        rep = ''.join('\\n' if b == NL else chr(b) for b in self.report)
        if None in t:
            self.site('paragraph-text-determined', x, False, 'bounce text not fully determined for report %r' % rep, E)
            return
        s = ''.join(chr(b) for b in t)
        # exactly one paragraph: "<" recipient-without-newlines ">:\n" body "\n\n" with no blank line inside
        head_end = s.find('>:\n')
        self.site('recipient-line-has-no-newline', x, head_end > 0 and '\n' not in s[:head_end] and s.startswith('<r'), 'recipient %r yields head %r' % ('r\\n', s[:head_end + 3]), E)
        idx = s.find('\n\n')
        self.site('paragraph-ends-with-a-blank-line', x, idx >= 0 and s.endswith('\n\n'), 'text for report %r ends with %r' % (rep, s[-3:]), E)
        # nothing but newlines after the first blank line: report text cannot start a new paragraph
        self.site('no-text-after-the-first-blank-line', x, idx >= 0 and set(s[idx:]) == {'\n'},
                  'report %r yields %r: text after a blank line lets the report forge further recipient paragraphs' % (rep, s), E)

    def prim_write(self, E, x, args):
        # everything asked for is written (a write never reports more than it was handed)
        n = args[2]
        if n is TOP or len(n) != 1 or not isinstance(next(iter(n)), int):
            raise AnalysisBroken('addbounce: write() with an undetermined count')
        return [Outcome(ret=fs(next(iter(n))))]

    def prim_close(self, E, x, args):
        return [Outcome(ret=TOP)]

    def tracked_global(self, path):
        return path.startswith('REP[') or path.startswith('RCP[') or super().tracked_global(path)

    def materialize(self, E, path):
        if path.startswith('REP['):
            k = int(path[4:-1])
            return fs(self.report[k] if 0 <= k < len(self.report) else 0)
        return TOP


class EnvelopeHooks(qsend.BounceHooks):
    """injectbounce() with a concrete envelope sender: what reaches qmail_from / qmail_to"""
    tracked = qsend.BounceHooks.tracked | frozenset(['G:sender', 'G:doublebounceto'])

    def __init__(self, snd):
        super().__init__()
        self.snd = snd
        self.envs = set()
        self.opened = 0
        self.getinfo = 0
        self.trace = []
        self.sa = None

    def precise_arith(self, path):
        return True

    def site(self, inst, x, ok, detail, E, kill=True):
        pass

    def prim_getinfo(self, E, x, args):
        self.getinfo += 1
        sa = None
        if args[0] is not TOP and len(args[0]) == 1:
            (a,) = args[0]
            if isinstance(a, tuple) and a[0] == '&':
                sa = a[1]
        if sa is None:
            raise AnalysisBroken('injectbounce: the sender buffer handed to getinfo() is not an object address')
        self.sa = sa
        st = {sa + '.s': fs(('&', sa + '.s[0]')), sa + '.len': fs(len(self.snd) + 1)}
        for i, ch in enumerate(self.snd + '\0'):
            st['%s.s[%d]' % (sa, i)] = fs(ord(ch))
        return [Outcome(ret=fs(0)), Outcome(ret=fs(1), sets=st)]

    def cstr(self, E, v):
        """the C string a pointer value denotes, or None"""
        if v is TOP or len(v) != 1:
            return None
        (a,) = v
        if isinstance(a, tuple) and a[0] == 'str':
            return a[1]
        if isinstance(a, tuple) and a[0] == '&':
            out = ''
            p = a
            for _ in range(64):
                b = E.get(p[1])
                if b is TOP or len(b) != 1 or not isinstance(next(iter(b)), int):
                    return None
                c = next(iter(b))
                if c == 0:
                    return out
                out += chr(c & 255)
                p = ptr_add(p, 1)
                if p is None:
                    return None
        return None

    def prim_strcmp(self, E, x, args):
        l, r = self.cstr(E, args[0]), self.cstr(E, args[1])
        if l is None or r is None:
            return [Outcome(ret=fs(0)), Outcome(ret=fs(1))]
        return [Outcome(ret=fs(0 if l == r else (1 if l > r else -1)))]

    def prim_strncmp(self, E, x, args):
        l, r = self.cstr(E, args[0]), self.cstr(E, args[1])
        n = next(iter(args[2])) if args[2] is not TOP and len(args[2]) == 1 else None
        if l is None or r is None or not isinstance(n, int):
            return [Outcome(ret=fs(0)), Outcome(ret=fs(1))]
        l, r = l[:n], r[:n]
        return [Outcome(ret=fs(0 if l == r else (1 if l > r else -1)))]

    def prim_memcmp(self, E, x, args):
        return self.prim_strncmp(E, x, args)

    def prim_strlen(self, E, x, args):
        l = self.cstr(E, args[0])
        return [Outcome(ret=fs(len(l)) if l is not None else TOP)]

    def materialize(self, E, path):
        if path == 'G:doublebounceto.s':
            return fs(('&', 'G:doublebounceto.s[0]'))
        return TOP

    def prim_qmail_open(self, E, x, args):
        self.opened += 1
        return [Outcome(ret=fs(0)), Outcome(ret=fs(-1))]

    def prim_qmail_from(self, E, x, args):
        E.set('$envfrom', fs(self.cstr(E, args[1]) if self.cstr(E, args[1]) is not None else '?'))
        return [Outcome(ret=TOP)]

    def prim_qmail_to(self, E, x, args):
        v = args[1]
        to = '?'
        if v is not TOP and len(v) == 1:
            (a,) = v
            if a == ('&', 'G:doublebounceto.s[0]'):
                to = 'doublebounceto'
            elif self.sa and isinstance(a, tuple) and a[0] == '&' and str(a[1]).startswith(self.sa + '.s['):
                c = self.cstr(E, v)
                to = 'sender:' + c if c is not None else '?'
        fr = g1(E, '$envfrom', 'unset')
        self.envs.add((fr, to))
        if not self.trace:
            self.trace = E.trace.list()
        return [Outcome(ret=TOP)]

    def prim_qmail_close(self, E, x, args):
        return [Outcome(ret=fs(('str', '')))]

    def prim_unlink(self, E, x, args):
        return [Outcome(ret=fs(0))]

    def on_return(self, E, fn, val):
        pass



def g1v(v):
    return next(iter(v)) if v is not TOP and v is not None and len(v) == 1 else None


class StripHooks(QHooks):
    """stripvdomprepend(recip) over a concrete recipient and a scripted virtualdomains table"""
    def __init__(self, recip, table):
        self.recip = recip
        self.table = table
        self.ret = []
        self.over = None

    def tracked_global(self, path):
        return True

    def precise_arith(self, path):
        return True

    def rd(self, E, p, i):
        from qv.esp import ptr_add
        q = ptr_add(p, i) if isinstance(p, tuple) else None
        if q is None:
            return None
        v = E.get(q[1])
        if v is TOP:
            v = self.materialize(E, q[1])
        return next(iter(v)) if v is not TOP and len(v) == 1 else None

    def materialize(self, E, path):
        if path.startswith('RCP['):
            k = int(path[4:-1])
            if k > len(self.recip) and self.over is None:
                self.over = (k, E.trace.list())
            return fs(ord(self.recip[k]) if 0 <= k < len(self.recip) else 0) if k <= len(self.recip) else TOP
        return TOP

    def cstr(self, E, p, limit=80):
        out = ''
        for i in range(limit):
            b = self.rd(E, p, i)
            if b is None:
                return None
            if b == 0:
                return out
            out += chr(b & 255)
        return None

    def prim_str_rchr(self, E, x, args):
        s_, c = self.cstr(E, g1v(args[0])), g1v(args[1])
        if s_ is None:
            return [Outcome(ret=TOP)]
        return [Outcome(ret=fs(s_.rfind(chr(c)) if chr(c) in s_ else len(s_)))]

    def prim_strlen(self, E, x, args):
        s_ = self.cstr(E, g1v(args[0]))
        return [Outcome(ret=fs(len(s_)) if s_ is not None else TOP)]

    prim_str_len = prim_strlen

    def prim_constmap(self, E, x, args):
        p, n = g1v(args[1]), g1v(args[2])
        if not isinstance(n, int) or n < 0 or n > 80:
            return [Outcome(ret=fs(0))]
        key = ''
        for i in range(n):
            b = self.rd(E, p, i)
            if b is None:
                return [Outcome(ret=fs(0))]
            key += chr(b & 255)
        pre = self.table.get(key.lower())
        if pre is None:
            return [Outcome(ret=fs(0), log='virtualdomains lookup %r: no entry' % key)]
        base = 'PRE%d' % sorted(self.table).index(key.lower())
        sets = {'%s[%d]' % (base, i): fs(ord(ch)) for i, ch in enumerate(pre)}
        sets['%s[%d]' % (base, len(pre))] = fs(0)
        return [Outcome(ret=fs(('&', base + '[0]')), sets=sets, log='virtualdomains lookup %r -> prefix %r' % (key, pre))]

    def _cmpn(self, E, x, args):
        a, b, n = g1v(args[0]), g1v(args[1]), g1v(args[2])
        if not isinstance(n, int):
            return [Outcome(ret=fs(0)), Outcome(ret=fs(1))]
        for i in range(n):
            ca, cb = self.rd(E, a, i), self.rd(E, b, i)
            if ca is None or cb is None:
                return [Outcome(ret=fs(0)), Outcome(ret=fs(1))]
            if ca != cb:
                return [Outcome(ret=fs(1))]
            if ca == 0:
                break
        return [Outcome(ret=fs(0))]

    prim_strncmp = prim_str_diffn = _cmpn

    def on_return(self, E, fn, val):
        if fn.name == 'stripvdomprepend':
            self.ret.append((g1v(val), E.trace.list()))


def strip_sites(db, rep, prog):
    """the bounce names the recipient with the virtual-domain prefix removed: stripvdomprepend undoes what the
    documented routing rule prepends, for every kind of virtualdomains entry, and never reads beyond the recipient"""
    fn = prog.fn('stripvdomprepend', 'qmail-send.c')
    table = {'example.net': 'hosting', '.example.org': 'wild', 'www.example.org': '', 'bob@full.example': 'fullpre', 'short.example': 'averyveryverylongprefixindeed'}

    def route(addr):
        """documented rule: full address, then domain, then successively shorter dot suffixes, then catch-all"""
        at = addr.rfind('@')
        dom = addr[at + 1:]
        cands = [addr, dom] + [dom[i:] for i in range(1, len(dom)) if dom[i] == '.'] + ['']
        for c in cands:
            if c.lower() in table:
                return table[c.lower()], c
        return None, None
    cases = []
    for a in ('bob@example.net', 'al@sub.example.org', 'x@deep.sub.example.org', 'bob@www.example.org', 'wild-bob@www.example.org', 'hosting-x@other.example',
              'bob@full.example', 'carol@full.example', 'al@short.example', 'nodomain', 'a-b-c@example.net', 'B@EXAMPLE.NET'):
        pre, via = route(a)
        if pre:
            cases.append((pre + '-' + a, a, via))
        else:
            cases.append((a, a, via))
    # recipients at a virtual domain that do NOT carry its prefix (the domain is also listed in locals, or the table changed
    # while the message was queued): nothing to strip, and the prefix may be longer than the whole address
    cases.append(('al@short.example', 'al@short.example', None))
    cases.append(('x@example.net', 'x@example.net', None))
    out = {}
    bad_kind = {}
    over = None
    for recip, want, via in cases:
        H = StripHooks(recip, table)
        e = Engine(db, prog, H)
        fid = e.frame_id(fn)
        e.run(fn, {'%s::%s' % (fid, fn.params[0]): fs(('&', 'RCP[0]'))})
        rep.count_states(e.states, e.transitions)
        if H.over:
            if over is None:
                over = ('for the recipient %r (%d bytes) byte %d is read: beyond the end of the string' % (recip, len(recip), H.over[0]), H.over[1])
            continue
        if len(H.ret) != 1:
            raise AnalysisBroken('stripvdomprepend: %d ends for %r' % (len(H.ret), recip))
        v, tr = H.ret[0]
        got = recip[int(v[1][4:-1]):] if isinstance(v, tuple) and v[0] == '&' and v[1].startswith('RCP[') else None
        if H.over and over is None:
            over = ('for the recipient %r (%d bytes) byte %d is read: beyond the end of the string' % (recip, len(recip), H.over[0]), H.over[1])
        if got != want:
            kind = 'full-address-entry' if via and '@' in via else 'exception-entry' if via is not None and table.get(via.lower()) == '' else 'domain-or-wildcard-entry' if via else 'no-entry'
            bad_kind.setdefault(kind, ('recipient %r (original address %r, virtualdomains entry %r) is named as %r in the bounce' % (recip, want, via, got), tr, '%s->%s' % (recip, got)))
    for kind in ('domain-or-wildcard-entry', 'exception-entry', 'no-entry', 'full-address-entry'):
        b = bad_kind.get(kind)
        # a failing instance is named by its input and observed result, so that the known-findings file can list exactly one misbehaviour
        out['strip:%s%s' % (kind, ':%s' % b[2] if b else '')] = (b is None, 'qmail-send.c:stripvdomprepend', b[0] if b else '', b[1] if b else [])
    out['strip:never-reads-beyond-the-recipient'] = (over is None, 'qmail-send.c:stripvdomprepend', over[0] if over else '', over[1] if over else [])
    return out



class ControlsHooks(libtab.SAConc, QHooks):
    """qmail-send getcontrols() with every control file present and holding a recognisable value: what the bounce addresses are built from"""
    FILES = {'control/envnoathost': b'env.example', 'control/bouncefrom': b'BOUNCER', 'control/bouncehost': b'bounces.example',
             'control/doublebouncehost': b'hq.example', 'control/doublebounceto': b'mailadmin'}

    def __init__(self):
        self.ends = []

    def tracked_global(self, path):
        return True

    def precise_arith(self, path):
        return True

    def prim_control_init(self, E, x, args):
        return [Outcome(ret=fs(0))]

    def prim_control_readint(self, E, x, args):
        return [Outcome(ret=fs(1))]

    def prim_control_rldef(self, E, x, args):
        from qv.lib import lit_of
        v1 = libtab._one(args[1])
        fnm = v1[1] if isinstance(v1, tuple) and v1[0] == 'str' else lit_of(E, x.args[1])       # the name as a value (it may come from a table), else as written
        val = self.FILES.get(fnm)
        if val is None:
            return [Outcome(ret=fs(1))]
        o = self._put(E, x, args, val, False)[0]
        return [Outcome(ret=fs(1), sets=o.sets)]

    prim_control_readline = prim_control_rldef

    def prim_control_readfile(self, E, x, args):
        o = self._put(E, x, args, b'x\0', False)[0]
        return [Outcome(ret=fs(1), sets=o.sets)]

    def prim_constmap_init(self, E, x, args):
        return [Outcome(ret=fs(1))]

    def on_return(self, E, fn, val):
        if fn.name == 'getcontrols':
            self.ends.append((libtab._one(val), {n: self.sa_bytes(E, 'G:' + n) for n in ('doublebounceto', 'bouncefrom', 'bouncehost', 'doublebouncehost')}, E.trace.list()))


def controls_sites(db, rep):
    prog = db.program('qmail-send')
    gc = prog.fn('getcontrols', 'qmail-send.c')
    H = ControlsHooks()
    e = Engine(db, prog, H, max_states=60000)
    e.run(gc, {})
    rep.count_states(e.states, e.transitions)
    if len(H.ends) != 1 or H.ends[0][0] != 1:
        raise AnalysisBroken('getcontrols: %d ends (results %s) with every control file readable' % (len(H.ends), [e_[0] for e_ in H.ends]))
    _, vals, tr = H.ends[0]
    F = ControlsHooks.FILES
    want = {'doublebounceto': F['control/doublebounceto'] + b'@' + F['control/doublebouncehost'] + b'\0', 'bouncefrom': F['control/bouncefrom'],
            'bouncehost': F['control/bouncehost'], 'doublebouncehost': F['control/doublebouncehost']}
    bad = {k: (vals.get(k), w) for k, w in want.items() if vals.get(k) != w}
    return {'controls:double-bounce-address=doublebounceto@doublebouncehost': (not bad, 'qmail-send.c:getcontrols',
            'with the control files %s the daemon starts with %s' % ({k.split('/')[1]: v.decode() for k, v in F.items()}, {k: (g, 'documented %r' % w) for k, (g, w) in bad.items()}) if bad else 'bouncefrom, bouncehost, doublebounceto@doublebouncehost', tr if bad else [])}


def control_value_sites(db, rep):
    """getcontrols() with the numeric control files holding 0, holding 5, and absent; and which list files fall back to control/me:
    a value is taken as written (0 is a value: a channel on hold, a queue lifetime of nothing), an absent file leaves the compiled-in
    default, and only locals defaults to me (percenthack and virtualdomains default to none)"""
    from qv.lib import lit_of
    prog = db.program('qmail-send')
    gc = prog.fn('getcontrols', 'qmail-send.c')
    bad = {}
    lists = {}
    cells = {}          # control file -> the object its number is read into (discovered by a first run, whatever it is called)
    SENT = {'control/queuelifetime': 777, 'control/concurrencylocal': 7, 'control/concurrencyremote': 8}
    for scen, val in (('discovery', None), ('holding 0', 0), ('holding 5', 5), ('absent', None)):
        ints = {}

        class CV(ControlsHooks):
            def prim_control_readint(self, E, x, args):
                v1 = libtab._one(args[1])
                fnm = v1[1] if isinstance(v1, tuple) and v1[0] == 'str' else lit_of(E, x.args[1])
                p_ = libtab._one(args[0])
                ints[fnm] = p_[1] if isinstance(p_, tuple) else None
                if val is None or not isinstance(p_, tuple):
                    return [Outcome(ret=fs(0))]
                return [Outcome(ret=fs(1), sets={p_[1]: fs(val)})]

            def prim_control_readfile(self, E, x, args):
                v1 = libtab._one(args[1])
                fnm = v1[1] if isinstance(v1, tuple) and v1[0] == 'str' else lit_of(E, x.args[1])
                lists[fnm] = libtab._one(args[2])
                return ControlsHooks.prim_control_readfile(self, E, x, args)

            def on_return(self, E, fn, val_):
                if fn.name == 'getcontrols':
                    self.ends.append((libtab._one(val_), dict(E.store), E.trace.list()))
        H = CV()
        e = Engine(db, prog, H, max_states=60000)
        e.run(gc, {cells[f_]: fs(SENT[f_]) for f_ in cells})
        rep.count_states(e.states, e.transitions)
        if scen != 'discovery' and (len(H.ends) != 1 or H.ends[0][0] != 1):
            raise AnalysisBroken('getcontrols: %d ends with the numeric control files %s' % (len(H.ends), scen))
        if not H.ends:
            raise AnalysisBroken('getcontrols: no end reached')
        st, tr = H.ends[0][1], H.ends[0][2]
        if scen == 'discovery':
            for fnm in SENT:
                if not ints.get(fnm):
                    raise AnalysisBroken('getcontrols does not read %s into a named object' % fnm)
                cells[fnm] = ints[fnm]
            continue
        for fnm, key in (('control/queuelifetime', 'controls:queuelifetime-is-taken-as-written(0-included)'),
                         ('control/concurrencylocal', 'controls:concurrency-is-taken-as-written(0-holds-the-channel)'),
                         ('control/concurrencyremote', 'controls:concurrency-is-taken-as-written(0-holds-the-channel)')):
            cell, dflt = cells[fnm], SENT[fnm]
            got = libtab._one(st.get(cell))
            want = dflt if val is None else val
            if got != want:
                bad.setdefault(key, ('%s %s: the daemon runs with %s = %s; documented: %s' % (fnm, scen, cell[2:], got, 'the compiled-in default stays' if val is None else 'the value %d as written' % val), tr))
    wantl = {'control/locals': 1, 'control/percenthack': 0, 'control/virtualdomains': 0}
    if {k: lists.get(k) for k in wantl} != wantl:
        bad['controls:only-locals-defaults-to-me'] = ('fall-back to control/me when the file is missing: %s; documented (qmail-send(8)): locals defaults to me, percenthack and virtualdomains to none' % {k.split('/')[1]: lists.get(k) for k in wantl}, [])
    out = {}
    for k in ('controls:queuelifetime-is-taken-as-written(0-included)', 'controls:concurrency-is-taken-as-written(0-holds-the-channel)', 'controls:only-locals-defaults-to-me'):
        out[k] = (k not in bad, 'qmail-send.c:getcontrols', bad[k][0] if k in bad else 'numeric files holding 0, holding 5 and absent; three list files', bad[k][1] if k in bad else [])
    return out


def run(ctx):
    db, rep = ctx.db, ctx.report
    prog = db.program('qmail-send')
    ib = qsend.analyse_injectbounce(db, rep)
    r1 = rep.rule('C14.1-bounce-envelope-table', 'R-TABLE', 'injectbounce: ordinary sender -> ("", sender); empty sender -> ("#@[]", doublebounceto); sender #@[] -> nothing injected, record discarded; exactly one sender and one recipient record; -@[] stripped first')
    for inst_, v_ in sorted(controls_sites(db, rep).items()):
        r1.check(v_[0], inst_, v_[1], v_[2], v_[3])
    attach(r1, ib, only={'ib:no-injection-for-the-triple-bounce-sender', 'ib:exactly-one-sender-and-one-recipient'})
    f = prog.fn('injectbounce', 'qmail-send.c')
    SENDERS = ['', '#@[]', 'a@b', 'owner-@h-@[]', '-@[]', 'x-@[]', '#@[]x', 'a#@[]', '@[]']
    n_env = 0
    for snd in SENDERS:
        H = EnvelopeHooks(snd)
        eng = Engine(db, prog, H)
        eng.run(f, {})
        rep.count_states(eng.states, eng.transitions)
        stripped = snd[:-4] if snd.endswith('-@[]') else snd
        if stripped == '#@[]':
            want = None
        elif stripped == '':
            want = ('#@[]', 'doublebounceto')
        else:
            want = ('', 'sender:' + stripped)
        if H.getinfo < 1:
            raise AnalysisBroken('injectbounce: getinfo() not reached')
        got = sorted(H.envs, key=str)
        ok = (got == [] and want is None and H.opened == 0) or (want is not None and got == [want])
        n_env += 1
        r1.check(ok, 'sender=%r->%s' % (snd, 'nothing injected' if want is None else '(from=%r,to=%s)' % want), f.unit + ':injectbounce',
                 'explored envelopes %s (queue program started on %d paths); documented %s' % (got, H.opened, want), H.trace)
    r1.check(n_env == len(SENDERS), 'sender-classes-explored', f.unit + ':injectbounce', '%d of %d' % (n_env, len(SENDERS)))
    r1.expect_min(len(SENDERS) + 3)

    r2 = rep.rule('C14.2-bounce-record-lifetime', 'R-ORDER', 'bounce/<n> is removed only after the notice was queued (or discarded as a triple bounce); read failures latch qmail_fail; a crashed or failing queue program never counts as queued')
    attach(r2, ib, only={'ib:bounce-file-removed-only-after-notice-queued-or-triple-bounce', 'ib:returns-1-only-when-bounce-file-is-gone', 'ib:read-failure-latches-qmail_fail'})
    # "queued" means qmail_close() returned "": its table is decided under C07 rule 2; re-decide the cells that matter here
    from rules import C07
    from qv.esp import Engine as Eng
    qc = prog.fn('qmail_close', 'qmail.c')
    H2 = C07.CloseHooks()
    for init in (0, 1):
        H2.fn = 'qmail_close'
        e = Eng(db, prog, H2, max_states=4000000)
        fid = e.frame_id(qc)
        e.run(qc, {'%s::%s' % (fid, qc.params[0]): fs(('&', 'OBJ')), 'OBJ.flagerr': fs(init), 'OBJ.pid': fs('PID'), '$bind': fs('fde'), '$init': fs(init)})
        rep.count_states(e.states, e.transitions)
    for inst, v in sorted(H2.sites.items()):
        if inst in ('qmail_close:success-only-for-exit0+no-failure', 'qmail_close:crash->Z'):
            r2.check(v[0], inst, v[1], v[2], v[3])
    ls_, _ = C07.latch_sites(db, rep, prog)
    for inst, v in sorted(ls_.items()):
        if inst.startswith('qmail_from:') or inst.startswith('qmail_fail:'):
            r2.check(v[0], 'latch:' + inst, v[1], v[2], v[3])
    for inst, v in sorted(qsend.id_width_sites(db).items()):
        r2.check(v[0], inst, v[1], v[2], v[3])      # bounce/<id> of one message must not be bounce/<id mod 2^32> of another
    r2.expect_min(6)

    r5 = rep.rule('C14.5-recipient-named-without-the-virtual-prefix', 'R-TABLE', 'stripvdomprepend() over 12 recipients and five kinds of virtualdomains entries: the prefix the routing rule prepended is removed, nothing is removed from addresses the rule did not touch (exception entries end the search), and no byte beyond the recipient is read')
    for inst, v in sorted(strip_sites(db, rep, prog).items()):
        r5.check(v[0], inst, v[1], v[2], v[3])
    r5.expect_min(5)

    r4 = rep.rule('C14.4-forwarded-bounces-keep-their-sender', 'R-GUARD', 'qmail-local: the -owner rewriting of the forwarding sender never applies to the null sender or to #@[], so a forwarded double bounce that fails is still recognised and discarded')
    from qv.lib import string_guard_allows
    pl = db.program('qmail-local')
    ml = pl.fn('main', 'qmail-local.c')
    ns = [c for c in ml.calls('env_put2') if c.args[0].string == 'NEWSENDER']
    if not ns:
        raise AnalysisBroken('qmail-local main: NEWSENDER not found')
    obj = (ns[0].args[1].path() or '')
    if not obj.endswith('.s'):
        raise AnalysisBroken('qmail-local main: NEWSENDER is not taken from a stralloc')
    obj = obj[:-2]
    from qv.lib import deep_calls, guards_through
    mods = [(f_, c) for f_, c in deep_calls(pl, ml, ('stralloc_copys', 'stralloc_cats', 'stralloc_copy', 'stralloc_cat', 'stralloc_catb', 'stralloc_copyb'), depth=1)
            if c.args[0].strip().k == 'un' and c.args[0].strip().args[0].path() == obj]
    init = [(f_, c) for f_, c in mods if c.args[1].path() == 'G:sender']
    nrew = 0
    for f_, c in mods:
        if (f_, c) in init:
            continue
        al = string_guard_allows(guards_through(pl, ml, f_, c), lambda v: v.path() == 'G:sender', ['', '#@[]', 'a@b', '#', '#@[]x', 'x-@[]'])
        nrew += 1
        r4.check('' not in al and '#@[]' not in al and 'a@b' in al, 'owner-rewrite-step-%d-excludes-null-and-double-bounce-senders' % nrew, c.where,
                 'this step of the -owner sender rewriting runs for the envelope senders %s: a double bounce (#@[]) forwarded through an alias with an -owner file leaves as alias-owner@host, and when it fails it is bounced again instead of being discarded (bounce loop)' % al)
    r4.check(len(init) == 1 and nrew >= 1, 'forward-sender-starts-as-the-envelope-sender', ml.unit + ':main', '%d initialisation(s) from sender, %d rewriting steps' % (len(init), nrew))
    r4.expect_min(2)

    r3 = rep.rule('C14.3-one-paragraph-per-recipient', 'R-TABLE', 'addbounce: for every report over {newline, other}^3 and a recipient containing a newline the text is one paragraph: no newline in the recipient line, a blank line at the end and no text after the first blank line')
    # every permanent failure reaches addbounce(): the report letter and delivery number decide (del_dochan explored; numbers up to 255)
    from rules.qsend import attach as _attach
    _attach(r3, qsend.analyse_del_dochan(db, rep), only={'del:bounce-only-for-D-(Z-when-expired)', 'del:bounce-recorded-before-DONE', 'del:delivery-numbers-128..255-are-acted-on'})
    fa = prog.fn('addbounce', 'qmail-send.c')
    n = 0
    sites = {}
    stripped_all = True
    RL = ctx.deep(3, 5)
    for report in itertools.product((NL, ord('x')), repeat=RL):
        for rlen in range(0, RL + 1):
            H = AddBounceHooks(report[:rlen])
            eng = Engine(db, prog, H)
            fid = eng.frame_id(fa)
            pt = [p_ for p_ in fa.params if 'char' in fa.param_types.get(p_, '')]
            if len(pt) != 2:
                raise AnalysisBroken('addbounce: recipient and report parameters not found')
            eng.run(fa, {'%s::%s' % (fid, pt[0]): fs(('&', 'RCP[0]')), '%s::%s' % (fid, pt[1]): fs(('&', 'REP[0]'))})
            rep.count_states(eng.states, eng.transitions)
            stripped_all = stripped_all and getattr(H, 'stripped', False)
            if H.final is None:
                raise AnalysisBroken('addbounce: open_append not reached')
            n += 1
            for k, v in H.sites.items():
                if k not in sites or (sites[k][0] and not v[0]):
                    sites[k] = v
    for inst, v in sorted(sites.items()):
        r3.check(v[0], inst, v[1], v[2], v[3])
    r3.note(reports_enumerated=n)
    r3.expect_min(4)
    rep.exhaustive_rules.append('C14.3-one-paragraph-per-recipient')
    # stripvdomprepend is applied to the recipient
    r3.check(stripped_all, 'virtual-domain-prefix-removed-from-the-recipient', fa.unit + ':addbounce', 'the recipient named in the paragraph must be the result of stripvdomprepend(recipient)')
    rep.assume('paragraph integrity is decided on a small geometry (3-byte reports over {newline, other}); the code touches report bytes only through comparisons with newline',
               'the chain message -> bounce -> double bounce through the real queue is not explored')
